"""C09 - background compaction never loses or resurrects rows under concurrency.

Decides: (R1) lock-then-pin - the snapshot a delete / a compaction works on is pinned after the
per-table lock is taken, and the deletion lock is only acquired at transaction start;
(R2) compact_table runs only under a successfully taken compaction guard that stays alive;
(R3) single committer - Manifest::append only under the manifest lock.
Does not decide: the interleavings themselves (schedule property)."""
import re

from tmpl import site, start_sites, done_sites, suffix, origin_locals, fallible_guards
from mir import pl_fields

SEC = 'storage::secondary::'
START = SEC + 'transaction::SecondaryTransaction::start::{closure#0}'
RUN = SEC + 'compactor::Compactor::run::{closure#0}'
LOCKS = ('SecondaryTable::lock_for_deletion', 'TransactionManager::lock_for_deletion',
         'TransactionManager::try_lock_for_compaction', 'TransactionManager::lock_for_compaction')


def run(ctx):
    prog = ctx.prog('all' if ctx.thorough else 'lib')
    ctx.extra['facts_key'] = prog.key
    ctx.explanation = ('T-order / T-who rules on the MIR of the transaction start, the compactor loop and the commit path: '
                       'a reader-modify-writer protected by the per-table lock must take its snapshot inside the critical '
                       'section; compaction only under the guard; one committer of the manifest.')
    ctx.trusted += ['rustc MIR facts', 'lock acquisition functions listed in rules/c09.py (taken from transaction_manager.rs)']
    ctx.assumptions += ['the per-table tokio Mutex is the only exclusion mechanism between DELETE and compaction']
    R1 = 'C09-R1'
    ctx.rule(R1, 'lock-then-pin: in every function that takes a table lock and pins a version, the lock acquisition '
                 'dominates the pin whose snapshot is used under the lock; lock_for_deletion is acquired only by '
                 'SecondaryTransaction::start (a lock taken later cannot protect the snapshot pinned at start)')
    TXN = SEC + 'transaction::SecondaryTransaction'
    n = lock_then_pin(ctx, prog, R1)
    ctx.floor(R1, n, 2, 'functions that both pin a version and take a table lock')
    # who acquires the deletion lock
    callers = [c for c in prog.calls_matching_all(suffix('SecondaryTable::lock_for_deletion', 'TransactionManager::lock_for_deletion'))]
    allowed = {SEC + 'transaction::SecondaryTransaction::start', SEC + 'table::SecondaryTable::lock_for_deletion',
               # DROP TABLE retires every row-set of the table: it holds the lock for its whole (short) critical section (R6)
               SEC + 'manifest::<impl storage::secondary::SecondaryStorage>::drop_table_inner'}
    for c in callers:
        ok = c.body.root in allowed
        ctx.ob(R1, f'who:{c.body.root}→lock_for_deletion', ok,
               f'lock_for_deletion is called from {c.body.name}' + ('' if ok else
               ': the deletion lock must be taken when the transaction (and its snapshot) starts, not later'),
               [site(c.body, c.bb)])
    ctx.floor(R1 + '-who', len(callers), 2, 'lock_for_deletion call sites')
    # start(update=true) must take the lock: the aggregate's delete_lock field is fed from lock_for_deletion
    b = prog.body(START)
    if ctx.anchor(R1, START, b is not None):
        ok = bool(start_sites(prog, b, 'SecondaryTable::lock_for_deletion'))
        ctx.ob(R1, 'SecondaryTransaction::start·takes-deletion-lock', ok,
               'SecondaryTransaction::start must acquire lock_for_deletion (for update transactions)')

    guard_rule(ctx, prog, 'C09-R2')

    R3 = 'C09-R3'
    ctx.rule(R3, 'single committer: Manifest::append is called only by commit_changes_with_custom_manifest, which is reached '
                 'only from commit_changes / rewrite_changes after they took the manifest lock')
    CC = SEC + 'version_manager::VersionManager::commit_changes_with_custom_manifest'
    app = [c for c in prog.calls_matching_all(suffix('Manifest::append')) if (c.fn or '').endswith('Manifest::append')]
    ctx.floor(R3, len(app), 1, 'Manifest::append call sites')
    for c in app:
        ctx.ob(R3, f'who:{c.body.root}→Manifest::append', c.body.root == CC,
               f'Manifest::append called from {c.body.name}', [site(c.body, c.bb)])
    cc = [c for c in prog.calls_matching_all(suffix('VersionManager::commit_changes_with_custom_manifest'))
          if (c.fn or '').endswith('commit_changes_with_custom_manifest')]
    ctx.floor(R3 + '-callers', len(cc), 2, 'callers of commit_changes_with_custom_manifest')
    for c in cc:
        b = c.body
        locks = [x.bb for x in b.calls if re.search(r'futures::lock::Mutex::<T>::lock$|futures_util::lock::mutex::Mutex::<T>::lock$', x.name or '')
                 or ((x.fn or '').endswith('Future::poll') and 'MutexLockFuture' in (x.res or ''))]
        # the lock future must have completed: use poll sites when present
        polls = [x.bb for x in b.calls if (x.fn or '').endswith('Future::poll') and 'MutexLockFuture' in ' '.join(x.t.get('gargs', []) + [x.res or ''])]
        L = set(polls or locks)
        ok = bool(L) and b.dominated_by_any(L, c.bb)
        ctx.ob(R3, f'{b.root}·manifest-lock≺commit', ok,
               f'{b.name}: commit_changes_with_custom_manifest (block {c.bb}) must be dominated by the manifest lock '
               f'(blocks {sorted(L)})', [site(b, c.bb)])

    R4 = 'C09-R4'
    ctx.rule(R4, 'DELETE locates its victims in the snapshot it deletes from: the SQL DELETE takes its row handlers from a child scan '
                 'executor, whose own transaction pinned a snapshot before DeleteExecutor took the table lock; a compaction can '
                 'commit in between. Therefore either DeleteExecutor scans through its own (locked) transaction, or '
                 'SecondaryTransaction::delete validates each handler against its snapshot (Snapshot::get_rowsets_of) and fails '
                 'before buffering a handler of a row-set that is gone')
    TD = '<storage::secondary::transaction::SecondaryTransaction as storage::Transaction>::delete::{closure#0}'
    DE = 'executor::delete::DeleteExecutor::<S>::execute::{closure#0}'
    td, de = prog.body(TD), prog.body(DE)
    if ctx.anchor(R4, TD, td is not None) and ctx.anchor(R4, DE, de is not None):
        ctx.functions_analysed.update([td.name, de.name])
        # (a) own scan?
        fc = [c for c in de.calls if (c.fn or '') == 'storage::RowHandler::from_column']
        scans = {c.dest['l'] for c in de.calls if (c.fn or '') == 'storage::Transaction::scan'}
        own_scan = bool(fc) and bool(scans) and all(c.args and c.args[0]['k'] != 'const' and scans & origin_locals(de, c.args[0]['pl']['l'], depth=30)
                                                    for c in fc)
        # (b) validation in delete(): the push into delete_buffer is dominated by a look-up in the snapshot, and an error exit
        #     is reachable from that look-up without passing the push
        push = [c.bb for c in td.calls if re.search(r'Vec::<.*>::push$', c.name or '')]
        # the look-up may sit in delete() itself or in a helper it calls with `?`
        look = fallible_guards(prog, td, lambda g, c: (c.fn or '').endswith('Snapshot::get_rowsets_of'), push)
        validated = bool(push) and bool(look) and all(td.dominated_by_any(set(look), p) for p in push)
        if ctx.anchor(R4, 'SecondaryTransaction::delete: push into delete_buffer', push):
            ctx.ob(R4, 'DELETE·victims-from-own-snapshot', own_scan or validated,
                   f'DeleteExecutor scans through its own transaction: {own_scan}; SecondaryTransaction::delete validates the handler '
                   f'against its snapshot before buffering it (look-ups at {look}, push at {push}): {validated}',
                   [site(td, p) for p in push],
                   what='SQL DELETE buffers row handlers taken from a scan that pinned an older snapshot: after a compaction in between '
                        'the delete vectors point at row-sets that are gone and the acknowledged DELETE removes nothing')
            # the same for a row that a concurrent DELETE removed between the child scan's pin and this transaction's pin
            look2 = fallible_guards(prog, td, lambda g, c: (c.fn or '').endswith('Snapshot::get_dvs_of'), push)
            resolves = bool(prog.group_reaches_call(td.root, suffix('VersionManager::get_dv'), 2))
            alive = bool(look2) and resolves and all(td.dominated_by_any(set(look2), p) for p in push)
            ctx.ob(R4, 'DELETE·victims-alive-in-own-snapshot', own_scan or alive,
                   f'DeleteExecutor scans through its own transaction: {own_scan}; SecondaryTransaction::delete looks the row up in the delete '
                   f'vectors of its snapshot before buffering it (get_dvs_of at {look2}, DV objects resolved: {resolves}, push at {push}): {alive}',
                   [site(td, p) for p in push],
                   what='SQL DELETE buffers handlers of rows that a concurrent DELETE has already removed (its child scan pinned the older '
                        'snapshot, the deleting transaction a newer one): both statements report the rows as deleted by them - two concurrent '
                        '`delete from t where v < 3` on rows 1,2,3 both answer 2')

    R6 = 'C09-R6'
    ctx.rule(R6, 'whoever retires row-sets of a table holds that table\'s lock: every function that emits EpochOp::DeleteRowSet either is '
                 'compact_table (called under the try_lock guard, R2) or acquires lock_for_deletion itself, before it pins the version and '
                 'before commit_changes (the emitter of EpochOp::DropTable counts: commit_changes retires the row-sets of that table for it); an unlocked DROP TABLE lets a compaction in flight commit a row-set into a table that is gone')
    EPOCHOP_ = SEC + 'version_manager::EpochOp'
    # DROP TABLE: since the row-sets of a dropped table are retired inside commit_changes (arm of EpochOp::DropTable), the function
    # that retires them is the emitter of EpochOp::DropTable on the statement path (bootstrap only replays)
    # a helper that only one function calls is part of that function (`fn retire_ops(..)` split off compact_table)
    emitters = sorted({prog.owner_root(bd.root) for bd in prog.bodies.values() if any(True for _ in bd.aggregates(EPOCHOP_, 'DeleteRowSet'))
                       or (any(True for _ in bd.aggregates(EPOCHOP_, 'DropTable')) and not prog.owner_root(bd.root).endswith('::bootstrap'))})
    ctx.floor(R6, len(emitters), 2, 'functions emitting EpochOp::DeleteRowSet / EpochOp::DropTable')
    for r in emitters:
        if r.endswith('Compactor::compact_table'):
            ctx.ob(R6, f'{r}·under-lock', True, 'compact_table: called only under the try_lock_for_compaction guard (C09-R2)')
            continue
        grp = [prog.inlined(g) for g in prog.group(r)]
        main = next((g for g in grp if any(True for _ in g.aggregates(EPOCHOP_, 'DeleteRowSet')) or any(True for _ in g.aggregates(EPOCHOP_, 'DropTable'))), None)
        locks = []
        for l in LOCKS:
            locks += done_sites(prog, main, l)
        cc = start_sites(prog, main, 'VersionManager::commit_changes')
        pins = start_sites(prog, main, 'VersionManager::pin')
        ok = bool(locks) and bool(cc) and all(main.dominated_by_any(set(locks), x) for x in cc + pins)
        ctx.functions_analysed.add(main.name)
        ctx.ob(R6, f'{r}·under-lock', ok,
               f'{main.name}: table lock at {locks}; pin at {pins}; commit_changes at {cc}', [site(main, x) for x in (locks or cc)],
               what=f'{r.rsplit("::", 1)[-1]} retires the row-sets of a table without holding its deletion/compaction lock: a compaction in '
                    'flight commits afterwards (AddRowSet for a dropped table, duplicate DeleteRowSet) and the database cannot be reopened')

    R7 = 'C09-R7'
    ctx.rule(R7, 'deleters and the compactor contend for ONE mutex per table: every function of TransactionManager that locks (lock_owned / '
                 'try_lock_owned) takes the mutex from the resolver that stores it in the lock map (HashMap::entry + or_insert_with); a '
                 'mutex that is created on the fly and not stored excludes nobody')
    TM = SEC + 'transaction_manager::TransactionManager::'
    tm = [b for b in prog.bodies.values() if b.name.startswith(TM)]
    resolvers = {b.root for b in tm if any(re.search(r'(hash|btree)_map::Entry::<.*>::or_insert', c.name or '') for g in prog.group(b.root) for c in g.calls)}
    n_lock = 0
    for b in tm:
        locks = [c for c in b.calls if re.search(r'tokio::sync::Mutex::<T>::(lock_owned|try_lock_owned|lock|try_lock)$', c.fn or '')]
        for c in locks:
            n_lock += 1
            ctx.functions_analysed.add(b.name)
            src = origin_locals(b, c.args[0]['pl']['l'], depth=6) if c.args and c.args[0]['k'] != 'const' else set()
            from_resolver = any(k.dest['l'] in src and any(prog.bodies[n].root in resolvers for n in prog.callee_bodies(k)) for k in b.calls)
            ctx.ob(R7, f'{b.root.rsplit("::", 1)[-1]}·locks-the-stored-mutex', from_resolver,
                   f'{b.name}: the mutex locked at block {c.bb} ' + ('comes from the storing resolver' if from_resolver else
                                                                       'does not come from the resolver that stores it in lock_map'),
                   [site(b, c.bb)],
                   what=f'TransactionManager::{b.root.rsplit("::", 1)[-1]} may lock a mutex that is not the one stored in the lock map: the '
                        'first compaction of a table and a concurrent DELETE then hold different mutexes and run together')
    ctx.floor(R7, n_lock, 2, 'mutex acquisitions in TransactionManager')
    ctx.anchor(R7, 'TransactionManager: resolver that stores the mutex', resolvers)

    from rules.c07 import compaction_touches_only_what_it_merged
    compaction_touches_only_what_it_merged(ctx, prog, 'C09-R5')
    lock_outlives_commit(ctx, prog)
    # the swap of a compaction is committed where it was computed, under the guard (after seed C09-f): who may call commit_changes
    from rules.c15 import committers_rule
    committers_rule(ctx, prog, 'C09-R9')


def lock_outlives_commit(ctx, prog, R8='C09-R8'):
    """C09-R8: the table lock of a deleting transaction is given back only after its commit is published"""
    from mir import operand_places
    ctx.rule(R8, 'what a DELETE decided under the table lock (which rows, in which row-sets) stays true until its delete vectors are '
                 'published: the guard in SecondaryTransaction::delete_lock is never taken out, overwritten or dropped before '
                 'VersionManager::commit_changes has completed - it lives as long as the transaction object. Released earlier, a compaction '
                 'can pin the pre-delete version, merge the row-sets with the deleted rows in them and commit after the DELETE: every deleted '
                 'row comes back')
    F = SEC + 'transaction::SecondaryTransaction::delete_lock'
    n_use, bad = 0, []
    for b in prog.bodies.values():
        if not b.name.startswith(SEC) and not b.name.startswith('<' + SEC):
            continue
        sites_ = []
        for bb, st in b.stmts():
            if st['s'] != 'assign':
                continue
            rv = st['rv']
            if F in pl_fields(st['lhs']) and not (rv.get('rv') == 'agg'):
                sites_.append((bb, 'overwritten'))
            for pl in operand_places(rv):
                if F in pl_fields(pl):
                    n_use += 1
                    if rv.get('rv') == 'ref' and rv.get('mut'):
                        sites_.append((bb, 'borrowed mutably'))
                    elif rv.get('rv') == 'use' and rv['op'].get('k') == 'move':
                        sites_.append((bb, 'moved out'))
        for c in b.calls:
            for a in c.args:
                if a['k'] == 'move' and F in pl_fields(a['pl']):
                    n_use += 1
                    sites_.append((c.bb, f'moved into {short_fn(c.fn)}'))
        for bl_i, bl in enumerate(b.blocks):
            t = bl['term']
            if t['k'] == 'drop' and not bl['cleanup'] and F in pl_fields(t['pl']):
                sites_.append((bl_i, 'dropped'))
        if not sites_:
            continue
        done = done_sites(prog, b, 'VersionManager::commit_changes')
        for bb, how in sites_:
            ok = bool(done) and b.dominated_by_any(set(done), bb)
            ctx.functions_analysed.add(b.name)
            ctx.ob(R8, f'{b.root}·delete_lock·{how.split(" into ")[0].replace(" ", "-")}', ok,
                   f'{b.name} block {bb}: delete_lock is {how}; commit_changes completes at {done}', [site(b, bb)],
                   what=f'{b.root.rsplit("::", 1)[-1]} gives the table lock of a deleting transaction back before its commit is published '
                        f'(delete_lock {how}): a compaction in that window works on the pre-delete version and commits after the DELETE, '
                        'which undoes the acknowledged DELETE')
    ctx.ob(R8, 'delete_lock·held-until-published', True, f'{n_use} reads of SecondaryTransaction::delete_lock examined', nontrivial=False)
    ctx.floor(R8, n_use, 1, 'uses of the field SecondaryTransaction::delete_lock')


def short_fn(n):
    return re.sub(r'<[^<>]*>', '', n or '?').rsplit('::', 1)[-1]


def lock_then_pin(ctx, prog, R1):
    """every path from a table-lock acquisition to a use of the pinned snapshot passes a VersionManager::pin (shared with C10-R7)"""
    n = 0
    TXN = SEC + 'transaction::SecondaryTransaction'
    for b in prog.bodies.values():
        if not b.name.startswith(SEC):
            continue
        pins = done_sites(prog, b, 'VersionManager::pin')
        locks = []
        for l in LOCKS:
            locks += done_sites(prog, b, l)
        if not pins or not locks:
            continue
        # uses of the pinned snapshot under the lock: the transaction object built from it / the compaction it feeds
        uses = [bb for bb, _ in b.aggregates(TXN)] + start_sites(prog, b, 'Compactor::compact_table') \
            + start_sites(prog, b, 'Snapshot::get_rowsets_of')
        if not uses:
            continue
        n += 1
        ctx.functions_analysed.add(b.name)
        # every path from a lock acquisition to a use must pass a pin taken after the lock
        bad = []
        for l in locks:
            reach = b.reachable_from(b.succs[l], avoid=set(pins))
            bad += [u for u in uses if u in reach]
        ctx.ob(R1, f'{b.root}·lock≺pin', not bad,
               f'{b.name}: table lock at blocks {locks}, VersionManager::pin at blocks {pins}, snapshot used under the lock '
               f'at blocks {uses}; uses reachable from the lock without a fresh pin: {sorted(set(bad))}',
               [site(b, x) for x in sorted(set(bad or uses)) + locks + pins],
               what=f'{b.root.rsplit("::", 2)[-2]}::{b.root.rsplit("::", 1)[-1]} pins its snapshot before taking the table '
                    f'lock: a writer that waited for the lock works on a stale snapshot (deletes lost / undone)')
    return n


def guard_rule(ctx, prog, R2):
    """C09-R2 = C07-R9: compaction runs under a live guard"""
    ctx.rule(R2, 'compact_table is called only from a block dominated by the Some arm of try_lock_for_compaction, and the '
                 'guard is not dropped before compact_table completes')
    calls = [c for c in prog.calls_matching_all(suffix('Compactor::compact_table')) if (c.fn or '').endswith('compact_table')]
    ctx.floor(R2, len(calls), 1, 'compact_table call sites')
    for c in calls:
        b = c.body
        ctx.functions_analysed.add(b.name)
        tl = [x for x in b.calls if (x.fn or '').endswith('try_lock_for_compaction') or (x.fn or '').endswith('::lock_for_compaction')]
        some_targets, guard_locals = [], []
        for x in tl:
            d = x.dest['l']
            if (x.fn or '').endswith('::lock_for_compaction'):
                some_targets.append(x.target)
                guard_locals.append(d)
                continue
            for i, bl in enumerate(b.blocks):
                t = bl['term']
                if t['k'] == 'switch' and t.get('on') and t['on']['l'] == d and t.get('adt') == 'std::option::Option':
                    for v, tgt in t['targets']:
                        if t.get('variants', {}).get(v) == 'Some':
                            some_targets.append(tgt)
                    # guard local: moved out of the Some payload
                    for j, st in b.stmts():
                        rv = st.get('rv', {})
                        if rv.get('rv') == 'use' and rv['op']['k'] == 'move' and rv['op']['pl']['l'] == d and \
                                any(p.startswith('as:Some') for p in rv['op']['pl']['p']):
                            guard_locals.append(st['lhs']['l'])
        ok = bool(some_targets) and b.dominated_by_any(set(some_targets), c.bb)
        ctx.ob(R2, f'{b.root}·compact_table-under-guard', ok,
               f'compact_table call (block {c.bb}) must be dominated by a successful try_lock_for_compaction (Some arm '
               f'blocks {some_targets})', [site(b, c.bb)])
        # guard alive: no drop/move of the guard between acquisition and completion of compact_table
        done = done_sites(prog, b, 'Compactor::compact_table')
        early = []
        for g in guard_locals:
            for i, bl in enumerate(b.blocks):
                if bl['cleanup']:
                    continue
                t = bl['term']
                dropped = t['k'] == 'drop' and t['pl']['l'] == g and not t['pl']['p']
                moved = t['k'] == 'call' and any(a['k'] == 'move' and a['pl']['l'] == g for a in t['args'])
                if (dropped or moved) and some_targets:
                    # is there a path lock -> i -> compact_table ?
                    if i in b.reachable_from(some_targets) and any(x in b.reachable_from([i]) for x in done):
                        # loops: a drop at the end of the iteration reaches the next iteration's call; ignore when the
                        # path from i back to the call passes a new lock acquisition
                        relock = {x.bb for x in tl}
                        if any(x in b.reachable_from([i], avoid=relock) for x in done):
                            early.append(i)
        ctx.ob(R2, f'{b.root}·guard-outlives-compaction', bool(guard_locals) and not early,
               f'guard locals {guard_locals}; dropped/moved before compact_table completes at blocks {early}',
               [site(b, x) for x in early])
