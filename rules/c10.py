"""C10 - concurrent sessions behave like some serial order.

Decides: (R1) no fallible, caller-visible step after the durability point (commit_changes) of a
catalog/data commit; (R2) no blocking (non-async) lock guard is alive across an await/yield;
(R3) the shared id generators are single atomic RMWs.
Does not decide: serializability of data operations (a history property)."""
import re

from tmpl import site, start_sites, done_sites, suffix, flows_from, pl_fields, origin_locals, local_defs, region_callees
from mir import operand_places

SEC = 'storage::secondary::'
DURABLE = 'VersionManager::commit_changes'
BLOCKING_LOCK = re.compile(r'^(parking_lot::lock_api::(Mutex|RwLock|ReentrantMutex)::<R, T>::(lock|read|write|upgradable_read)'
                           r'|lock_api::(mutex::)?Mutex::<R, T>::lock|lock_api::(rwlock::)?RwLock::<R, T>::(read|write)'
                           r'|std::sync::Mutex::<T>::lock|std::sync::RwLock::<T>::(read|write)'
                           r'|std::sync::poison::(mutex::)?Mutex::<T>::lock|std::sync::poison::(rwlock::)?RwLock::<T>::(read|write))$')


def run(ctx):
    prog = ctx.prog('all' if ctx.thorough else 'lib')
    ctx.extra['facts_key'] = prog.key
    ctx.explanation = ('Path rules on the MIR: after the manifest commit returned successfully no `?`/Err exit may follow in the '
                       'same function (an error reported to the client after the change became durable); guards of '
                       'parking_lot/std locks must be dead at every Yield of a coroutine; id generators use fetch_add/fetch_max.')
    ctx.trusted += ['rustc MIR facts', 'guard liveness = from the lock call to the Drop / move of its destination local '
                                       '(pre-drop-elaboration MIR keeps scope-end drops)']
    R1 = 'C10-R1'
    ctx.rule(R1, 'in every function that awaits VersionManager::commit_changes and continues afterwards, no error exit '
                 '(`?`, return Err) is reachable after the successful return of commit_changes')
    n = 0
    for b in prog.bodies.values():
        if not b.name.startswith(SEC) and not b.name.startswith('<' + SEC):
            continue
        done = done_sites(prog, b, DURABLE)
        if not done:
            continue
        if b.root.endswith('VersionManager::commit_changes') or b.rec.get('async'):
            continue   # the async fn wrapper only builds the coroutine; its body is {closure#0}
        n += 1
        ctx.functions_analysed.add(b.name)
        # the `?` applied to commit_changes' own result: Try::branch whose argument flows from the poll/call result
        errs = b.error_exit_blocks()
        own = set()
        cont_targets = []
        for c in b.calls:
            if (c.fn or '').endswith('Try::branch') and c.args and c.args[0]['k'] != 'const':
                def from_commit(kind, payload, bb):
                    return kind == 'call' and bb in done
                if flows_from(b, c.args[0]['pl']['l'], from_commit, depth=6):
                    # switch after the branch: Continue target = success continuation
                    sw = b.blocks[c.target]['term'] if c.target is not None else None
                    if sw and sw['k'] == 'switch':
                        for v, tgt in sw['targets']:
                            if sw.get('variants', {}).get(v) == 'Continue':
                                cont_targets.append(tgt)
                            elif sw.get('variants', {}).get(v) == 'Break':
                                own |= b.reachable_from([tgt], avoid=set(cont_targets))
        if not cont_targets:
            # result returned as the tail expression: nothing happens after it in this function
            ctx.ob(R1, f'{b.root}·after-commit', True, f'{b.name}: commit_changes is the tail of the function', nontrivial=False)
            continue
        after = b.reachable_from(cont_targets)
        late = sorted((after & errs) - own)
        # describe what fails late
        what_calls = []
        for e in late:
            for c in b.calls:
                if (c.fn or '').endswith('Try::branch') and b.reaches(c.bb, e) and c.bb in after:
                    pass
        fallible = [c for c in b.calls if c.bb in after and (c.t.get('dest_ty', '').startswith('std::result::Result<'))
                    and not (c.fn or '').endswith('from_residual')]
        ctx.ob(R1, f'{b.root}·nothing-fallible-after-commit', not late,
               f'{b.name}: after commit_changes succeeded (continuation blocks {cont_targets}) error exits are reachable at '
               f'blocks {late}; fallible calls after the durability point: {[c.name for c in fallible][:4]}',
               [site(b, x) for x in late] + [site(b, c.bb) for c in fallible[:3]],
               what=f'{b.root.rsplit("::", 1)[-1]}: a step that can fail runs after the manifest commit; the client gets an '
                    f'error for a change that is already durable (duplicate CreateTable record -> database cannot be reopened)')
    ctx.floor(R1, n, 4, 'functions that commit to the manifest (create_table_inner, drop_table_inner, commit_inner, compact_table, bootstrap)')

    R2 = 'C10-R2'
    ctx.rule(R2, 'no guard of a blocking lock (parking_lot / std Mutex, RwLock) is alive across a Yield (await) in any coroutine')
    n_locks = 0
    for b, cl, gl, hit in guards_across_yield(prog):
        n_locks += 1
        ctx.functions_analysed.add(b.name)
        ctx.ob(R2, f'{b.root}·{short(cl.name)}', not hit,
               f'{b.name}: guard of `{cl.name}` (local _{gl}) is still alive at await/yield blocks {hit}',
               [site(b, cl.bb)] + [site(b, y) for y in hit[:2]])
    n_cor = sum(1 for b in prog.bodies.values() if b.rec.get('coroutine'))
    try:
        import mir
        fx = mir.load_fixture()
        res = {b.root: bool(hit) for b, cl, gl, hit in guards_across_yield(fx)}
        ctx.ob(R2, 'self-test·fixture', res.get('Shared::guard_across_await') is True and res.get('Shared::guard_released') is False,
               f'positive example: {res} (guard_across_await must be flagged, guard_released must not)')
    except SystemExit as e:
        ctx.ob(R2, 'self-test·fixture', False, f'fixture crate could not be analysed: {e}')
    ctx.floor(R2, n_locks, 8, 'blocking lock acquisitions inside coroutines that await')
    ctx.extra['coroutines'] = n_cor

    R3 = 'C10-R3'
    ctx.rule(R3, 'row-set / DV id generators (next_id.0, next_id.1) are only touched through fetch_add / fetch_max')
    uses = []
    for b in prog.bodies.values():
        for bb, st in b.stmts():
            rv = st.get('rv', {})
            if rv.get('rv') in ('ref', 'use'):
                pl = rv.get('pl') or (rv.get('op', {}).get('pl') if rv.get('op', {}).get('k') != 'const' else None)
                if not pl:
                    continue
                # (AtomicU32, AtomicU64) tuple field projection on something typed Arc<(AtomicU32, AtomicU64)> / the tuple
                if any(p in ('f:0', 'f:1') for p in pl['p']):
                    base_ty = b.local_ty(pl['l'])
                    dst_ty = b.local_ty(st['lhs']['l'])
                    if re.search(r'std::sync::atomic::Atomic(U|<u)', dst_ty) and \
                            re.search(r'\(std::sync::atomic::Atomic(U32|<u32>), std::sync::atomic::Atomic(U64|<u64>)\)', base_ty):
                        uses.append((b, bb, st['lhs']['l']))
    ok_n = 0
    for b, bb, l in uses:
        consumers = [c for c in b.calls if any(a['k'] != 'const' and a['pl']['l'] == l for a in c.args)]
        bad = [c for c in consumers if not re.search(r'Atomic(U32|U64|::<u32>|::<u64>)::(fetch_add|fetch_max)$', c.name or '')]
        ok = bool(consumers) and not bad
        ok_n += 1
        ctx.ob(R3, f'{b.root}·atomic-rmw', ok,
               f'{b.name}: id generator accessed through {[short(c.name) for c in consumers]}',
               [site(b, c.bb) for c in (bad or consumers)])
    ctx.floor(R3, len(uses), 4, 'accesses to the id generators (2 generate_*, 2 fetch_max in bootstrap)')

    R4 = 'C10-R4'
    ctx.rule(R4, 'table ids follow the log: the manifest does not store table ids, replay re-derives them from the order of the '
                 'CreateTable records; so the catalog update that allocates the id (apply_create_table) must come after the record '
                 'was appended under the manifest lock (commit_changes completed), or both must sit under one async lock taken '
                 'before either. Allocating first and then queueing on the manifest lock lets two sessions log in the other order: '
                 'after reopen the tables have swapped ids and each sees the other\'s row-sets')
    CT = SEC + 'manifest::<impl storage::secondary::SecondaryStorage>::create_table_inner::{closure#0}'
    b = prog.body(CT)
    if ctx.anchor(R4, CT, b is not None):
        ctx.functions_analysed.add(b.name)
        A = set(done_sites(prog, b, DURABLE))
        B = start_sites(prog, b, 'apply_create_table')
        if ctx.anchor(R4, 'create_table_inner: commit_changes / apply_create_table', A and B):
            ddl = {c.bb for c in b.calls if re.search(r'(tokio::sync::Mutex|futures::lock::Mutex|async_lock::Mutex)::<.*>::lock$|'
                                                      r'tokio::sync::RwLock::<.*>::write$', c.name or '')}
            bad = [x for x in B if not b.dominated_by_any(A, x) and not (ddl and b.dominated_by_any(ddl, x)
                                                                         and all(b.dominated_by_any(ddl, a) for a in A))]
            ctx.ob(R4, 'create_table_inner·log≺allocate', not bad,
                   f'apply_create_table (blocks {B}) must be dominated by the completion of commit_changes (blocks {sorted(A)}) '
                   f'or both by one async lock ({sorted(ddl)}); not so at {bad}', [site(b, x) for x in (bad or B)],
                   what='CREATE TABLE allocates the table id before its record is appended: concurrent creates can log in a '
                        'different order than their ids; after reopen row-sets show up under the wrong table')

    R5 = 'C10-R5'
    ctx.rule(R5, 'no lost update in the in-memory engine: what InMemoryTransaction::commit hands to the table under the write lock are its '
                 'buffered writes (buffer, delete_buffer), never a value built from the snapshot it took at start (snapshot, deleted_rows): '
                 'installing "my start snapshot plus my writes" silently drops every commit that happened in between')
    MC = '<storage::memory::transaction::InMemoryTransaction as storage::Transaction>::commit::{closure#0}'
    mb = prog.body(MC)
    if ctx.anchor(R5, MC, mb is not None):
        ctx.functions_analysed.add(mb.name)
        muts = [c for c in mb.calls if re.search(r'storage::memory::table::InMemoryTableInner::', c.fn or '')]
        if ctx.anchor(R5, 'memory commit: calls on InMemoryTableInner', muts):
            def start_state(l):
                hit = set()
                for x in origin_locals(mb, l, depth=12):
                    for bb, kind, payload in local_defs(mb, x):
                        if kind == 'assign':
                            hit |= {f.rsplit('::', 1)[-1] for pl in operand_places(payload) for f in pl_fields(pl)
                                    if f in ('storage::memory::transaction::InMemoryTransaction::snapshot',
                                             'storage::memory::transaction::InMemoryTransaction::deleted_rows')}
                return hit
            for c in muts:
                bad = set()
                for a in c.args[1:]:
                    if a['k'] != 'const':
                        bad |= start_state(a['pl']['l'])
                ctx.ob(R5, f'memory-commit·{c.fn.rsplit("::", 1)[-1]}·writes-only-its-buffers', not bad,
                       f'{c.fn} at block {c.bb}: arguments derive from the start snapshot fields {sorted(bad)}' if bad else
                       f'{c.fn} at block {c.bb}: arguments come from the transaction\'s buffers', [site(mb, c.bb)],
                       what='InMemoryTransaction::commit writes back its start snapshot: of two overlapping write transactions on one table '
                            'the later commit erases the earlier one (an acknowledged INSERT loses its rows, a DELETE is undone)')

    commits_into_dropped_tables(ctx, prog)
    R7 = 'C10-R7'
    ctx.rule(R7, '= C09-R1 (after seed C10-e): a writer that waits for the table lock takes its snapshot after it got the lock - every path from '
                 'a lock acquisition to a use of the pinned snapshot passes VersionManager::pin; a DELETE that pinned first validates its victims '
                 'against the state from before the lock holder committed and is acknowledged for rows it does not remove')
    from rules.c09 import lock_then_pin, lock_outlives_commit
    lock_outlives_commit(ctx, prog, 'C10-R8')
    ctx.floor(R7, lock_then_pin(ctx, prog, R7), 2, 'functions that both pin a version and take a table lock')


def commits_into_dropped_tables(ctx, prog):
    R6 = 'C10-R6'
    ctx.rule(R6, 'writers that take no table lock (INSERT) are ordered against DROP TABLE only by the manifest lock inside commit_changes, '
                 'and replay requires every AddRowSet / AddDV of the log to belong to a table that exists at its end. So the commit point '
                 'itself must refuse objects of a dropped table: commit_changes keeps the ids of the tables whose DropTable it logged '
                 '(a field of VersionManagerInner fed from the DropTable arm) and tests the incoming operations against it, with an '
                 'error exit, before the manifest append. [A replay that drops such objects would serve too and would need this rule '
                 'to be extended.]')
    CC = SEC + 'version_manager::VersionManager::commit_changes_with_custom_manifest::{closure#0}'
    b = prog.inlined(CC)
    if not ctx.anchor(R6, CC, b is not None):
        return
    ctx.functions_analysed.add(b.name)
    appends = start_sites(prog, b, 'Manifest::append')
    if not ctx.anchor(R6, 'commit_changes: Manifest::append', bool(appends)):
        return
    INNER = SEC + 'version_manager::VersionManagerInner::'

    def inner_fields(l, depth=4, body=None):
        body = body or b
        out = set()
        for x in origin_locals(body, l, depth=depth):
            for bb, kind, payload in local_defs(body, x):
                if kind == 'assign':
                    out |= {f for pl in operand_places(payload) for f in pl_fields(pl) if f.startswith(INNER)}
        return out

    def deciding_tests(body, sinks):
        """{field of VersionManagerInner: [block]}: `contains` tests on the field whose outcome decides between an error exit and
        going on (to a sink of `body`, or - in a helper, sinks empty - to a return that is not an error exit)"""
        errs_ = body.error_exit_blocks()
        rets = {i for i, bl in enumerate(body.blocks) if bl['term']['k'] == 'return'}
        out = {}
        for c in body.calls:
            if not c.args or c.args[0]['k'] == 'const' or not re.search(r'::(contains|contains_key)$', c.fn or ''):
                continue
            if any(body.reaches(a, c.bb) for a in sinks):
                continue
            decides = False
            for i, bl in enumerate(body.blocks):
                t = bl['term']
                if t['k'] == 'switch' and not bl['cleanup'] and t['discr']['k'] != 'const' \
                        and c.dest['l'] in origin_locals(body, t['discr']['pl']['l'], depth=4):
                    outs = [tgt for _, tgt in t['targets']] + [t['otherwise']]
                    if sinks:
                        refuse = [o for o in outs if body.reachable_from([o]) & errs_ and not any(body.reaches(o, a) for a in sinks)]
                        go_on = [o for o in outs if any(body.reaches(o, a) for a in sinks)]
                    else:
                        fine = {o: bool(body.reachable_from([o], avoid=errs_) & rets) for o in outs}
                        refuse = [o for o in outs if not fine[o] and (o in errs_ or body.reachable_from([o]) & errs_)]
                        go_on = [o for o in outs if fine[o]]
                    decides |= bool(refuse) and bool(go_on)
            if decides:
                for f in inner_fields(c.args[0]['pl']['l'], body=body):
                    out.setdefault(f, []).append(c.bb)
        # the test as the predicate of an iterator adaptor: `ops.iter().filter_map(..).find(|t| inner.dropped_tables.contains(t))`, whose
        # result decides in `body`
        for ch in prog.group(body.root):
            if ch.name == body.name or not ch.name.startswith(body.name + '::'):
                continue
            inside = [c for c in ch.calls if c.args and c.args[0]['k'] != 'const' and re.search(r'::(contains|contains_key)$', c.fn or '')
                      and inner_fields(c.args[0]['pl']['l'], depth=8, body=ch)]
            if not inside:
                continue
            cl = {st['lhs']['l'] for _, st in body.stmts() if st['s'] == 'assign' and st['rv'].get('rv') == 'agg' and st['rv'].get('def') == ch.name}
            for a_ in body.calls:
                if not re.search(r'Iterator::(find|any|all|position|find_map)$', a_.fn or '') or any(body.reaches(x, a_.bb) for x in sinks):
                    continue
                if not any(x['k'] != 'const' and cl & origin_locals(body, x['pl']['l'], depth=3) for x in a_.args[1:]):
                    continue
                for i, bl in enumerate(body.blocks):
                    t = bl['term']
                    if t['k'] == 'switch' and not bl['cleanup'] and t['discr']['k'] != 'const' \
                            and a_.dest['l'] in origin_locals(body, t['discr']['pl']['l'], depth=4):
                        outs = [tgt for _, tgt in t['targets']] + [t['otherwise']]
                        refuse = [o for o in outs if body.reachable_from([o]) & errs_ and not any(body.reaches(o, x) for x in sinks)]
                        go_on = [o for o in outs if any(body.reaches(o, x) for x in sinks)] if sinks else \
                            [o for o in outs if body.reachable_from([o], avoid=errs_) & rets]
                        if refuse and go_on:
                            for c in inside:
                                for f in inner_fields(c.args[0]['pl']['l'], depth=8, body=ch):
                                    out.setdefault(f, []).append(a_.bb)
        return out

    def from_drop_entry(l, hops=2):
        """does l (or what was pushed into it) come out of the DropTable operation?"""
        seen = origin_locals(b, l, depth=10)
        for _ in range(hops):
            more = set()
            for c in b.calls:
                if re.search(r'::(push|insert|extend|push_back)$', c.fn or '') and len(c.args) >= 2 and c.args[0]['k'] != 'const' \
                        and origin_locals(b, c.args[0]['pl']['l'], depth=3) & seen:
                    for a in c.args[1:]:
                        if a['k'] != 'const':
                            more |= origin_locals(b, a['pl']['l'], depth=10)
            seen |= more
        for x in seen:
            for bb, kind, payload in local_defs(b, x):
                if kind == 'assign' and any('as:DropTable' in pl['p'] or any('DropTableEntry::' in f for f in pl_fields(pl))
                                            for pl in operand_places(payload)):
                    return True
        return False

    errs = b.error_exit_blocks()
    guards, fed = {}, {}
    for c in b.calls:
        if not c.args or c.args[0]['k'] == 'const':
            continue
        if re.search(r'::(insert|extend|push)$', c.fn or '') and len(c.args) >= 2:
            for f in inner_fields(c.args[0]['pl']['l']):
                if any(a['k'] != 'const' and from_drop_entry(a['pl']['l']) for a in c.args[1:]):
                    fed.setdefault(f, []).append(c.bb)
    for f, bbs in deciding_tests(b, appends).items():
        guards.setdefault(f, []).extend(bbs)
    # the same test in a helper whose failure commit_changes propagates (`Self::refuse_dropped(&inner, &ops)?;`)
    for c in b.calls:
        if any(b.reaches(a, c.bb) for a in appends) or not (b.reachable_from([c.bb], avoid=set(appends)) & errs):
            continue
        for _, hb in region_callees(prog, b, {c.bb}, depth=2):
            if c.bb != _.bb:
                continue
            for f, bbs in deciding_tests(hb, ()).items():
                guards.setdefault(f, []).append(c.bb)
    both = sorted(set(guards) & set(fed))
    ctx.ob(R6, 'commit_changes·refuses-objects-of-a-dropped-table', bool(both),
           f'fields of VersionManagerInner fed from the DropTable operation: { {k.rsplit("::", 1)[-1]: v for k, v in fed.items()} }; tested '
           f'with an error exit before the manifest append: { {k.rsplit("::", 1)[-1]: v for k, v in guards.items()} }',
           [site(b, a) for a in appends],
           what='a transaction that started before a DROP TABLE and commits after it is acknowledged and logs AddRowSet / AddDV behind the '
                'DropTable record: replay finds objects of a table it does not know and the storage cannot be opened any more '
                '(INSERT racing DROP TABLE)')

    # second half: what a DROP TABLE retires is listed at the commit point as well
    EPOCHOP = SEC + 'version_manager::EpochOp'
    MOP = SEC + 'manifest::ManifestOperation'
    arm = None
    for i, bl in enumerate(b.blocks):
        t = bl['term']
        if t['k'] == 'switch' and t.get('adt') == EPOCHOP and not bl['cleanup']:
            arms = {t['variants'][v]: tgt for v, tgt in t['targets'] if v in t.get('variants', {})}
            if 'DropTable' in arms:
                arm = b.reachable_from([arms['DropTable']], avoid={tgt for vv, tgt in arms.items() if vv != 'DropTable'} | {i})
    if ctx.anchor(R6, 'commit_changes: arm of EpochOp::DropTable', arm is not None):
        # the snapshot the commit publishes: the value inserted into `status`
        published = set()
        for c in b.calls:
            if re.search(r'(Hash|BTree)Map::<.*>::insert$', c.name or '') and c.args and c.args[0]['k'] != 'const' and \
                    INNER + 'status' in inner_fields(c.args[0]['pl']['l']):
                for a in c.args[1:]:
                    if a['k'] != 'const':
                        published |= origin_locals(b, a['pl']['l'], depth=6)
        lists = [c.bb for c in b.calls if c.bb in arm and (c.fn or '').endswith('Snapshot::get_rowsets_of') and c.args
                 and c.args[0]['k'] != 'const' and origin_locals(b, c.args[0]['pl']['l'], depth=4) & published]
        retires = [bb for bb, st in b.aggregates(MOP, 'DeleteRowSet') if bb in arm]
        # the arm, or part of it, in a helper that is handed the snapshot being published
        for c, hb in region_callees(prog, b, arm, depth=1):     # one level: the parameter numbers below are those of the callee
            handed = {j + 1 for j, a in enumerate(c.args) if a['k'] != 'const' and origin_locals(b, a['pl']['l'], depth=6) & published}
            if not handed:
                continue
            if hb.name == hb.root and any((hc.fn or '').endswith('Snapshot::get_rowsets_of') and hc.args and hc.args[0]['k'] != 'const'
                   and origin_locals(hb, hc.args[0]['pl']['l'], depth=6) & handed for hc in hb.calls):
                lists.append(c.bb)
            if any(True for _ in hb.aggregates(MOP, 'DeleteRowSet')):
                retires.append(c.bb)
        ctx.ob(R6, 'commit_changes·DropTable-retires-the-latest-version', bool(lists) and bool(retires),
               f'DropTable arm: Snapshot::get_rowsets_of on the snapshot being published at {lists}; DeleteRowSet records built at {retires}',
               [site(b, x) for x in (lists or sorted(arm)[:1])],
               what='DROP TABLE retires the row-sets of a version its caller pinned before the commit: an INSERT that commits in between leaves a '
                    'row-set of the dropped table in the log (AddRowSet .. DropTable, no DeleteRowSet) and the storage cannot be opened any more')


def guards_across_yield(prog):
    """(body, lock call, guard local, yield blocks reached while the guard is alive) for every blocking lock in a coroutine"""
    out = []
    for b in prog.bodies.values():
        if not b.rec.get('coroutine'):
            continue
        yields = {i for i, bl in enumerate(b.blocks) if bl['term']['k'] == 'yield' and not bl['cleanup']}
        if not yields:
            continue
        for c in b.calls:
            if not BLOCKING_LOCK.search(c.name or ''):
                continue
            g = c.dest
            if g['p'] or c.target is None:
                continue
            # ownership chain of the guard value: lock() -> [unwrap()/expect()] -> [let g = ..]; the lock is released
            # when the LAST owner is dropped or moved away (drops of moved-out temporaries are no-ops)
            nxt = {}
            roots = {g['l']}
            work = [g['l']]
            while work:
                o = work.pop()
                for c2 in b.calls:
                    if any(a['k'] == 'move' and a['pl']['l'] == o and not a['pl']['p'] for a in c2.args) and \
                            re.search(r'::(unwrap|expect|unwrap_or_else|into_inner)$', c2.name or '') and not c2.dest['p']:
                        nxt.setdefault(o, set()).add(c2.dest['l'])
                for bb_, st in b.stmts():
                    rv = st.get('rv', {})
                    if rv.get('rv') == 'use' and rv['op']['k'] == 'move' and rv['op']['pl']['l'] == o and not rv['op']['pl']['p'] \
                            and not st['lhs']['p']:
                        nxt.setdefault(o, set()).add(st['lhs']['l'])
                for n_ in nxt.get(o, ()):
                    if n_ not in roots:
                        roots.add(n_)
                        work.append(n_)
            leaves = {o for o in roots if not nxt.get(o)}
            ends = set()
            for i, bl in enumerate(b.blocks):
                t = bl['term']
                if t['k'] == 'drop' and t['pl']['l'] in leaves and not t['pl']['p']:
                    ends.add(i)
                if t['k'] == 'call' and any(a['k'] == 'move' and a['pl']['l'] in leaves and not a['pl']['p'] for a in t['args']):
                    ends.add(i)
            final = min(leaves) if leaves else g['l']
            reach = b.reachable_from([c.target], avoid=ends)
            out.append((b, c, final, sorted(reach & yields)))
    return out


def short(n):
    return re.sub(r'<[^<>]*>', '', n or '?')
