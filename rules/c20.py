"""C20 - CSV export followed by import reproduces the table.

Decides: (R1) writer and reader consume the same FileFormat::Csv options and hand each to the like-named
csv builder method; (R2) the token the writer emits for NULL is the token the reader maps to NULL.
Does not decide: per-type Display/FromStr inverses (value level, see C19)."""
import re

from tmpl import site, suffix, flows_from, pl_fields

W = 'executor::copy_to_file::CopyToFileExecutor::write_file_blocking'
R = 'executor::copy_from_file::CopyFromFileExecutor::read_file_blocking'
FMT = 'binder::copy::FileFormat'


def fields_read(prog, root):
    out = set()
    from mir import operand_places
    for g in prog.group(root):
        for bb, bl in enumerate(g.blocks):
            if bl['cleanup']:
                continue
            for st in bl['stmts']:
                for p in operand_places(st):
                    for f in pl_fields(p):
                        if f.startswith(FMT + '::'):
                            out.add(f.rsplit('::', 1)[-1])
    return out


def builder_calls(prog, root, kind):
    out = {}
    for g in prog.group(root):
        for c in g.calls:
            m = re.search(r'csv::' + kind + r'Builder::(delimiter|quote|escape|has_headers|double_quote|terminator|quote_style|flexible|quoting|comment)$', c.name or '')
            if m:
                out[m.group(1)] = (g, c)
    return out


def run(ctx):
    prog = ctx.prog('all' if ctx.thorough else 'lib')
    ctx.extra['facts_key'] = prog.key
    ctx.explanation = ('Sibling cross-check of the CSV writer and reader: option fields consumed, csv builder methods called with '
                       'them, and the constant NULL token on both sides (extracted from MIR constants).')
    ctx.trusted += ['rustc MIR facts', 'csv crate builder method names']
    R1 = 'C20-R1'
    ctx.rule(R1, 'each field of FileFormat::Csv read by the writer is read by the reader and both hand it to the like-named '
                 'csv builder method')
    ok_anchor = ctx.anchor(R1, W, W in prog.bodies) and ctx.anchor(R1, R, R in prog.bodies)
    if ok_anchor:
        fw, fr = fields_read(prog, W), fields_read(prog, R)
        ctx.floor(R1, len(fw), 4, 'FileFormat::Csv fields read by the writer')
        for f in sorted(fw | fr):
            ctx.ob(R1, f'option·{f}', f in fw and f in fr, f'field `{f}`: writer reads it: {f in fw}, reader reads it: {f in fr}')
        bw, br = builder_calls(prog, W, 'Writer'), builder_calls(prog, R, 'Reader')
        for m in sorted(set(bw) | set(br)):
            if m in ('double_quote', 'terminator', 'quote_style', 'flexible', 'quoting', 'comment'):
                ctx.ob(R1, f'builder·{m}', m in bw and m in br, f'csv builder option `{m}` set on one side only (writer: {m in bw}, reader: {m in br})')
                continue
            ctx.ob(R1, f'builder·{m}', m in bw and m in br, f'csv builder method `{m}`: writer: {m in bw}, reader: {m in br}')
        # each builder arg flows from the like-named field
        NAME = {'has_headers': 'header'}
        for side, calls in (('writer', bw), ('reader', br)):
            for m, (g, c) in calls.items():
                if m not in ('delimiter', 'quote', 'escape', 'has_headers'):
                    continue
                fld = NAME.get(m, m)
                a = c.args[1] if len(c.args) > 1 else None
                ok = a is not None and a['k'] != 'const' and flows_from(
                    g, a['pl']['l'], lambda k, p, b_: k == 'assign' and any(
                        f == f'{FMT}::{fld}' for pl in __pl(p) for f in pl_fields(pl)), depth=10)
                ctx.ob(R1, f'{side}·{m}←{fld}', bool(ok), f'{side}: argument of csv builder `{m}` must flow from FileFormat::Csv.{fld}',
                       [site(g, c.bb)])

    R4 = 'C20-R4'
    ctx.rule(R4, 'HEADER is symmetric: the reader skips one record when `header` is set (csv::ReaderBuilder::has_headers); the writer '
                 'emits its rows with Writer::write_record, for which csv::WriterBuilder::has_headers has no effect (it only concerns '
                 'Writer::serialize), so the writer must itself emit one extra record under the header flag -- a write_record '
                 'control-dependent on FileFormat::Csv.header -- or serialize its rows')
    if ok_anchor:
        wg = prog.group(W)
        uses_serialize = any(re.search(r'csv::Writer::<.*>::serialize$', c.name or '') for g in wg for c in g.calls)
        recs = [(g, c) for g in wg for c in g.calls if re.search(r'csv::Writer::<.*>::write_record$', c.name or '')]
        rd_skips = 'has_headers' in builder_calls(prog, R, 'Reader')
        cond = []
        for g in wg:
            for i, bl in enumerate(g.blocks):
                t = bl['term']
                if t['k'] != 'switch' or t['discr']['k'] == 'const':
                    continue
                if flows_from(g, t['discr']['pl']['l'], lambda k, p, b_: k == 'assign' and any(
                        f == f'{FMT}::header' for pl in __pl(p) for f in pl_fields(pl)), depth=8):
                    yes = [t['otherwise']] if t.get('otherwise') is not None else []
                    no = [tgt for v, tgt in t['targets'] if v == '0']
                    only_yes = g.reachable_from(yes, avoid=set(no) | {i}) - g.reachable_from(no, avoid={i})
                    cond += [c for gg, c in recs if gg is g and c.bb in only_yes]
        if ctx.anchor(R4, 'writer: write_record / reader: has_headers', (recs or uses_serialize) and rd_skips):
            ctx.ob(R4, 'writer·header-record', uses_serialize or bool(cond),
                   f'reader skips a record under `header`; writer: serialize used: {uses_serialize}; write_record sites under the header '
                   f'flag: {[site(c.body, c.bb) for c in cond]}', [site(g, c.bb) for g, c in recs[:2]],
                   what='COPY TO (HEADER) writes no header record while COPY FROM (HEADER) skips the first record: the round trip '
                        'loses the first row')

    R5 = 'C20-R5'
    ctx.rule(R5, 'the export replaces the target file: it is opened with File::create, or with OpenOptions that set truncate(true) or '
                 'create_new(true); a file opened for overwrite without truncation keeps the tail of a longer previous export')
    if ctx.anchor(R5, W, W in prog.bodies):
        wg = prog.group(W)
        opens = [c for g in wg for c in g.calls if re.search(r'std::fs::File::(create|create_new|options|open)$|std::fs::OpenOptions::open$|'
                                                              r'tokio::fs::OpenOptions::open$|tokio::fs::File::create$', c.name or '')]
        if ctx.anchor(R5, 'writer: file open', opens):
            create = [c for c in opens if re.search(r'File::(create|create_new)$', c.name or '')]
            oo = {m: c for g in wg for c in g.calls for m in re.findall(r'OpenOptions::(truncate|create_new|append|write|create)$', c.name or '')}
            def const_true(c):
                return len(c.args) > 1 and c.args[1]['k'] == 'const' and 'true' in c.args[1].get('v', '')
            trunc = any(m in oo and const_true(oo[m]) for m in ('truncate', 'create_new'))
            ctx.ob(R5, 'writer·target-truncated', bool(create) or trunc,
                   f'file opened through {[c.name for c in opens]}; OpenOptions methods: {sorted(oo)}', [site(c.body, c.bb) for c in opens],
                   what='COPY TO opens its target for writing without truncating it: exporting a shorter table to the same path leaves '
                        'rows of the previous export at the end of the file')

    R6 = 'C20-R6'
    ctx.rule(R6, 'ESCAPE means the same on both sides: csv::ReaderBuilder::escape makes the reader drop the character and take the next one '
                 'literally; csv::Writer only ever uses its escape for QUOTES (and only with double_quote(false)), it never escapes the '
                 'escape character itself (tried: setting double_quote(false) on both sides still turns `a!b,c` into `ab,c`). So a '
                 'reader-side escape is sound only if the export escapes that character itself before handing the field to csv::Writer')
    if ok_anchor:
        bw, br = builder_calls(prog, W, 'Writer'), builder_calls(prog, R, 'Reader')
        if 'escape' in br:
            own = [c for g in prog.group(W) for c in g.calls if re.search(r'str::replace$|String::replace|::escape_', c.name or '')]
            ctx.ob(R6, 'writer·escapes-the-escape-character', bool(own),
                   f'reader sets escape: True; the writer escapes the character itself before csv::Writer: {bool(own)}',
                   [site(br['escape'][0], br['escape'][1].bb)],
                   what='COPY .. (ESCAPE c): the export writes the escape character bare, the import un-escapes it: `a!b,c` exported with '
                        'ESCAPE \'!\' is imported as `ab,c`')

    R2 = 'C20-R2'
    ctx.rule(R2, 'NULL token agreement: the string ArrayImpl::get_to_string emits for NULL equals the string '
                 'ArrayBuilderImpl::push_str maps to NULL')
    gts = prog.group('array::ArrayImpl::get_to_string')
    ps = prog.body('array::ArrayBuilderImpl::push_str')
    if ctx.anchor(R2, 'ArrayImpl::get_to_string', bool(gts)) and ctx.anchor(R2, 'ArrayBuilderImpl::push_str', ps is not None):
        wtok = None
        for g in gts:
            if g.name == g.root:
                continue
            for bb, st in g.stmts():
                for o in _consts(st):
                    m = re.match(r'^(?:const )?"(.*)"$', o.get('v', ''))
                    if m and 'str' in o.get('ty', ''):
                        wtok = m.group(1)
            for c in g.calls:
                for a in c.args:
                    if a['k'] == 'const':
                        m = re.match(r'^(?:const )?"(.*)"$', a.get('v', ''))
                        if m and 'str' in a.get('ty', ''):
                            wtok = m.group(1)
        rtok = None
        for c in ps.calls:
            if re.search(r'str::<impl str>::is_empty$|core::str::<impl str>::is_empty$', c.name or ''):
                rtok = ''
            if re.search(r'PartialEq::eq$|cmp::PartialEq', c.fn or '') and any(a['k'] == 'const' for a in c.args):
                for a in c.args:
                    m = re.match(r'^(?:const )?"(.*)"$', a.get('v', '')) if a['k'] == 'const' else None
                    if m:
                        rtok = m.group(1)
        ctx.anchor(R2, 'writer NULL token (constant in get_to_string)', wtok is not None)
        ctx.anchor(R2, 'reader NULL token (is_empty / comparison in push_str)', rtok is not None)
        if wtok is not None and rtok is not None:
            ctx.ob(R2, 'NULL-token', wtok == rtok, f'writer emits {wtok!r} for NULL, reader recognises {rtok!r}',
                   [ps.loc],
                   what=f'COPY TO writes NULL as {wtok!r} but COPY FROM only reads {rtok!r} as NULL: an exported NULL integer '
                        f'cannot be imported, a NULL string comes back as the text, and an empty string comes back as NULL')
        ctx.extra['null_tokens'] = {'writer': wtok, 'reader': rtok}
        # the CSV writer uses get_to_string, the reader push_str (anchors of the agreement)
        uw = prog.group_reaches_call(W, suffix('ArrayImpl::get_to_string'), 2)
        ur = prog.group_reaches_call(R, suffix('ArrayBuilderImpl::push_str'), 4)
        ctx.ob(R2, 'writer-uses-get_to_string', uw, 'write_file_blocking must print cells with ArrayImpl::get_to_string')
        ctx.ob(R2, 'reader-uses-push_str', ur, 'read_file_blocking must parse cells with ArrayBuilderImpl::push_str')

        R7 = 'C20-R7'
        ctx.rule(R7, 'a text cell is imported as it stands in the file: in ArrayBuilderImpl::push_str the operand of the NULL test, and the '
                     'value pushed in the String arm, are the parameter `s` itself - reached through references and copies only, with no call '
                     '(trim, to_lowercase, replace ..) in between. The writer prints strings verbatim, so any normalisation on the way in makes '
                     'COPY TO + COPY FROM change or lose those cells')
        from tmpl import local_defs

        def leaves(l, depth=8, seen=None, out=None):
            seen = seen if seen is not None else set()
            out = out if out is not None else set()
            if l in seen or depth < 0:
                return out
            seen.add(l)
            ds = local_defs(ps, l)
            if not ds:
                out.add(('input', ps.var_name(l) or f'_{l}'))
            for _, kind, payload in ds:
                if kind == 'assign':
                    for pl in __pl(payload):
                        leaves(pl['l'], depth - 1, seen, out)
                else:
                    out.add(('call', (payload.get('fn') or '?').rsplit('::', 1)[-1]))
            return out
        tests = [c for c in ps.calls if re.search(r'str>::is_empty$', c.name or '') or
                 (re.search(r'PartialEq::eq$', c.fn or '') and any(a['k'] == 'const' for a in c.args))]
        def on_string_arm(c):
            if not c.args or c.args[0]['k'] == 'const':
                return False
            from tmpl import origin_locals
            for x in origin_locals(ps, c.args[0]['pl']['l'], depth=4):
                for _, kind, payload in local_defs(ps, x):
                    if kind == 'assign' and any('as:String' in pl['p'] for pl in __pl(payload)):
                        return True
            return False
        pushes = [c for c in ps.calls if re.search(r'ArrayBuilder::push$', c.fn or '') and on_string_arm(c)]
        if ctx.anchor(R7, 'push_str: NULL test on the field', tests):
            for c in tests:
                lv = set()
                for a in c.args:
                    if a['k'] != 'const':
                        lv |= leaves(a['pl']['l'])
                ok = bool(lv) and all(x == ('input', 's') for x in lv)
                ctx.ob(R7, 'push_str·NULL-test-on-the-field-as-it-is', ok,
                       f'the NULL test at block {c.bb} looks at {sorted(lv)}', [site(ps, c.bb)],
                       what='push_str decides NULL on a transformed copy of the field (trimmed, case-folded ..): a string that the writer '
                            'printed verbatim - e.g. one that consists of blanks - comes back from COPY FROM as NULL')
        if ctx.anchor(R7, 'push_str: String arm', pushes):
            for c in pushes:
                lv = set()
                for a in c.args[1:]:
                    if a['k'] != 'const':
                        lv |= leaves(a['pl']['l'])
                lv = {x for x in lv if x != ('input', 'null')}
                ok = all(x[0] == 'input' for x in lv)
                ctx.ob(R7, 'push_str·String-stored-as-it-is', ok,
                       f'the String arm pushes a value built from {sorted(lv)}', [site(ps, c.bb)],
                       what='push_str transforms a text cell before storing it: COPY TO + COPY FROM changes the string')

    R3 = 'C20-R3'
    ctx.rule(R3, 'every column type the writer can print has a parsing arm in the reader: ArrayBuilderImpl::push_str handles every '
                 'ArrayBuilderImpl variant without diverging')
    adt = prog.adts.get('array::ArrayBuilderImpl')
    if ps is not None and ctx.anchor(R3, 'adt array::ArrayBuilderImpl', adt is not None):
        handled = set()
        for i, bl in enumerate(ps.blocks):
            t = bl['term']
            if t['k'] == 'switch' and (t.get('adt') or '').endswith('array::ArrayBuilderImpl'):
                handled |= {t['variants'].get(v, v) for v, tg in t['targets'] if not ps.diverges(tg)}
                if not ps.diverges(t['otherwise']):
                    handled.add('*')
        for v in [x['name'] for x in adt['variants']]:
            ctx.ob(R3, f'push_str·{v}', v in handled or '*' in handled, f'push_str arm for {v}: {v in handled}')

    import_rescale_rule(ctx, prog, 'C20-R8')


def __pl(p):
    from mir import operand_places
    return operand_places(p)


def _consts(x):
    out = []

    def walk(o):
        if isinstance(o, dict):
            if o.get('k') == 'const':
                out.append(o)
            for v in o.values():
                walk(v)
        elif isinstance(o, list):
            for v in o:
                walk(v)
    walk(x)
    return out


def import_rescale_rule(ctx, prog, R):
    """C20-R8 = C16-R10: INSERT and COPY FROM bring a DECIMAL to the same scale"""
    from tmpl import local_defs
    ctx.rule(R, 'a DECIMAL column gets its values by two routes - INSERT (ArrayImpl::cast) and COPY FROM (CopyFromFileExecutor) - and both rescale '
                'them; the amount of every such rescale is the `s` of a declared DECIMAL(p, s), read out of the DataType, and nothing else: no '
                'constant, no default for a type without scale. Otherwise what INSERT stored and COPY TO wrote is rounded differently by COPY FROM '
                '(DECIMAL(12) holds 0.5 after INSERT and 1 after an export / import)')
    sites_ = [c for c in prog.calls_matching(r'PrimitiveArray::<rust_decimal::Decimal>::rescale$') if not c.body.name.startswith('array::primitive_array::')]
    ctx.floor(R, len(sites_), 2, 'rescale calls outside the array itself (cast, COPY FROM)')
    for c in sites_:
        b = c.body
        ctx.functions_analysed.add(b.name)
        leaves, seen = set(), set()

        def walk(l, depth=10):
            if l in seen or depth < 0:
                return
            seen.add(l)
            ds = local_defs(b, l)
            if not ds:
                leaves.add(('input', b.var_name(l) or f'_{l}'))
            for _, kind, payload in ds:
                if kind == 'assign':
                    rv = payload
                    pls = __pl(rv) + ([rv['pl']] if rv.get('rv') == 'ref' else [])
                    if any('as:Decimal' in pl['p'] for pl in pls):
                        leaves.add(('type', 'DataType::Decimal(_, Some(s))' if any('as:Some' in pl['p'] for pl in pls) else 'DataType::Decimal'))
                        continue
                    if rv.get('rv') == 'agg' and (rv.get('adt') or '').endswith('option::Option') and rv.get('variant') == 'Some' and \
                            any(o['k'] == 'const' for o in rv.get('ops', [])):
                        leaves.add(('constant', str([o.get('v') for o in rv['ops']])))
                    if rv.get('rv') == 'use' and rv['op'].get('k') == 'const':
                        leaves.add(('constant', str(rv['op'].get('v'))))
                    for pl in pls:
                        walk(pl['l'], depth - 1)
                else:
                    leaves.add(('call', (payload.get('fn') or '?').rsplit('::', 1)[-1]))
        if len(c.args) > 1 and c.args[1]['k'] != 'const':
            walk(c.args[1]['pl']['l'])
        else:
            leaves.add(('constant', 'literal'))
        # the scale may be prepared elsewhere in the function (a list of scales built by a closure): look at the whole group as well
        if not any(x[0] == 'type' for x in leaves):
            for g in prog.group(b.root):
                for _, st in g.stmts():
                    if st['s'] != 'assign':
                        continue
                    rv = st['rv']
                    pls = __pl(rv) + ([rv['pl']] if rv.get('rv') == 'ref' else [])
                    if any('as:Decimal' in pl['p'] and 'as:Some' in pl['p'] for pl in pls):
                        leaves.add(('type', 'DataType::Decimal(_, Some(s)) (in ' + g.name.rsplit('::', 1)[-1] + ')'))
                    if rv.get('rv') == 'agg' and (rv.get('adt') or '').endswith('option::Option') and rv.get('variant') == 'Some' and \
                            any(o['k'] == 'const' for o in rv.get('ops', [])) and 'u8' in g.local_ty(st['lhs']['l']):
                        leaves.add(('constant', 'Some(' + str([o.get('v') for o in rv['ops']][0]) + ') in ' + g.name.rsplit('::', 1)[-1]))
        bad = sorted(x for x in leaves if x[0] in ('constant',))
        ok = any(x[0] == 'type' for x in leaves) and not bad
        ctx.ob(R, f'{b.root}·rescale-by-the-declared-scale', ok,
               f'{b.name} block {c.bb}: the scale comes from {sorted(leaves)}', [site(b, c.bb)],
               what=f'{b.root.rsplit("::", 2)[-2]} rescales decimals by an amount that is not (only) the declared scale of the column: the two routes into '
                    'a DECIMAL column round differently, so COPY TO + COPY FROM changes values that INSERT stored')
