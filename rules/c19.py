"""C19 - values of every type compare, hash and print coherently.

The algebraic laws are value-level. Decides only a weak structural clause, stated as such: (R1) no
mixing of derived and hand-written relations on a value type: Eq and Hash are of one kind; an ordering is of
the same kind as equality or a pure delegation to the wrapped value (all-derived and all-manual both pass); (R2) every
owned value type has both Display and FromStr.
Does not decide: the laws themselves, cross-variant comparison, parse(display(x)) == x."""
import re

from tmpl import site

VALUE_TYPES = ['types::value::DataValue', 'types::blob::Blob', 'types::blob::BlobRef', 'types::blob::VectorRef',
               'types::date::Date', 'types::timestamp::Timestamp', 'types::timestamp::TimestampTz',
               'types::interval::Interval', 'types::vector::Vector',
               'storage::secondary::rowset::mem_rowset::ComparableDataValue']
REL = ['std::cmp::PartialEq', 'std::cmp::Eq', 'std::hash::Hash', 'std::cmp::PartialOrd', 'std::cmp::Ord']
OWNED = ['types::value::DataValue', 'types::blob::Blob', 'types::date::Date', 'types::timestamp::Timestamp',
         'types::timestamp::TimestampTz', 'types::interval::Interval', 'types::vector::Vector']


def run(ctx):
    prog = ctx.prog('all' if ctx.thorough else 'lib')
    ctx.extra['facts_key'] = prog.key
    ctx.explanation = ('Impl facts of the type-checked crate: which of PartialEq/Eq/Hash/PartialOrd/Ord are #[automatically_derived] '
                       'on each value type; manual impls must forward to the same trait method of the single wrapped field.')
    ctx.trusted += ['rustc impl facts (is_automatically_derived)']
    ctx.assumptions += ['derived impls over the same fields are mutually consistent; payload types from other crates '
                        '(Decimal, OrderedFloat) are trusted']
    R1 = 'C19-R1'
    ctx.rule(R1, 'for each value type: every present impl of PartialEq, Eq, Hash, PartialOrd, Ord (Self vs Self) is derived, or is a '
                 'pure delegation to the same trait method on the single wrapped field')
    n = 0
    for ty in VALUE_TYPES:
        if not ctx.anchor(R1, ty, ty in prog.adts):
            continue
        impls = [i for i in prog.impls if i['self_adt'] == ty and i.get('trait') in REL]
        # only Self-vs-Self relations
        impls = [i for i in impls if ' as ' not in i.get('trait_ref', '') or re.search(r'<' + re.escape(ty) + r'(<[^>]*>)? as [a-z:]+::[A-Za-z]+>$', i.get('trait_ref', ''))]
        present = {i['trait']: i for i in impls}
        n += 1
        if not ctx.anchor(R1, f'{ty}: PartialEq', 'std::cmp::PartialEq' in present):
            continue
        d = {tr.rsplit('::', 1)[-1]: i['derived'] for tr, i in present.items()}
        # (a) Eq / Hash must be of one kind: a hand-written eq next to a derived hash (or the reverse) breaks
        #     `a == b => hash(a) == hash(b)` unless the manual impl is the structural one
        if 'Hash' in d:
            ctx.ob(R1, f'{short(ty)}·Eq/Hash-same-kind', d['Hash'] == d['PartialEq'],
                   f'{ty}: PartialEq {"derived" if d["PartialEq"] else "manual"}, Hash {"derived" if d["Hash"] else "manual"}',
                   [present['std::hash::Hash']['loc']])
        else:
            ctx.ob(R1, f'{short(ty)}·Eq/Hash-same-kind', True, f'{ty}: no Hash impl', nontrivial=False)
        # (b) ordering vs equality: same kind, or a manual ordering that purely delegates to the wrapped value
        for o in ('PartialOrd', 'Ord'):
            if o not in d:
                continue
            i = present['std::cmp::' + o]
            if d[o] == d['PartialEq']:
                ctx.ob(R1, f'{short(ty)}·{o}', True, f'{ty}: {o} and PartialEq are both {"derived" if d[o] else "manual"}')
            elif not d[o]:
                ok, why = delegation(prog, i, 'std::cmp::' + o)
                ctx.ob(R1, f'{short(ty)}·{o}', ok, f'{ty}: manual {o} next to derived PartialEq: {why}', [i['loc']])
            else:
                ctx.ob(R1, f'{short(ty)}·{o}', False, f'{ty}: derived {o} next to a manual PartialEq (cmp == Equal and == can disagree)',
                       [i['loc']])
        # Hash present with Eq => both derived (checked above); Ord present => PartialOrd present
        if 'std::cmp::Ord' in present:
            ctx.ob(R1, f'{short(ty)}·Ord⇒PartialOrd', 'std::cmp::PartialOrd' in present, f'{ty}: Ord without PartialOrd')
        if 'std::hash::Hash' in present:
            ctx.ob(R1, f'{short(ty)}·Hash⇒Eq', 'std::cmp::Eq' in present, f'{ty}: Hash without Eq')
    ctx.floor(R1, n, 9, 'value types examined')

    R2 = 'C19-R2'
    ctx.rule(R2, 'every owned value type implements both Display and FromStr (print/parse pair exists)')
    for ty in OWNED:
        tr = {i.get('trait') for i in prog.impls if i['self_adt'] == ty}
        ctx.ob(R2, f'{short(ty)}·Display+FromStr', 'std::fmt::Display' in tr and 'std::str::FromStr' in tr,
               f'{ty}: Display: {"std::fmt::Display" in tr}, FromStr: {"std::str::FromStr" in tr}')

    R3 = 'C19-R3'
    ctx.rule(R3, 'the SQL comparison operators order floats the way DataValue does: DataValue (ORDER BY, GROUP BY, hash join, MIN/MAX) compares '
                 'F32/F64 = OrderedFloat, where NaN == NaN and NaN is the greatest value; so the kernels behind = <> < <= > >= '
                 '(ArrayImpl::{eq,ne,lt,le,gt,ge}) never compare raw f32/f64 (a primitive float comparison in their closures)')
    n_k = 0
    for b in prog.bodies.values():
        if not re.search(r'array::ops::<impl array::ArrayImpl>::(eq|ne|gt|lt|ge|le)::\{closure', b.name):
            continue
        n_k += 1
        raw = [(bb, st['rv']['op']) for bb, st in b.stmts() if st['s'] == 'assign' and st['rv'].get('rv') == 'binop'
               and st['rv']['op'] in ('Lt', 'Le', 'Gt', 'Ge', 'Eq', 'Ne') and st['rv'].get('ty') in ('f64', 'f32')]
        if raw:
            ctx.ob(R3, f'{b.root.rsplit("::", 1)[-1]}·raw-float-comparison', False,
                   f'{b.name}: primitive float comparison {raw[0][1]} at block {raw[0][0]}', [b.loc],
                   what=f'the `{b.root.rsplit("::", 1)[-1]}` kernel compares raw f64 values (IEEE: NaN <> NaN, NaN not ordered) while ORDER BY / '
                        'GROUP BY / joins / MIN-MAX use OrderedFloat: `x >= max(x)` rejects the NaN row that MAX returns')
    ctx.ob(R3, 'cmp-kernels·no-raw-float-comparison', True, f'{n_k} comparison kernel closures examined', nontrivial=False)
    ctx.floor(R3, n_k, 100, 'closures of the comparison kernels')

    R4 = 'C19-R4'
    ctx.rule(R4, 'no value prints as the empty string (which parses back as nothing and is the NULL token of CSV import): a Display impl of a '
                 'value type whose output is assembled from optional parts (every write sits in a closure that may return early) has a '
                 'direct fallback write in fmt itself')
    n_d = 0
    for ty in OWNED:
        for i in prog.impls:
            if i['self_adt'] != ty or i.get('trait') != 'std::fmt::Display':
                continue
            for m in i['items']:
                b = prog.bodies.get(m)
                if b is None or not m.endswith('::fmt'):
                    continue
                n_d += 1
                W = re.compile(r'fmt::Formatter::<.*>::(write_fmt|write_str|pad|pad_integral)$|fmt::Formatter::(write_fmt|write_str|pad)$|'
                               r'fmt::(Display|Debug)::fmt$|fmt::Write::write_(str|char|fmt)$')
                direct = [c for c in b.calls if W.search(c.name or c.fn or '')]
                in_closures = [c for g in prog.group(b.root) if g is not b and g.name.startswith(b.name) for c in g.calls if W.search(c.name or c.fn or '')]
                ctx.functions_analysed.add(b.name)
                ctx.ob(R4, f'{short(ty)}·Display·never-empty', bool(direct) or not in_closures,
                       f'{ty}: direct writes in fmt: {len(direct)}; writes inside its closures: {len(in_closures)}', [b.loc],
                       what=f'Display for {short(ty)} only writes from optional parts: a value with none of them (a zero interval) prints as '
                            'the empty string, which COPY FROM reads back as NULL')
    ctx.floor(R4, n_d, 6, 'Display impls of owned value types')

    R5 = 'C19-R5'
    ctx.rule(R5, 'Display prints all of every stored field: where a field is printed through unit accessors (years / months of `months`; '
                 'hours / minutes / seconds of `ms`), the remainders (`% 12`, `% 60`) need one accessor for the top unit that has NO remainder, '
                 'otherwise whatever exceeds the modulus is printed nowhere ("25 hours" as "1 hour") and parse(display(v)) != v while Eq / Ord / '
                 'Hash still see the whole value')
    from mir import operand_places, pl_fields
    n_f = 0
    for ty in OWNED:
        for i in prog.impls:
            if i['self_adt'] != ty or i.get('trait') != 'std::fmt::Display':
                continue
            for m in i['items']:
                fb = prog.bodies.get(m)
                if fb is None or not m.endswith('::fmt'):
                    continue
                per_field = {}
                for c in [c for g in prog.group(fb.root, raw=True) for c in g.calls]:      # as compiled: the accessors are looked at one by one
                    ab = prog.bodies.get(c.res or '') or prog.bodies.get(c.fn or '')
                    if ab is None or not ab.name.startswith(ty + '::') or ab.rec.get('argc') != 1:
                        continue
                    flds = {f for _, st in ab.stmts() for pl in operand_places(st) for f in pl_fields(pl) if f.startswith(ty + '::')}
                    rem = any(st['s'] == 'assign' and st['rv'].get('rv') == 'binop' and st['rv']['op'].startswith('Rem') for _, st in ab.stmts())
                    if len(flds) == 1:
                        per_field.setdefault(next(iter(flds)), {})[ab.name.rsplit('::', 1)[-1]] = rem
                for f, accs in sorted(per_field.items()):
                    if not any(accs.values()):
                        continue                    # printed whole by every accessor
                    n_f += 1
                    ctx.functions_analysed.add(fb.name)
                    ctx.ob(R5, f'{short(ty)}·{f.rsplit("::", 1)[-1]}·top-unit-printed-whole', not all(accs.values()),
                           f'{ty}: Display prints `{f.rsplit("::", 1)[-1]}` through {{accessor: has a remainder}} = {accs}', [fb.loc],
                           what=f'every accessor through which Display prints {short(ty)}.{f.rsplit("::", 1)[-1]} takes a remainder: the part of the value '
                                'above the largest modulus is dropped from the text, so printing and parsing back gives a different (smaller) value')
    ctx.floor(R5, n_f, 2, 'fields printed through unit accessors with remainders')

    R6 = 'C19-R6'
    ctx.rule(R6, 'printing and parsing of a calendar type go through ONE calendar: where FromStr of a value type converts text into its day / '
                 'millisecond number with the chrono crate, Display (and the field accessors EXTRACT uses: year / month / day) converts the '
                 'number back with chrono as well, and vice versa. A second, hand-written civil-from-days computation has to agree with chrono '
                 'on every date, including the proleptic years before 0000-03-01 where truncating division and floor division differ')
    n_cal = 0
    for ty in OWNED:
        sides = {}
        for i in prog.impls:
            if i['self_adt'] != ty or i.get('trait') not in ('std::fmt::Display', 'std::str::FromStr'):
                continue
            for m in i['items']:
                mb = prog.bodies.get(m)
                if mb is None or not (m.endswith('::fmt') or m.endswith('::from_str')):
                    continue
                calls = set()
                todo, seen = [mb.root], set()
                while todo:                          # the impl and the methods of the type it calls (year(), ymd() ..)
                    r = todo.pop()
                    if r in seen:
                        continue
                    seen.add(r)
                    for g in prog.group(r):
                        for c in g.calls:
                            if (c.fn or '').startswith('chrono'):
                                calls.add(c.fn)
                            for cn in prog.callee_bodies(c):
                                # methods of the type, and free functions of its module (`fn timestamp_to_naive_utc(micros)`)
                                if (cn.startswith(ty + '::') or cn.startswith(ty.rsplit('::', 1)[0] + '::')) and len(seen) < 16:
                                    todo.append(prog.bodies[cn].root)
                sides[i['trait'].rsplit('::', 1)[-1]] = (mb, calls)
        if len(sides) == 2 and any(c for _, c in sides.values()):
            n_cal += 1
            both = all(c for _, c in sides.values())
            ctx.functions_analysed.update(b_.name for b_, _ in sides.values())
            ctx.ob(R6, f'{short(ty)}·print-and-parse-share-the-calendar', both,
                   f'{ty}: Display uses chrono: {bool(sides["Display"][1])}; FromStr uses chrono: {bool(sides["FromStr"][1])}',
                   [b_.loc for b_, _ in sides.values()],
                   what=f'{short(ty)} is parsed with chrono and printed with its own date arithmetic (or the other way round): the two calendars '
                        'disagree outside the range somebody tried (dates before 0000-03-01 print as 0000-03-00, -0042--8--16 and do not parse back)')
    ctx.floor(R6, n_cal, 3, 'calendar types with Display and FromStr')


def delegation(prog, impl, tr):
    """A manual relation next to a derived equality is accepted only when it is the derived relation of the wrapped value:
    the type has exactly one field, `cmp`/`partial_cmp`/`eq`/`hash` makes exactly one call, that call is the same trait method,
    and its operands are `self.<field>` and `other.<field>` reached by reference/field projection only (no function applied to
    either side first). `partial_cmp` may instead be `Some(self.cmp(other))`."""
    from tmpl import local_defs, operand_places
    meths = [m for m in impl['items'] if m in prog.bodies]
    if not meths:
        return False, 'no method bodies found'
    adt = prog.adts.get(impl['self_adt'])
    nfields = sum(len(v['fields']) for v in adt['variants']) if adt else None
    for m in meths:
        b = prog.bodies[m]
        mname = m.rsplit('::', 1)[-1]
        calls = [c for c in b.calls if not re.search(r'Option::<.*>::Some$', c.name or '')]
        if mname == 'partial_cmp' and len(calls) == 1 and (calls[0].fn or '').endswith('Ord::cmp') \
                and calls[0].name and calls[0].name.startswith('<' + impl['self_adt'] + ' as '):
            continue    # Some(self.cmp(other)) on Self
        if nfields != 1:
            return False, f'{mname}: the type has {nfields} fields; a manual relation cannot be the derived relation of one wrapped value'
        if len(calls) != 1:
            return False, f'{mname} makes {len(calls)} calls ({", ".join(sorted({(c.name or c.fn or "?") for c in calls}))[:160]}); not a pure delegation'
        c = calls[0]
        if not re.search(r'std::cmp::(PartialEq|PartialOrd|Ord)::|std::hash::Hash::', c.fn or '') or not (c.fn or '').endswith('::' + mname):
            return False, f'{mname} calls {c.fn} (not the same relation)'
        want = [1, 2] if mname != 'hash' else [1]
        for k, a in zip(want, c.args):
            if a['k'] == 'const':
                return False, f'{mname}: operand {k} of the comparison is a constant'
            # walk back through plain ref/use assignments only
            l, hops, ok = a['pl']['l'], 0, False
            while hops < 8:
                if l == k:
                    ok = True
                    break
                defs = local_defs(b, l)
                if len(defs) != 1 or defs[0][1] != 'assign' or defs[0][2]['rv'] not in ('use', 'ref'):
                    break
                srcs = operand_places(defs[0][2])
                if len(srcs) != 1:
                    break
                l = srcs[0]['l']
                hops += 1
            if not ok:
                return False, f'{mname}: operand {k} of the comparison is not `{"self" if k == 1 else "other"}.<field>` by projection only'
    return True, 'pure delegation to the single wrapped value'


def short(n):
    return n.rsplit('::', 1)[-1]
