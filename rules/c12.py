"""C12 - ORDER BY, LIMIT and OFFSET are honoured on every storage layout.

Decides: (R1) the sortedness contract between planner and storage: if the planner is told that scans
are sorted by primary key (so that it may drop an ORDER BY / pick merge join / sort agg), then the scan
the executor issues must request a sorted scan, or the storage must merge row-sets regardless of the
option; (R2, reported) the order analysis names the leading key of the ordered primary key list.
Does not decide: LIMIT/OFFSET arithmetic, NULL placement (value level)."""
import re

from mir import pl_fields, operand_places
from tmpl import site, suffix, const_arg, local_defs, origin_locals

FLAG = 'storage::StorageImpl::table_is_sorted_by_primary_key'
SCAN_EXEC = 'executor::table_scan::TableScanExecutor::<S>::execute'
SCAN_INNER = 'storage::secondary::transaction::SecondaryTransaction::scan_inner'


def returns_true_for(prog, fn):
    """variants of StorageImpl for which a capability flag function returns the constant true"""
    b = prog.body(fn)
    out = {}
    if b is None:
        return None
    for i, bl in enumerate(b.blocks):
        t = bl['term']
        if t['k'] == 'switch' and (t.get('adt') or '').endswith('StorageImpl'):
            for v, tgt in t['targets']:
                var = t['variants'].get(v, v)
                vals = set()
                for x in b.reachable_from([tgt], avoid={tt for _, tt in t['targets'] if tt != tgt}):
                    for st in b.blocks[x]['stmts']:
                        if st['lhs']['l'] == 0 and st.get('rv', {}).get('rv') == 'use' and st['rv']['op']['k'] == 'const':
                            vals.add(st['rv']['op'].get('v', '').replace('const ', ''))
                out[var] = vals
    return out


def run(ctx):
    prog = ctx.prog('all' if ctx.thorough else 'lib')
    ctx.extra['facts_key'] = prog.key
    ctx.explanation = ('Contract check between the capability flag handed to the planner (table_is_sorted_by_primary_key) and what '
                       'the scan executor / the storage scan do with ScanOptions::is_sorted.')
    ctx.trusted += ['rustc MIR facts']
    R1 = 'C12-R1'
    ctx.rule(R1, 'if StorageImpl::table_is_sorted_by_primary_key returns true for an engine, TableScanExecutor must request a '
                 'sorted scan (ScanOptions::with_sorted(true)) or that engine\'s scan must merge row-sets by sort key whenever the '
                 'table has one, independently of ScanOptions::is_sorted')
    flags = returns_true_for(prog, FLAG)
    if ctx.anchor(R1, FLAG, flags is not None) and ctx.anchor(R1, FLAG + ': match on StorageImpl', bool(flags)):
        engines_true = sorted(v for v, vals in flags.items() if 'true' in vals)
        ctx.extra['sorted_flag'] = {k: sorted(v) for k, v in flags.items()}
        grp = prog.group(SCAN_EXEC)
        ctx.anchor(R1, SCAN_EXEC, bool(grp))
        ws = [c for g in grp for c in g.calls if (c.fn or '').endswith('ScanOptions::with_sorted')]
        asks_sorted = any(const_arg(c, 1) is None or 'true' in (const_arg(c, 1) or '') for c in ws)
        si = prog.group(SCAN_INNER)
        ctx.anchor(R1, SCAN_INNER, bool(si))
        reads_flag = any(any(f == 'storage::ScanOptions::is_sorted' for p in operand_places(bl) for f in pl_fields(p))
                         for g in si for bl in g.blocks if not bl['cleanup'])
        merges = any(c for g in si for c in g.calls if (c.fn or '').endswith('MergeIterator::new'))
        storage_always_merges = merges and not reads_flag
        for g in grp + si:
            ctx.functions_analysed.add(g.name)
        for e in engines_true:
            ok = asks_sorted or (storage_always_merges if e == 'SecondaryStorage' else False)
            ctx.ob(R1, f'{e}·sorted-scan', ok,
                   f'planner is told scans of {e} are sorted by primary key; TableScanExecutor calls with_sorted: {len(ws)} '
                   f'(asks sorted: {asks_sorted}); scan_inner merges: {merges}, gated by opts.is_sorted: {reads_flag}',
                   [site(c.body, c.bb) for c in ws] or [prog.bodies[SCAN_EXEC].loc],
                   what='the optimizer assumes disk scans are sorted by primary key (drops ORDER BY pk, picks merge join / sort '
                        'agg) but TableScanExecutor never asks for a sorted scan: with several row-sets the rows come back '
                        'unsorted')
        ctx.floor(R1, len(flags), 2, 'engines in the capability flag')

    R2 = 'C12-R2'
    ctx.rule(R2, '(reported, not armed) analyze_order\'s Scan arm derives the claimed key from the ordered primary key list')
    ao = prog.group('planner::rules::order::analyze_order')
    if ao:
        uses = any(c for g in ao for c in g.calls if re.search(r'ordered_pk_ids|find_sort_key_id', c.name or ''))
        ctx.note(f'C12-R2: analyze_order consults ordered_pk_ids/find_sort_key_id: {uses} (two column-level PRIMARY KEYs are rejected '
                 f'by the binder today, so the first is_primary() column is the only key)')

    order_claims_rule(ctx, prog, 'C12-R4')

    R3 = 'C12-R3'
    ctx.rule(R3, 'LIMIT/OFFSET: every batch taken from the child is counted: on every path from receiving a batch to asking for the '
                 'next one the row counter is advanced')
    lim = prog.body('executor::limit::LimitExecutor::execute::{closure#0}')
    if ctx.anchor(R3, 'executor::limit::LimitExecutor::execute', lim is not None):
        ctx.functions_analysed.add(lim.name)
        polls = [c.bb for c in lim.calls if (c.fn or '').endswith('Stream::poll_next')]
        some_targets = []
        for i, bl in enumerate(lim.blocks):
            t = bl['term']
            if t['k'] == 'switch' and t.get('adt') == 'std::option::Option' and t.get('on') and \
                    any(p.startswith('as:Ready') for p in t['on']['p']):
                for v, tgt in t['targets']:
                    if t.get('variants', {}).get(v) == 'Some':
                        some_targets.append(tgt)
        # counters: usize locals initialised to 0 and re-assigned from an Add in the loop
        zero_init = {st['lhs']['l'] for _, st in lim.stmts() if not st['lhs']['p'] and st.get('rv', {}).get('rv') == 'use'
                     and st['rv']['op']['k'] == 'const' and st['rv']['op'].get('v', '').replace('const ', '') == '0_usize'}
        adds = {}
        for bb, st in lim.stmts():
            rv = st.get('rv', {})
            if rv.get('rv') == 'binop' and rv['op'].startswith('Add') and rv['ty'] == 'usize':
                adds[st['lhs']['l']] = bb
        upd = {}
        for bb, st in lim.stmts():
            rv = st.get('rv', {})
            if not st['lhs']['p'] and st['lhs']['l'] in zero_init and rv.get('rv') == 'use' and rv['op']['k'] != 'const' \
                    and rv['op']['pl']['l'] in adds:
                upd.setdefault(st['lhs']['l'], []).append(bb)
        if ctx.anchor(R3, 'LimitExecutor: child poll / Some arm', polls and some_targets) and ctx.anchor(R3, 'LimitExecutor: row counter', upd):
            for cnt, blocks in sorted(upd.items()):
                errs = lim.error_exit_blocks()
                reach = lim.reachable_from(some_targets, avoid=set(blocks) | errs)
                skipped = sorted(reach & set(polls))   # leaving the loop (break / error) needs no count
                ctx.ob(R3, f'LimitExecutor·counter-advances·{lim.var_name(cnt) or cnt}', not skipped,
                       f'counter `{lim.var_name(cnt)}` is advanced at blocks {blocks}; next poll reachable from a received batch '
                       f'without advancing it: {skipped}', [site(lim, b_) for b_ in blocks],
                       what='LimitExecutor skips its row counter for some batches (e.g. a batch lying entirely before OFFSET): later '
                            'batches are sliced at the wrong position')

    class_level_order(ctx, prog)
    heap_orientation(ctx, prog)
    heap_exit_rule(ctx, prog, 'C12-R8')
    sorted_rowsets_rule(ctx, prog)
    # every ordering decision on rows goes through a confirmed comparator (after seed C12-e: a TopN admission test on the leading key only)
    from rules.c14_types import datavalue_order_users
    datavalue_order_users(ctx, prog, 'C12-R10')
    R5 = 'C12-R5'
    ctx.rule(R5, 'an absent LIMIT is not a size: the builder hands TopN / Limit a huge sentinel when the query has no LIMIT, so no '
                 'allocation in those executors may be sized by `limit` (with_capacity*, reserve, vec![_; n]) unless the amount went '
                 'through `min`; otherwise `ORDER BY k OFFSET m` fails with a capacity overflow instead of returning the remaining rows')
    bld = prog.body('executor::Builder::<S>::build_id_subscriber')
    sentinel = bld is not None and any(re.search(r'Option::<.*>::unwrap_or$', c.name or '') and len(c.args) > 1 and c.args[1]['k'] == 'const'
                                       and 'usize' in c.args[1].get('ty', 'usize') for c in bld.calls)
    n_alloc = 0
    for name in ('executor::top_n::TopNExecutor::execute::{closure#0}', 'executor::limit::LimitExecutor::execute::{closure#0}'):
        b = prog.body(name)
        if not ctx.anchor(R5, name, b is not None):
            continue
        ctx.functions_analysed.add(b.name)
        lim = [v['pl']['p'][0] for v in (b.rec.get('vars') or []) if v['name'] in ('self__limit', 'limit') and v['pl']['l'] == 1 and v['pl']['p']]
        # .. or `self` is captured whole (a method of the executor is called) and the field is read as `self.limit`, possibly in a helper
        by_name = any(p_.endswith('Executor::limit') for _, st in b.stmts() for pl in operand_places(st['rv']) for p_ in pl['p'])
        if not ctx.anchor(R5, f'{name}: the limit field', lim or by_name):
            continue
        fld = lim[0] if lim else None

        def tainted(l, seen=None, depth=12):
            seen = seen if seen is not None else set()
            if l in seen or depth < 0:
                return False
            seen.add(l)
            for bb, kind, payload in local_defs(b, l):
                if kind == 'call':
                    if re.search(r'cmp::Ord::min$|::min$', payload.get('fn') or ''):
                        continue
                    if any(a['k'] != 'const' and tainted(a['pl']['l'], seen, depth - 1) for a in payload.get('args', [])):
                        return True
                else:
                    for pl in operand_places(payload):
                        if (fld is not None and pl['l'] == 1 and fld in pl['p']) or any(p_.endswith('Executor::limit') for p_ in pl['p']):
                            return True
                        if tainted(pl['l'], seen, depth - 1):
                            return True
            return False
        for c in b.calls:
            if not re.search(r'::(with_capacity|with_capacity_by|with_capacity_in|reserve|reserve_exact|from_elem|repeat)$', c.fn or ''):
                continue
            caps = [a for a in c.args if a['k'] != 'const' and b.local_ty(a['pl']['l']) == 'usize']
            if not caps:
                continue
            n_alloc += 1
            bad = [a for a in caps if tainted(a['pl']['l'])]
            ctx.ob(R5, f'{b.root}·{c.fn.rsplit("::", 1)[-1]}·not-sized-by-limit', not bad,
                   f'{b.name}: {c.fn} at block {c.bb}' + (' is sized by `limit` without `min`' if bad else ' is not sized by the raw limit'),
                   [site(b, c.bb)],
                   what=f'{b.root} allocates `limit` entries up front; without a LIMIT clause that is the no-limit sentinel and the '
                        'statement dies with a capacity overflow')
    ctx.floor(R5, n_alloc, 1, 'sized allocations in TopN / Limit executors')
    ctx.note(f'C12-R5: the builder substitutes a constant for a missing LIMIT: {sentinel}')


def class_level_order(ctx, prog):
    """C12-R6: an order claimed for an e-class must hold for every member"""
    R6 = 'C12-R6'
    ctx.rule(R6, 'the order of rows is a property of a plan, the analysis keeps it per e-class: when two classes are merged the class may '
                 'only keep what holds for BOTH (a lower bound: merge_min / common prefix), never the maximum; useless-order deletes an '
                 'ORDER BY on the strength of the class-level claim, and extraction is free to pick the member that is not ordered')
    mb = next((b for n, b in prog.bodies.items() if re.search(r'planner::rules::ExprAnalysis as egg::Analysis<planner::Expr>>::merge$', n)), None)
    if not ctx.anchor(R6, 'ExprAnalysis::merge', mb is not None):
        return
    ctx.functions_analysed.add(mb.name)
    hits = []
    for c in mb.calls:
        if not re.search(r'egg::merge_(max|min)$|egg::merge_option$', c.fn or ''):
            continue
        flds = set()
        for a in c.args:
            if a['k'] == 'const':
                continue
            for l in origin_locals(mb, a['pl']['l'], depth=4):
                for bb, kind, payload in local_defs(mb, l):
                    if kind == 'assign':
                        flds |= {f.rsplit('::', 1)[-1] for pl in operand_places(payload) for f in pl_fields(pl)}
        if 'orderby' in flds:
            hits.append(c)
    if ctx.anchor(R6, 'ExprAnalysis::merge: merge of orderby', hits):
        for c in hits:
            ctx.ob(R6, 'ExprAnalysis::merge·orderby-lower-bound', not (c.fn or '').endswith('merge_max'),
                   f'orderby is merged with {c.fn}', [site(mb, c.bb)],
                   what='the e-class keeps the MAXIMUM of its members\' order keys: one ordered member (a sort aggregation) lets useless-order '
                        'drop the ORDER BY above the class, and a cost tie extracts the unordered hash aggregation')


def heap_orientation(ctx, prog, R7='C12-R7'):
    """C12-R7: the min-heap of MergeIterator asks one question"""
    ctx.rule(R7, 'MergeIterator keeps the smallest pending row on top of a hand-written binary heap; sift-up, the choice of the smaller '
                 'child and the push-down test all ask the same question of compare_in_heap - "is the first greater than the second?" - '
                 'i.e. they split Ordering into {Greater} and {Less, Equal} (matches!(.., Greater), is_gt, is_le). A test that splits it '
                 'as {Less} / {Equal, Greater} answers a different question and turns one of the three steps around')
    n = 0
    for b in prog.bodies.values():
        if 'merge_iterator::MergeIterator::' not in b.name:
            continue
        for c in b.calls:
            if not (c.fn or '').endswith('MergeIterator::compare_in_heap'):
                continue
            n += 1
            ctx.functions_analysed.add(b.name)
            d = c.dest['l']
            verdict = None
            for k in b.calls:
                if any(a['k'] != 'const' and d in origin_locals(b, a['pl']['l'], depth=3) for a in k.args):
                    m = re.search(r'cmp::Ordering::(is_gt|is_le|is_lt|is_ge|is_eq|is_ne)$', k.fn or '')
                    if m:
                        verdict = m.group(1)
            for i, bl in enumerate(b.blocks):
                t = bl['term']
                if t['k'] == 'switch' and t.get('adt') == 'std::cmp::Ordering' and t.get('on') and d in origin_locals(b, t['on']['l'], depth=3):
                    names = t.get('variants', {})
                    listed = frozenset(names.get(str(v), str(v)) for v, tgt in t['targets'] if tgt != t.get('otherwise'))
                    verdict = 'Greater' if listed in (frozenset({'Greater'}), frozenset({'Less', 'Equal'})) else '/'.join(sorted(listed))
            ok = verdict in ('Greater', 'is_gt', 'is_le')
            ctx.ob(R7, f'{b.root.rsplit("::", 1)[-1]}·bb{"" if ok else "-other-question"}·{verdict}', ok,
                   f'{b.name}: the result of compare_in_heap at block {c.bb} is tested as `{verdict}`', [site(b, c.bb)],
                   what=f'{b.root.rsplit("::", 1)[-1]} tests a heap comparison as `{verdict}` where every other step asks "greater?": the heap '
                        'follows the wrong child and rows of three or more row-sets come out of order')
    ctx.floor(R7, n, 3, 'compare_in_heap call sites')


def heap_exit_rule(ctx, prog, rid):
    """shared by C12 and C07: the sift-down of MergeIterator may stop only after looking at the smaller of BOTH children"""
    ctx.rule(rid, 'MergeIterator::replace_pending_data may leave the sift-down only when the moved element is not greater than the smaller '
                  'child: the comparison that decides an exit takes as its second operand the selected child (a local that is assigned '
                  'from the left and from the right child), never a fixed heap position; comparing with one child only lets the other '
                  'child stay above a smaller key and the merged stream leaves key order from three inputs on')
    b = next((x for n, x in prog.bodies.items() if n.endswith('merge_iterator::MergeIterator::replace_pending_data')), None)
    if not ctx.anchor(rid, 'MergeIterator::replace_pending_data', b is not None):
        return
    ctx.functions_analysed.add(b.name)
    cmps = [c for c in b.calls if (c.fn or '').endswith('MergeIterator::compare_in_heap')]
    if not ctx.anchor(rid, 'replace_pending_data: compare_in_heap', cmps):
        return
    rets = set(b.return_blocks())
    others = {c.bb for c in cmps}
    n_exit = 0
    for c in cmps:
        # can this comparison's outcome lead to a return without another comparison?
        reach = b.reachable_from(b.succs[c.bb], avoid=others - {c.bb})
        if not (reach & rets):
            continue
        n_exit += 1
        a2 = c.args[2] if len(c.args) > 2 else None
        fixed = a2 is None or a2['k'] == 'const'
        two_sources = False
        if not fixed:
            defs = [d for d in local_defs(b, a2['pl']['l'])]
            srcs = set()
            for l in origin_locals(b, a2['pl']['l'], depth=3):
                srcs |= {bb for bb, k, p in local_defs(b, l)}
            two_sources = len({bb for l in origin_locals(b, a2['pl']['l'], depth=2) for bb, k, p in local_defs(b, l) if k == 'assign'}) >= 2
        ctx.ob(rid, f'replace_pending_data·exit-compares-the-selected-child·bb{"" if (not fixed and two_sources) else "-fixed-position"}',
               (not fixed) and two_sources,
               f'comparison at block {c.bb} can end the sift-down; its second operand is ' +
               ('a fixed heap position' if fixed else ('the selected child' if two_sources else 'a single child')), [site(b, c.bb)],
               what='MergeIterator::replace_pending_data stops sifting after comparing with one fixed child: with three or more inputs a '
                    'smaller key stays below the root and the merged rows (compaction output, sorted scan) leave key order')
    ctx.floor(rid, n_exit, 1, 'comparisons that can end the sift-down')


PASS_THROUGH = ('Proj', 'Filter', 'Window', 'Limit', 'MergeJoin', 'SortAgg', 'Order', 'TopN')


def pass_through_arms(ao_b):
    """for the arms of analyze_order that hand on a key list: calls in the arm other than the accessor closure and Clone"""
    out = {}
    sw = [(i, bl['term']) for i, bl in enumerate(ao_b.blocks) if bl['term']['k'] == 'switch' and bl['term'].get('adt') == 'planner::Expr'
          and (bl['term'].get('on') or {}).get('l') == 2]
    for i, t in sw:
        names = t.get('variants', {})
        arms = {names.get(str(v), str(v)): tgt for v, tgt in t['targets'] if tgt != t.get('otherwise')}
        for v, tgt in arms.items():
            if v not in PASS_THROUGH:
                continue
            others = {x for vv, x in arms.items() if x != tgt} | ({t['otherwise']} if t.get('otherwise') is not None else set())
            region = ao_b.reachable_from([tgt], avoid=others | {i})
            foreign = sorted({re.sub(r'<[^<>]*>', '', c.fn or '?') for c in ao_b.calls if c.bb in region
                              and not re.search(r'ops::Fn::call$|clone::Clone::clone$|ops::Deref::deref$|ops::Index::index$', c.fn or '')})
            out[v] = foreign
    return out


def merge_join_types(ao_b):
    """join types under which the MergeJoin arm of analyze_order claims an order; None = unconditional"""
    top = [(i, bl['term']) for i, bl in enumerate(ao_b.blocks) if bl['term']['k'] == 'switch' and bl['term'].get('adt') == 'planner::Expr'
           and (bl['term'].get('on') or {}).get('l') == 2]
    for i, t in top:
        names = t.get('variants', {})
        arms = {names.get(str(v), str(v)): tgt for v, tgt in t['targets']}
        if 'MergeJoin' not in arms or arms['MergeJoin'] == t.get('otherwise'):
            continue
        others = {x for vv, x in arms.items() if x != arms['MergeJoin']} | ({t['otherwise']} if t.get('otherwise') is not None else set())
        region = ao_b.reachable_from([arms['MergeJoin']], avoid=others | {i})
        for j in sorted(region):
            tt = ao_b.blocks[j]['term']
            if tt['k'] == 'switch' and tt.get('adt') == 'planner::Expr' and (tt.get('on') or {}).get('l') != 2:
                nm = tt.get('variants', {})
                return {nm.get(str(v), str(v)) for v, tgt in tt['targets'] if tgt != tt.get('otherwise')}
        return None
    return set()


def sorted_rowsets_rule(ctx, prog):
    """C12-R9: what a primary-key table writes into a row-set went through the sorting memtable."""
    from tmpl import flows_from
    R9 = 'C12-R9'
    ctx.rule(R9, 'the planner drops ORDER BY <primary key> on the disk engine because every row-set of a primary-key table is written in key '
                 'order; that order is made in one place, BTreeMapMemTable::flush. So in SecondaryMemRowset<BTreeMapMemTable> every chunk '
                 'handed to RowsetBuilder::append is the result of MemTable::flush - a chunk written as it arrived ("already sorted" fast '
                 'path) is only ordered within itself, not against what the builder already holds')
    sites_ = [c for c in prog.calls_matching(r'rowset_builder::RowsetBuilder::append$')
              if 'mem_rowset::SecondaryMemRowset::<' in c.body.name and 'BTreeMapMemTable' in c.body.name]
    ctx.floor(R9, len(sites_), 1, 'RowsetBuilder::append calls in SecondaryMemRowset<BTreeMapMemTable>')
    for c in sites_:
        b = c.body
        ctx.functions_analysed.add(b.name)
        ok = len(c.args) >= 2 and c.args[1]['k'] != 'const' and flows_from(
            b, c.args[1]['pl']['l'], lambda k, p_, bb: k == 'call' and re.search(r'MemTable(>)?::flush$', p_.get('fn') or '') is not None, depth=12)
        fn = b.name.split('>::', 1)[-1].split('::{')[0]
        ctx.ob(R9, f'SecondaryMemRowset<BTreeMapMemTable>::{fn}·writes-only-what-the-memtable-sorted', ok,
               f'{b.name} block {c.bb}: the chunk given to RowsetBuilder::append ' + ('is the result of MemTable::flush' if ok else
                                                                                     'does not come from MemTable::flush'),
               [site(b, c.bb)],
               what='a primary-key table writes rows into a row-set without passing them through the sorting memtable: the row-set is no '
                    'longer in key order, and `SELECT .. ORDER BY <pk>` (whose sort the planner removes on the disk engine) returns them unsorted')


def order_claims_rule(ctx, prog, R4):
    """C12-R4 = C02-R7: analyze_order claims an order only for confirmed operators"""
    ORDER_SOURCES = {   # operator -> why its output order may be claimed (confirmed by reading the executor; one line each)
        'List': 'not an operator: the key list itself',
        'Scan': 'primary-key order of a disk scan, gated by table_is_sorted_by_primary_key (see R1)',
        'Order': 'OrderExecutor sorts by these keys',
        'TopN': 'TopNExecutor emits its heap in key order',
        'Proj': 'ProjectionExecutor maps each chunk of its child in place',
        'Filter': 'FilterExecutor keeps a subsequence of each chunk',
        'Window': 'WindowExecutor appends columns to each chunk in place',
        'Limit': 'LimitExecutor emits a contiguous slice of its child\'s stream',
        'MergeJoin': 'MergeJoinExecutor walks both inputs in key order and emits matches (and padded rows) in that order',
        'SortAgg': 'SortAggExecutor emits one row per run of equal keys, in the child\'s order',
    }
    ctx.rule(R4, 'analyze_order claims an output order only for operators whose executor was confirmed to keep or create it '
                 f'({", ".join(sorted(ORDER_SOURCES))}); every other operator must fall into the default (unordered) arm. The '
                 'useless-order rule deletes an ORDER BY on the strength of this claim (a hash join, for one, emits its unmatched '
                 'build rows after the probe side)')
    ao_b = prog.body('planner::rules::order::analyze_order')
    if ctx.anchor(R4, 'planner::rules::order::analyze_order', ao_b is not None):
        ctx.functions_analysed.add(ao_b.name)
        sw = [(i, bl['term']) for i, bl in enumerate(ao_b.blocks) if bl['term']['k'] == 'switch' and bl['term'].get('adt') == 'planner::Expr'
              and (bl['term'].get('on') or {}).get('l') == 2]   # the match on `enode` itself (argument 2), not on a child's node
        if ctx.anchor(R4, 'analyze_order: match on the plan node', sw):
            claimed = set()
            for i, t in sw:
                names = t.get('variants', {})
                for v, tgt in t['targets']:
                    if tgt != t.get('otherwise'):
                        claimed.add(names.get(str(v), str(v)))
            ctx.floor(R4, len(claimed), 8, 'operators for which analyze_order claims an order')
            # a merge join keeps the right input's order only when no unmatched left row is padded in between: Inner, RightOuter
            mj = merge_join_types(ao_b)
            ctx.ob(R4, 'analyze_order·MergeJoin·join-types', mj is not None and mj <= {'Inner', 'RightOuter'},
                   'MergeJoin hands on the right side\'s order for join types ' + (str(sorted(mj)) if mj is not None else 'ALL (no test of the join type)')
                   + '; only Inner and RightOuter emit their rows in right-key order', [ao_b.loc],
                   what='analyze_order lets a LEFT / FULL merge join inherit the order of its right input: an ORDER BY on the right key above '
                        'it is removed although the NULL-padded rows sit between the matched ones')
            for v, foreign in sorted(pass_through_arms(ao_b).items()):
                ctx.ob(R4, f'analyze_order·{v}·passes-keys-unchanged', not foreign,
                       f'{v}: the arm must hand on its child\'s key list as it is (x(child).clone()); other calls in the arm: {foreign}',
                       [ao_b.loc],
                       what=f'analyze_order computes the order of `{v}` from its child\'s keys with extra logic ({", ".join(foreign)[:120]}): '
                            'a key list that is filtered rather than cut at the first missing key claims an order the rows do not have')
            for v in sorted(claimed):
                ctx.ob(R4, f'analyze_order·{v}', v in ORDER_SOURCES,
                       f'{v}: ' + (ORDER_SOURCES.get(v) or 'no confirmed reason why this operator\'s output is ordered'), [ao_b.loc],
                       what=f'analyze_order claims that `{v}` passes an order through, which no executor reading supports: '
                            f'useless-order then drops an ORDER BY above it')
