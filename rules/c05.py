"""C05 - the in-memory and on-disk engines are observationally equivalent.

Taken whole this is a differential (run-time) property. The one place where the code *chooses* to behave
differently per engine is the pair of capability flags handed to the planner. Decides: (R1) flag <=>
implementation: an engine that advertises a capability implements it in its scan (reads the matching
ScanOptions field and does not assert it away); (R2, reported) the list of other engine switches.
The consumers of the flags are decided under C12-R1 / C13-R1. Everything data-dependent is not decided."""
import re

from mir import pl_fields, operand_places
from tmpl import site, suffix
from rules.c12 import returns_true_for, heap_orientation, heap_exit_rule
from rules.c03 import commit_publishes_rule
from rules.c06 import block_aligned_batches_rule

FLAGS = {
    'storage::StorageImpl::support_range_filter_scan': 'storage::ScanOptions::filter',
    'storage::StorageImpl::table_is_sorted_by_primary_key': 'storage::ScanOptions::is_sorted',
}
SCAN = {
    'SecondaryStorage': 'storage::secondary::transaction::SecondaryTransaction::scan_inner',
    'InMemoryStorage': '<storage::memory::transaction::InMemoryTransaction as storage::Transaction>::scan',
}


def run(ctx):
    prog = ctx.prog('all' if ctx.thorough else 'lib')
    ctx.extra['facts_key'] = prog.key
    ctx.explanation = ('Capability-flag contract: for each StorageImpl variant and each flag passed to the optimizer config, a '
                       '`true` answer obliges that engine\'s scan to consume the corresponding ScanOptions field.')
    ctx.trusted += ['rustc MIR facts']
    ctx.assumptions += ['only the capability-flag clause of C05 is decided; result equality is a run-time property']
    R1 = 'C05-R1'
    ctx.rule(R1, 'StorageImpl::<flag>() == true for engine E  =>  E\'s Transaction::scan reads the matching ScanOptions field and '
                 'does not merely assert it absent')
    n = 0
    for fn, field in FLAGS.items():
        flags = returns_true_for(prog, fn)
        if not ctx.anchor(R1, fn, flags is not None) or not ctx.anchor(R1, fn + ': match on StorageImpl', bool(flags)):
            continue
        for eng, vals in sorted(flags.items()):
            n += 1
            root = SCAN.get(eng)
            if not ctx.anchor(R1, f'scan of {eng}', root in prog.bodies if root else False):
                continue
            grp = prog.group(root)
            for g in grp:
                ctx.functions_analysed.add(g.name)
            reads = [(g, i) for g in grp for i, bl in enumerate(g.blocks) if not bl['cleanup']
                     for p in operand_places(bl) for f in pl_fields(p) if f == field]
            # reads that only feed an assertion (is_none()/== false followed by a panic arm) do not count as implementing it
            real = []
            for g, i in reads:
                nxt = g.reachable_from([i])
                if not all(g.diverges(s) for s in g.succs[i]) and not (g.panic_blocks() & set(g.succs[i]) and len(g.succs[i]) <= 2
                                                                         and any(g.diverges(s) for s in g.succs[i]) and False):
                    real.append((g, i))
            asserted_away = bool(reads) and all(_feeds_only_assert(g, i) for g, i in reads)
            if 'true' in vals:
                ok = bool(reads) and not asserted_away
                ctx.ob(R1, f'{eng}·{fn.rsplit("::", 1)[-1]}', ok,
                       f'{eng} advertises {fn.rsplit("::", 1)[-1]}; its scan reads {field.rsplit("::", 1)[-1]} at {len(reads)} place(s)'
                       + (' but only to assert it away' if asserted_away else ''), [site(g, i) for g, i in reads[:2]])
            else:
                ctx.ob(R1, f'{eng}·{fn.rsplit("::", 1)[-1]}', True,
                       f'{eng} does not advertise {fn.rsplit("::", 1)[-1]} (returns {sorted(vals)}); no obligation', nontrivial=False)
    ctx.floor(R1, n, 4, 'flag x engine instances')
    # the flags really come from the storage in use
    db = prog.group('db::Database::run')
    if ctx.anchor(R1, 'db::Database::run', bool(db)):
        for fn in FLAGS:
            used = any(c for g in db for c in g.calls if (c.fn or '').endswith(fn.rsplit('::', 1)[-1]) and 'StorageImpl' in (c.name or ''))
            ctx.ob(R1, f'db·config←{fn.rsplit("::", 1)[-1]}', used, f'Database::run must fill the optimizer config from {fn}')

    R3 = 'C05-R3'
    ctx.rule(R3, 'sibling totality: every method of the storage traits (Storage, Table, Transaction, TxnIterator, RowHandler) has a '
                 'body in both engines that does not diverge unconditionally (a todo!() in one engine makes a statement fail there '
                 'and succeed on the other)')
    traits = ('storage::Storage', 'storage::Table', 'storage::Transaction', 'storage::TxnIterator', 'storage::RowHandler')
    by = {}
    for b in prog.bodies.values():
        tr = b.rec.get('impl_trait')
        if tr in traits and b.root == b.name:
            body = prog.bodies.get(b.name + '::{closure#0}', b) if b.rec.get('async') else b
            by.setdefault((tr, b.name.rsplit('::', 1)[-1]), {})[b.rec.get('impl_self_adt')] = body
    n3 = 0
    for (tr, meth), impls in sorted(by.items()):
        for adt, body in sorted(impls.items()):
            n3 += 1
            ctx.functions_analysed.add(body.name)
            ctx.ob(R3, f'{tr.rsplit("::", 1)[-1]}::{meth}·{adt.rsplit("::", 1)[-1]}', not body.diverges(0),
                   f'{body.name}: ' + ('diverges on every path (unimplemented)' if body.diverges(0) else 'implemented'), [body.loc])
        ctx.ob(R3, f'{tr.rsplit("::", 1)[-1]}::{meth}·both-engines', len(impls) >= 2,
               f'{tr}::{meth} implemented by {sorted(a.rsplit("::", 1)[-1] for a in impls)}', nontrivial=False)
    ctx.floor(R3, n3, 36, 'storage trait method implementations')

    R2 = 'C05-R2'
    ctx.rule(R2, '(reported) functions that switch on the engine kind')
    sw = sorted({b.root for b in prog.bodies.values() for bl in b.blocks if bl['term']['k'] == 'switch'
                 and (bl['term'].get('adt') or '').endswith('storage::StorageImpl')})
    ctx.extra['engine_switches'] = sw
    ctx.note(f'C05-R2: functions matching on StorageImpl: {sw}')
    commit_publishes_rule(ctx, prog, 'C05-R4')
    # a layout detail of the disk engine that must not leak into results (after seed C05-d)
    block_aligned_batches_rule(ctx, prog, 'C05-R6')
    empty_chunk_rule(ctx, prog)
    # the merge of row-sets of a primary-key table (compaction, sorted scan): physical layout must not leak (after seed C05-e = C07-d)
    heap_orientation(ctx, prog, 'C05-R8')
    heap_exit_rule(ctx, prog, 'C05-R9')

    R5 = 'C05-R5'
    ctx.rule(R5, 'what the planner knows about the engine is per database: the fields of optimizer::Config (enable_range_filter_scan, '
                 'table_is_sorted_by_primary_key, ..) are never read inside a once-per-process initialiser (LazyLock / OnceLock / '
                 'lazy_static closure, static item); otherwise the first database opened in a process decides how every other one plans, '
                 'and an in-memory database gets scan filters it cannot execute')
    n_once = 0
    for b in prog.bodies.values():
        once_closures = set()
        for c in b.calls:
            if re.search(r'(OnceLock|LazyLock|OnceCell|Lazy|Once)::<.*>::(get_or_init|get_or_try_init|new|call_once|force)$', c.name or ''):
                n_once += 1
                once_closures |= {child for bb, child in b.closure_sites() if bb == c.bb}
        initialisers = [prog.bodies[n] for n in once_closures if n in prog.bodies]
        if b.rec.get('kind') in ('Static', 'Const'):
            initialisers.append(b)
        for ib in initialisers:
            for g in prog.group(ib.root) if ib.name == ib.root else [ib] + [x for x in prog.bodies.values() if x.name.startswith(ib.name + '::')]:
                flds = sorted({f for _, st in g.stmts() for pl in operand_places(st) for f in pl_fields(pl) if re.search(r'optimizer::Config::', f)})
                if g.name.startswith(ib.name):
                    ctx.ob(R5, f'{ib.name}·reads-no-engine-config', not flds,
                           f'{g.name} runs once per process' + (f' and reads {flds}' if flds else ' and reads no optimizer::Config field'),
                           [g.loc],
                           what=f'{ib.name} is initialised once per process from {flds}: the engine of the first database that plans a '
                                'query fixes the rule set of every other database in the process')
    ctx.floor(R5, n_once, 2, 'once-per-process initialisers')


def _feeds_only_assert(g, bb):
    """the block's successors end in a panic on one side immediately (assert!(opts.x.is_none()))"""
    # follow up to 3 blocks: a call is_none/is_some then a switch with one diverging arm
    cur = bb
    for _ in range(4):
        t = g.blocks[cur]['term']
        if t['k'] == 'switch':
            return any(g.diverges(s) for s in g.succs[cur])
        ss = g.succs[cur]
        if len(ss) != 1:
            return False
        cur = ss[0]
    return False


def empty_chunk_rule(ctx, prog):
    """C05-R7: an empty chunk is an ordinary input of Transaction::append on both engines"""
    from tmpl import origin_locals, local_defs
    R7 = 'C05-R7'
    ctx.rule(R7, 'an operator may hand an empty chunk to INSERT (a filter that selects nothing). The in-memory engine stores it; on the disk '
                 'engine RowsetWriter::flush refuses a row-set without rows (panic "empty rowset"), so the one place that opens a mem row-set, '
                 'SecondaryTransaction::append_inner, must not open one for a chunk without rows: the creation of SecondaryMemRowsetImpl is '
                 'dominated by a test of the chunk\'s cardinality against zero')
    b = prog.body('storage::secondary::transaction::SecondaryTransaction::append_inner::{closure#0}')
    fl = next((x for n, x in prog.bodies.items() if n.endswith('rowset_writer::RowsetWriter::flush::{closure#0}')), None)
    if not (ctx.anchor(R7, 'SecondaryTransaction::append_inner', b is not None) and ctx.anchor(R7, 'RowsetWriter::flush', fl is not None)):
        return
    ctx.functions_analysed.update([b.name, fl.name])
    refuses = [c.bb for c in fl.calls if (c.fn or '').endswith('EncodedRowset::is_empty')]
    news = [c.bb for c in b.calls if (c.fn or '').endswith('SecondaryMemRowsetImpl::new')]
    if not ctx.anchor(R7, 'append_inner opens the mem row-set', news):
        return
    tests = []
    for i, bl in enumerate(b.blocks):
        t = bl['term']
        if t['k'] != 'switch' or bl['cleanup'] or t['discr']['k'] == 'const':
            continue
        src = origin_locals(b, t['discr']['pl']['l'], depth=4)
        card = any(c.dest['l'] in src and re.search(r'DataChunk::cardinality$|::is_empty$', c.fn or '') for c in b.calls)
        zero = any(kind == 'assign' and p_.get('rv') == 'binop' and p_['op'] in ('Eq', 'Ne', 'Gt', 'Lt') and
                   any(o.get('k') == 'const' and str(o.get('v', '')).startswith('0') for o in (p_['a'], p_['b']))
                   for x in src for _, kind, p_ in local_defs(b, x))
        if card and (zero or any(c.dest['l'] in src and (c.fn or '').endswith('::is_empty') for c in b.calls)):
            tests.append(i)
    ok = bool(tests) and all(b.dominated_by_any(set(tests), n) for n in news)
    ctx.ob(R7, 'SecondaryTransaction::append_inner·no-row-set-for-an-empty-chunk', ok or not refuses,
           f'RowsetWriter::flush tests EncodedRowset::is_empty at {refuses}; append_inner opens the mem row-set at {news}; tests of the '
           f'chunk\'s cardinality before that: {tests}', [site(b, n) for n in news],
           what='an empty chunk opens a row-set on the disk engine that can not be flushed: `insert into t select .. from s where false-for-all-rows` '
                'succeeds on the in-memory engine and fails on the disk engine (executor panicked: empty rowset)')
