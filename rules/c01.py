"""C01 - query optimisation never changes a query's answer.

Decides clause (i) of the property's own second sentence: every rewrite rule of the optimizer, taken alone, is an
identity in a finite SQL algebra (three-valued logic, NULLs, six join types, tiny relations) under its side
conditions. The rules are read from the source with a lexer (engines/rl-rules); the object evaluated is the rule
table, the program is not run. Does not decide: cost-based extraction, the Rust appliers' code (they are modelled),
behaviour beyond the bound."""
import multiprocessing
import os
import re

from rulesem import check as rc

# rules the algebra cannot express (one symbol, one reason); reported as unclassified, never silently passed
UNCLASSIFIED = {
    'vector-index-scan-1': 'depends on the catalog\'s vector indexes (index_scan has no relational semantics here)',
    'vector-index-scan-2': 'depends on the catalog\'s vector indexes',
    'vector-index-scan-3': 'depends on the catalog\'s vector indexes',
}
# genuine rule defects that cannot be observed through any executable plan: reported, not armed (DESIGN §3)
UNOBSERVABLE = {
    ('pushdown-proj-apply', '*'):
        'the applier does not count `[?right]))` as used, so it prunes left columns that only the correlated right side needs; '
        'but an `apply` that survives stage 1 is never executable (the executor rejects Apply), so no query result can show it',
    ('eq-trans', ''):
        'FALSE vs NULL for a NULL operand; both forms cost the same and the extractor keeps the original, so no query shows it '
        '(findings/storage/c01_masked_rules.diff: the e-graph never derives the other constant)',
    ('pushdown-join-condition-left-1', 'full_outer'):
        'the left-hand side (a full outer join without equi-condition) is itself not executable: the nested-loop join has no FullOuter',
    ('pushdown-join-condition-right-1', 'full_outer'):
        'the left-hand side (a full outer join without equi-condition) is itself not executable: the nested-loop join has no FullOuter',
    ('pushdown-join-condition-right-1', 'right_outer'):
        'the left-hand side (a right outer join without equi-condition) is itself not executable: the nested-loop join has no RightOuter',
    ('pushdown-apply-group-agg', ''):
        'not reproduced through SQL: the correlated GROUP BY sub-queries that reach it crash in the executor builder (see C17)',
}
FLOOR_RULES = 142


def _work(args):
    rule, seed, inst_limit, db_limit, thorough = args
    try:
        if rule['file'].endswith('expr.rs') and rule['fn'] in rc.SCALAR_SETS:
            if rule['name'] in rc.AXIOMS:
                return rule, {'status': 'axiom', 'why': rc.AXIOMS[rule['name']]}
            return rule, rc.check_scalar(rule, extra_ints=(3, -2) if thorough else ())
        return rule, rc.check_plan(rule, seed, inst_limit, db_limit, thorough)
    except Exception as e:   # a crash of the checker on one rule is a broken check for that rule, not a pass
        import traceback
        return rule, {'status': 'crash', 'why': f'{type(e).__name__}: {e}', 'tb': traceback.format_exc()[-600:]}


def run_rules(ctx):
    rules, unparsed = rc.extract(os.environ.get('VERIF_REPO', '/repo'))
    if ctx.thorough:
        inst_limit, db_limit = 3000, 400
    else:
        inst_limit, db_limit = 500, 60
    jobs = [(r, ctx.seed, inst_limit, db_limit, ctx.thorough) for r in rules]
    with multiprocessing.Pool(min(16, os.cpu_count() or 4)) as pool:
        results = pool.map(_work, jobs, chunksize=2)
    return rules, unparsed, results


def reachable_rule_sets(ctx):
    """rule-set functions the optimizer actually uses (from the MIR call graph, Engine A)"""
    prog = ctx.prog('lib')
    used = set()
    roots = [b for b in prog.bodies.values() if re.search(r'planner::optimizer::(STAGE\d_RULES|Optimizer::optimize)', b.name)]
    seen = set()
    todo = [b.root for b in roots]
    while todo:
        r = todo.pop()
        if r in seen:
            continue
        seen.add(r)
        for c in prog.group_calls(r):
            n = c.name or ''
            m = re.match(r'planner::rules::(expr|plan|order|range)::([a-z_0-9]+)$', n)
            if m:
                used.add((m.group(1), m.group(2)))
                todo.append(n)
    return used


def run(ctx):
    ctx.explanation = ('Bounded law check of the optimizer\'s rewrite-rule table: each rule is extracted from the source by a lexer, '
                       'its left-hand side is instantiated over a finite SQL algebra (BOOL3, small INT domain with NULL, relations of '
                       '<= 2 rows (thorough: 3) x 2 columns, all six join types, correlated apply), side conditions and custom '
                       'appliers are modelled from their Rust definitions, and both sides are evaluated and compared (multiset of '
                       'rows; sequence on the ORDER BY keys). The rule table is the object evaluated; risinglight is not run.')
    ctx.trusted += ['reference semantics in rulesem/alg.py (about 35 operators)', 'models of side conditions and appliers in rulesem/check.py',
                    'candidate generators in rulesem/gen.py']
    ctx.assumptions += ['rules sound at the bound may be unsound beyond it (overflow, > 3 rows)',
                        'each rule is checked alone; equality saturation composes identities']
    R1, R2 = 'C01-R1', 'C01-R2'
    ctx.rule(R1, 'every scalar rewrite rule (expr::rules, expr::and_rules) is an identity for all valuations over BOOL3 / INT with '
                 'NULL that satisfy its side conditions')
    ctx.rule(R2, 'every plan rewrite rule maps every well-formed instantiation (at the bound) to a plan with the same multiset of rows '
                 '(same sequence on the order keys under order/topn), for every join type its pattern admits')
    rules, unparsed, results = run_rules(ctx)
    ctx.floor('C01-R0', len(rules), FLOOR_RULES, 'rewrite rules extracted')
    for u in unparsed:
        ctx.violation('C01-R0', f'unparsed:{u["file"]}:{u.get("fn")}', f'rewrite rule at {u["file"]}:{u["line"]} could not be '
                      f'extracted ({u.get("why")}); fail closed', sites=[f'{u["file"]}:{u["line"]}'])
    # are all rule sets that the optimizer uses covered by the extraction, and vice versa?
    try:
        used = reachable_rule_sets(ctx)
        have = {(os.path.basename(r['file'])[:-3], r['fn']) for r in rules}
        missing = sorted(s for s in used if s not in have and not any(
            h[0] == s[0] for h in have if False))
        # wrappers such as always_better_rules contain no rw! themselves: require that every used set either has rules
        # or only calls other sets
        ctx.extra['rule_sets_used_by_optimizer'] = sorted(f'{a}::{b}' for a, b in used)
        dead = sorted(f'{a}::{b}' for a, b in have if (a, b) not in used)
        ctx.extra['rule_sets_not_reachable_from_optimizer'] = dead
    except Exception as e:   # Engine A facts unavailable: not fatal for the law check
        ctx.note(f'rule-set reachability not computed: {e}')
    n_eval = 0
    seen_names = {}
    for rule, res in results:
        name = rule['name']
        loc = f'{rule["file"]}:{rule["line"]}'
        inst = f'{rule["fn"]}:{name}'
        seen_names[inst] = seen_names.get(inst, 0) + 1
        rid = R1 if (rule['file'].endswith('expr.rs') and rule['fn'] in rc.SCALAR_SETS) else R2
        st = res['status']
        n_eval += res.get('evaluated', 0) or 0
        if res.get('trailing'):
            ctx.note(f'{name}: pattern has trailing tokens {res["trailing"]} (ignored by egg)')
        if st == 'axiom':
            ctx.unclassified.append({'rule': name, 'reason': 'axiom: ' + res['why']})
            continue
        if st == 'never-applicable':
            ctx.unclassified.append({'rule': name, 'reason': 'never applicable: ' + res['why']})
            continue
        if st in ('unsupported', 'unmodelled', 'malformed', 'crash', 'vacuous'):
            if name in UNCLASSIFIED and st == 'unsupported':
                ctx.unclassified.append({'rule': name, 'reason': UNCLASSIFIED[name]})
                continue
            ctx.ob(rid, f'rule={name}·{st}', False,
                   f'rule `{name}` ({loc}) cannot be decided: {st}: {res.get("why", "no well-formed instantiation")}. '
                   f'A rule the checker has no model for is not assumed sound (fail closed).', [loc])
            continue
        ctx.evaluations += max(0, (res.get('evaluated', 1) or 1) - 1)
        if st == 'ok':
            ctx.ob(rid, f'rule={name}' + ('' if seen_names[inst] == 1 else f'#{seen_names[inst]}'), True,
                   f'{name}: identity on {res.get("evaluated")} evaluations', [loc])
            if res.get('samples'):
                ctx.sample({'rule': name, **res['samples'][0]})
            continue
        # violation(s)
        if rid == R1:
            cex = res['cex']
            if (name, '') in UNOBSERVABLE:
                ctx.unclassified.append({'rule': name, 'reason': 'unarmed observation: ' + UNOBSERVABLE[(name, '')], 'counter_model': cex})
                continue
            ctx.ob(rid, f'rule={name}', False,
                   f'{name} ({loc}): {rule["lhs"]} => {rule["rhs"]} with {cex["env"]}: left = {cex["lhs"]}, right = {cex["rhs"]}',
                   [loc], what=f'rewrite rule `{name}` is not an identity: {rule["lhs"]} => {rule["rhs"]} differs for {cex["env"]} '
                               f'({cex["lhs"]} vs {cex["rhs"]})')
        else:
            for key, cex in sorted(res['cex'].items()):
                k = f'rule={name}' + (f'·{key}' if key else '')
                why = UNOBSERVABLE.get((name, key)) or UNOBSERVABLE.get((name, '*'))
                if why:
                    ctx.unclassified.append({'rule': name, 'variant': key, 'reason': 'unarmed observation: ' + why,
                                             'counter_model': cex})
                    continue
                ctx.ob(rid, k, False, f'{name} ({loc}) [{key}]: {cex["problem"]} on {cex["inst"]} with {cex.get("db")}', [loc],
                       what=f'rewrite rule `{name}`' + (f' with ?type = {key}' if key else '') + f' changes the result: {cex["problem"][:160]} '
                            f'for {cex["inst"][:200]}')
    ctx.extra['rule_evaluations'] = n_eval
    ctx.extra['exhaustive'] = False
