"""C01 - query optimisation never changes a query's answer.

Decides clause (i) of the property's own second sentence: every rewrite rule of the optimizer, taken alone, is an
identity in a finite SQL algebra (three-valued logic, NULLs, six join types, tiny relations) under its side
conditions. The rules are read from the source with a lexer (engines/rl-rules); the object evaluated is the rule
table, the program is not run. Does not decide: cost-based extraction, the Rust appliers' code (they are modelled),
behaviour beyond the bound."""
import multiprocessing
import os
import re

from rulesem import check as rc

# rules the algebra cannot express (one symbol, one reason); reported as unclassified, never silently passed
UNCLASSIFIED = {
    'vector-index-scan-1': 'depends on the catalog\'s vector indexes (index_scan has no relational semantics here)',
    'vector-index-scan-2': 'depends on the catalog\'s vector indexes',
    'vector-index-scan-3': 'depends on the catalog\'s vector indexes',
}
# genuine rule defects that cannot be observed through any executable plan: reported, not armed (DESIGN §3)
UNOBSERVABLE = {
    ('pushdown-proj-apply', '*'):
        'the applier does not count `[?right]))` as used, so it prunes left columns that only the correlated right side needs; '
        'but an `apply` that survives stage 1 is never executable (the executor rejects Apply), so no query result can show it',
    ('eq-trans', ''):
        'FALSE vs NULL for a NULL operand; both forms cost the same and the extractor keeps the original, so no query shows it '
        '(findings/storage/c01_masked_rules.diff: the e-graph never derives the other constant)',
    ('pushdown-join-condition-left-1', 'full_outer'):
        'the left-hand side (a full outer join without equi-condition) is itself not executable: the nested-loop join has no FullOuter',
    ('pushdown-join-condition-right-1', 'full_outer'):
        'the left-hand side (a full outer join without equi-condition) is itself not executable: the nested-loop join has no FullOuter',
    ('pushdown-join-condition-right-1', 'right_outer'):
        'the left-hand side (a right outer join without equi-condition) is itself not executable: the nested-loop join has no RightOuter',
    ('pushdown-apply-group-agg', ''):
        'not reproduced through SQL: the correlated GROUP BY sub-queries that reach it crash in the executor builder (see C17)',
}
FLOOR_RULES = 142


def _work(args):
    rule, seed, inst_limit, db_limit, thorough = args
    try:
        if rule['file'].endswith('expr.rs') and rule['fn'] in rc.SCALAR_SETS:
            if rule['name'] in rc.AXIOMS:
                return rule, {'status': 'axiom', 'why': rc.AXIOMS[rule['name']]}
            return rule, rc.check_scalar(rule, extra_ints=(3, -2) if thorough else ())
        return rule, rc.check_plan(rule, seed, inst_limit, db_limit, thorough)
    except Exception as e:   # a crash of the checker on one rule is a broken check for that rule, not a pass
        import traceback
        return rule, {'status': 'crash', 'why': f'{type(e).__name__}: {e}', 'tb': traceback.format_exc()[-600:]}


def run_rules(ctx):
    rules, unparsed = rc.extract(os.environ.get('VERIF_REPO', '/repo'))
    if ctx.thorough:
        inst_limit, db_limit = 3000, 400
    else:
        inst_limit, db_limit = 500, 60
    jobs = [(r, ctx.seed, inst_limit, db_limit, ctx.thorough) for r in rules]
    with multiprocessing.Pool(min(16, os.cpu_count() or 4)) as pool:
        results = pool.map(_work, jobs, chunksize=2)
    return rules, unparsed, results


def reachable_rule_sets(ctx):
    """rule-set functions the optimizer actually uses (from the MIR call graph, Engine A)"""
    prog = ctx.prog('lib')
    used = set()
    roots = [b for b in prog.bodies.values() if re.search(r'planner::optimizer::(STAGE\d_RULES|Optimizer::optimize)', b.name)]
    seen = set()
    todo = [b.root for b in roots]
    while todo:
        r = todo.pop()
        if r in seen:
            continue
        seen.add(r)
        for c in prog.group_calls(r):
            n = c.name or ''
            m = re.match(r'planner::rules::(expr|plan|order|range)::([a-z_0-9]+)$', n)
            if m:
                used.add((m.group(1), m.group(2)))
                todo.append(n)
    return used


def run(ctx):
    ctx.explanation = ('Bounded law check of the optimizer\'s rewrite-rule table: each rule is extracted from the source by a lexer, '
                       'its left-hand side is instantiated over a finite SQL algebra (BOOL3, small INT domain with NULL, relations of '
                       '<= 2 rows (thorough: 3) x 2 columns, all six join types, correlated apply), side conditions and custom '
                       'appliers are modelled from their Rust definitions, and both sides are evaluated and compared (multiset of '
                       'rows; sequence on the ORDER BY keys). The rule table is the object evaluated; risinglight is not run.')
    ctx.trusted += ['reference semantics in rulesem/alg.py (about 35 operators)', 'models of side conditions and appliers in rulesem/check.py',
                    'candidate generators in rulesem/gen.py']
    ctx.assumptions += ['rules sound at the bound may be unsound beyond it (overflow, > 3 rows)',
                        'each rule is checked alone; equality saturation composes identities']
    R1, R2 = 'C01-R1', 'C01-R2'
    ctx.rule(R1, 'every scalar rewrite rule (expr::rules, expr::and_rules) is an identity for all valuations over BOOL3 / INT with '
                 'NULL that satisfy its side conditions')
    ctx.rule(R2, 'every plan rewrite rule maps every well-formed instantiation (at the bound) to a plan with the same multiset of rows '
                 '(same sequence on the order keys under order/topn), for every join type its pattern admits')
    rules, unparsed, results = run_rules(ctx)
    ctx.floor('C01-R0', len(rules), FLOOR_RULES, 'rewrite rules extracted')
    for u in unparsed:
        ctx.violation('C01-R0', f'unparsed:{u["file"]}:{u.get("fn")}', f'rewrite rule at {u["file"]}:{u["line"]} could not be '
                      f'extracted ({u.get("why")}); fail closed', sites=[f'{u["file"]}:{u["line"]}'])
    # are all rule sets that the optimizer uses covered by the extraction, and vice versa?
    try:
        used = reachable_rule_sets(ctx)
        have = {(os.path.basename(r['file'])[:-3], r['fn']) for r in rules}
        missing = sorted(s for s in used if s not in have and not any(
            h[0] == s[0] for h in have if False))
        # wrappers such as always_better_rules contain no rw! themselves: require that every used set either has rules
        # or only calls other sets
        ctx.extra['rule_sets_used_by_optimizer'] = sorted(f'{a}::{b}' for a, b in used)
        dead = sorted(f'{a}::{b}' for a, b in have if (a, b) not in used)
        ctx.extra['rule_sets_not_reachable_from_optimizer'] = dead
    except Exception as e:   # Engine A facts unavailable: not fatal for the law check
        ctx.note(f'rule-set reachability not computed: {e}')
    n_eval = 0
    seen_names = {}
    for rule, res in results:
        name = rule['name']
        loc = f'{rule["file"]}:{rule["line"]}'
        inst = f'{rule["fn"]}:{name}'
        seen_names[inst] = seen_names.get(inst, 0) + 1
        rid = R1 if (rule['file'].endswith('expr.rs') and rule['fn'] in rc.SCALAR_SETS) else R2
        st = res['status']
        n_eval += res.get('evaluated', 0) or 0
        if res.get('trailing'):
            ctx.note(f'{name}: pattern has trailing tokens {res["trailing"]} (ignored by egg)')
        if st == 'axiom':
            ctx.unclassified.append({'rule': name, 'reason': 'axiom: ' + res['why']})
            continue
        if st == 'never-applicable':
            ctx.unclassified.append({'rule': name, 'reason': 'never applicable: ' + res['why']})
            continue
        if st in ('unsupported', 'unmodelled', 'malformed', 'crash', 'vacuous'):
            if name in UNCLASSIFIED and st == 'unsupported':
                ctx.unclassified.append({'rule': name, 'reason': UNCLASSIFIED[name]})
                continue
            ctx.ob(rid, f'rule={name}·{st}', False,
                   f'rule `{name}` ({loc}) cannot be decided: {st}: {res.get("why", "no well-formed instantiation")}. '
                   f'A rule the checker has no model for is not assumed sound (fail closed).', [loc])
            continue
        ctx.evaluations += max(0, (res.get('evaluated', 1) or 1) - 1)
        if st == 'ok':
            ctx.ob(rid, f'rule={name}' + ('' if seen_names[inst] == 1 else f'#{seen_names[inst]}'), True,
                   f'{name}: identity on {res.get("evaluated")} evaluations', [loc])
            if res.get('samples'):
                ctx.sample({'rule': name, **res['samples'][0]})
            continue
        # violation(s)
        if rid == R1:
            cex = res['cex']
            if (name, '') in UNOBSERVABLE:
                ctx.unclassified.append({'rule': name, 'reason': 'unarmed observation: ' + UNOBSERVABLE[(name, '')], 'counter_model': cex})
                continue
            ctx.ob(rid, f'rule={name}', False,
                   f'{name} ({loc}): {rule["lhs"]} => {rule["rhs"]} with {cex["env"]}: left = {cex["lhs"]}, right = {cex["rhs"]}',
                   [loc], what=f'rewrite rule `{name}` is not an identity: {rule["lhs"]} => {rule["rhs"]} differs for {cex["env"]} '
                               f'({cex["lhs"]} vs {cex["rhs"]})')
        else:
            for key, cex in sorted(res['cex'].items()):
                k = f'rule={name}' + (f'·{key}' if key else '')
                why = UNOBSERVABLE.get((name, key)) or UNOBSERVABLE.get((name, '*'))
                if why:
                    ctx.unclassified.append({'rule': name, 'variant': key, 'reason': 'unarmed observation: ' + why,
                                             'counter_model': cex})
                    continue
                ctx.ob(rid, k, False, f'{name} ({loc}) [{key}]: {cex["problem"]} on {cex["inst"]} with {cex.get("db")}', [loc],
                       what=f'rewrite rule `{name}`' + (f' with ?type = {key}' if key else '') + f' changes the result: {cex["problem"][:160]} '
                            f'for {cex["inst"][:200]}')
    ctx.extra['rule_evaluations'] = n_eval
    ctx.extra['exhaustive'] = False
    try:
        model_assumptions(ctx)
    except SystemExit as e:
        ctx.ob('C01-R3', 'facts', False, f'type-checked facts unavailable, the models of the side conditions cannot be tied to the code: {e}')


def model_assumptions(ctx):
    """C01-R3: the side conditions modelled in rulesem/check.py (trusted base of R1) are what the Rust code does. Decided on the
    type-checked program (Engine A), so that a change of a condition function cannot silently invalidate the law check."""
    R3 = 'C01-R3'
    prog = ctx.prog('lib')
    E = 'planner::rules::expr::'
    # analyses that feed the rules (ranges, constants) order DataValues only at confirmed places (after seed C01-e)
    from rules.c14_types import datavalue_order_users
    datavalue_order_users(ctx, prog, 'C01-R4')
    ctx.rule(R3, 'the scalar side conditions are what the law check models: value_cmp calls its comparison only when both constants '
                 'have the same DataValue variant (mem::discriminant equality dominates the call); is_greater_than_or_equal / '
                 'is_greater_than / is_less_than_or_equal / is_less_than pass ge / gt / le / lt to it, operands in order; is_not_zero is '
                 '`!is_zero` on a known constant')
    vc = prog.body(E + 'value_cmp::{closure#0}')
    if ctx.anchor(R3, E + 'value_cmp::{closure#0}', vc is not None):
        ctx.functions_analysed.add(vc.name)
        disc = [c for c in vc.calls if (c.fn or '') == 'std::mem::discriminant']
        eq = [c for c in vc.calls if (c.fn or '').endswith('PartialEq::eq') and 'Discriminant' in ' '.join(c.t.get('gargs', []) + [c.res or ''])]
        fcall = [c for c in vc.calls if (c.fn or '').endswith('ops::Fn::call')]
        ok = False
        if len(disc) == 2 and eq and fcall:
            # the true arm of the switch on the equality result dominates the call of `f`
            for i, bl in enumerate(vc.blocks):
                t = bl['term']
                if t['k'] == 'switch' and t['discr']['k'] != 'const' and t['discr']['pl']['l'] == eq[0].dest['l']:
                    false_t = {tgt for v, tgt in t['targets'] if v == '0'}
                    true_t = t.get('otherwise')
                    if true_t is not None and all(vc.dominates(true_t, c.bb) for c in fcall) and \
                            not (set(c.bb for c in fcall) & vc.reachable_from(list(false_t), avoid={true_t})):
                        ok = True
        ctx.ob(R3, 'value_cmp·same-variant-only', ok,
               f'value_cmp: discriminant reads {len(disc)}, Discriminant equality {len(eq)}, calls of f {len(fcall)}; f must run only under '
               'equal discriminants (DataValue derives a cross-variant order: Int32(3) < Decimal(2.5))', [vc.loc],
               what='value_cmp compares constants of different DataValue variants: the fold rules (and-*-fold, and-gt-lt-conflict) then '
                    'order an INT against a DECIMAL/BIGINT literal by variant position and drop the wrong bound')
    WANT = {'is_greater_than_or_equal': 'ge', 'is_greater_than': 'gt', 'is_less_than_or_equal': 'le', 'is_less_than': 'lt'}
    for fn, m in WANT.items():
        outer, inner = prog.body(E + fn), prog.body(E + fn + '::{closure#0}')
        if not ctx.anchor(R3, E + fn, outer is not None and inner is not None):
            continue
        ctx.functions_analysed.add(inner.name)
        cmps = [c for c in inner.calls if re.search(r'std::cmp::PartialOrd::(lt|le|gt|ge)$', c.fn or '')]
        via = any((c.fn or '') == E + 'value_cmp' for c in outer.calls)
        ok = via and len(cmps) == 1 and cmps[0].fn.endswith('::' + m) and len(inner.calls) == 1
        if ok:   # operands in order: arg0 derives from parameter 2 (d1), arg1 from parameter 3 (d2)
            from tmpl import origin_locals
            a0, a1 = cmps[0].args[0], cmps[0].args[1]
            ok = a0['k'] != 'const' and a1['k'] != 'const' and 2 in origin_locals(inner, a0['pl']['l']) and 3 in origin_locals(inner, a1['pl']['l']) \
                and 3 not in origin_locals(inner, a0['pl']['l']) and 2 not in origin_locals(inner, a1['pl']['l'])
        ctx.ob(R3, f'{fn}·is·{m}', ok, f'{fn}: goes through value_cmp: {via}; comparison calls: {[c.fn for c in cmps]}', [inner.loc],
               what=f'the side condition {fn} is no longer `d1.{m}(d2)` under value_cmp: the model used by the law check does not describe it')
    nz, nzc = prog.body(E + 'is_not_zero'), prog.body(E + 'is_not_zero::{closure#0}')
    if ctx.anchor(R3, E + 'is_not_zero', nz is not None and nzc is not None):
        via = any((c.fn or '') == E + 'value_is' for c in nz.calls)
        isz = [c for c in nzc.calls if (c.fn or '').endswith('DataValue::is_zero')]
        neg = any(st.get('rv', {}).get('rv') == 'unop' and st['rv'].get('op') == 'Not' for _, st in nzc.stmts() if st['s'] == 'assign')
        ctx.ob(R3, 'is_not_zero·is·!is_zero', via and len(isz) == 1 and len(nzc.calls) == 1 and neg,
               f'is_not_zero: through value_is: {via}; is_zero calls: {len(isz)}; negated: {neg}', [nzc.loc])
    plan_condition_assumptions(ctx, prog)
    # the order analysis behind is_orderby: modelled as "these operators hand on their child's keys unchanged"
    ao = prog.body('planner::rules::order::analyze_order')
    if ctx.anchor(R3, 'planner::rules::order::analyze_order', ao is not None):
        from rules.c12 import pass_through_arms, merge_join_types
        mj = merge_join_types(ao)
        ctx.ob(R3, 'analyze_order·MergeJoin·join-types', mj == {'Inner', 'RightOuter'},
               f'analyze_order hands on the right order of a merge join for {sorted(mj) if mj is not None else "every join type"}; the model '
               '(rulesem/alg.py orderby) does so for inner and right_outer', [ao.loc])
        for v, foreign in sorted(pass_through_arms(ao).items()):
            ctx.ob(R3, f'analyze_order·{v}·passes-keys-unchanged', not foreign,
                   f'analyze_order arm {v}: calls other than the accessor and clone: {foreign}', [ao.loc],
                   what=f'analyze_order no longer hands the key list of `{v}`\'s child on unchanged: the model of is_orderby used by the law '
                        'check (useless-order, merge-join, sort-agg) does not describe it')


def _captures(body, l, depth=14):
    """indices of the closure's captured variables (fields of *_1) from which local l derives"""
    from tmpl import origin_locals, local_defs
    from mir import operand_places
    out = set()
    for o in origin_locals(body, l, depth=depth):
        for bb, kind, payload in local_defs(body, o):
            places = operand_places(payload) if kind == 'assign' else [a['pl'] for a in payload.get('args', []) if a['k'] != 'const']
            for pl in places:
                if pl['l'] == 1:
                    out |= {int(p[2:]) for p in pl['p'] if re.match(r'^f:\d+$', p)}
    return out


def _higher_order_condition(prog, fn, test, c):
    """the three column conditions written once: `fn f(expr, plan) { column_condition(expr, plan, |used, produced| used.OP(produced)) }`.
    `test` is the little closure (already known to make the one set operation `c` with the right negation). To be shown: it applies
    the operation to its first parameter with its second as argument; f hands (expr, plan, test) to a helper in that order; and the
    closure the helper returns calls the function it was given on (columns used by expr, columns produced by plan)."""
    from tmpl import origin_locals
    if not (c.args[0]['k'] != 'const' and c.args[1]['k'] != 'const'
            and origin_locals(test, c.args[0]['pl']['l'], depth=6) & {2, 3} == {2} and origin_locals(test, c.args[1]['pl']['l'], depth=6) & {2, 3} == {3}):
        return False
    root = prog.body(fn, raw=True)
    if root is None:
        return False
    cl = {st['lhs']['l'] for _, st in root.stmts() if st['s'] == 'assign' and st['rv'].get('rv') == 'agg' and st['rv'].get('def') == test.name}
    for hc in root.calls:
        names = [n for n in prog.callee_bodies(hc) if n.startswith('planner::rules::plan::')]
        if not names or len(hc.args) < 3:
            continue
        k = [i for i, a in enumerate(hc.args) if a['k'] != 'const' and cl & origin_locals(root, a['pl']['l'], depth=4)]
        p_expr = [i for i, a in enumerate(hc.args) if a['k'] != 'const' and 1 in origin_locals(root, a['pl']['l'], depth=4)]
        p_plan = [i for i, a in enumerate(hc.args) if a['k'] != 'const' and 2 in origin_locals(root, a['pl']['l'], depth=4)]
        if len(k) != 1 or len(p_expr) != 1 or len(p_plan) != 1:
            continue
        H = prog.body(names[0], raw=True)
        drv = prog.body(names[0] + '::{closure#0}', raw=True)
        if H is None or drv is None:
            continue
        packed = next((st['rv']['ops'] for _, st in H.stmts() if st['s'] == 'assign' and st['rv'].get('rv') == 'agg' and st['rv'].get('def') == drv.name), None)
        if packed is None:
            continue

        def cap_of(param):      # the capture of the returned closure that is fed from parameter `param` of the helper
            return {j for j, o in enumerate(packed) if o['k'] != 'const' and (param + 1) in origin_locals(H, o['pl']['l'], depth=6)}
        ce, cp, ct = cap_of(p_expr[0]), cap_of(p_plan[0]), cap_of(k[0])
        ind = [x for x in drv.calls if x.t.get('func') and x.t['func']['k'] != 'const']
        prod = [x for x in drv.calls if (x.fn or '') == 'planner::rules::plan::produced']
        if len(ind) != 1 or len(prod) != 1 or len(ce) != 1 or len(cp) != 1 or len(ct) != 1 or len(ind[0].args) != 2:
            continue
        x = ind[0]
        if _captures(drv, x.t['func']['pl']['l']) == ct and _captures(drv, x.args[0]['pl']['l']) == ce \
                and cp <= _captures(drv, x.args[1]['pl']['l']) and not (ce & _captures(drv, x.args[1]['pl']['l'])) \
                and _captures(drv, prod[0].args[1]['pl']['l']) == cp:
            return True
    return False


def _match_true_variants(body):
    """variants of planner::Expr for which a `matches!` closure returns true"""
    out = set()
    for bl in body.blocks:
        t = bl['term']
        if t['k'] == 'switch' and t.get('adt') == 'planner::Expr':
            names = t.get('variants', {})
            for v, tgt in t['targets']:
                if tgt != t.get('otherwise'):
                    out.add(names.get(str(v), str(v)))
    return out


def plan_condition_assumptions(ctx, prog):
    """second half of C01-R3: the plan-level side conditions"""
    R3 = 'C01-R3'
    P = 'planner::rules::'

    def has_not(b):
        return any(st['s'] == 'assign' and st.get('rv', {}).get('rv') == 'unop' and st['rv'].get('op') == 'Not' for _, st in b.stmts())

    def one_call(b, pat):
        cs = [c for c in b.calls if re.search(pat, c.fn or '')]
        return cs[0] if len(cs) == 1 else None
    SETS = {'plan::not_depend_on': (r'(Hash|BTree)Set::<.*>::is_disjoint$', False), 'plan::depend_on': (r'(Hash|BTree)Set::<.*>::is_disjoint$', True),
            'plan::all_depend_on': (r'(Hash|BTree)Set::<.*>::is_subset$', False)}
    for fn, (pat, neg) in SETS.items():
        b = prog.body(P + fn + '::{closure#0}')
        if not ctx.anchor(R3, P + fn, b is not None):
            continue
        ctx.functions_analysed.add(b.name)
        c = one_call(b, pat)
        prod = [x for x in b.calls if (x.fn or '') == P + 'plan::produced']
        ok = c is not None and has_not(b) == neg and len(prod) == 1
        if ok:   # receiver = columns used by capture 0 (the expression); argument = columns produced by capture 1 (the plan)
            ok = _captures(b, c.args[0]['pl']['l']) == {0} and 1 in _captures(b, c.args[1]['pl']['l']) and \
                _captures(b, prod[0].args[1]['pl']['l']) == {1}
        elif c is not None and has_not(b) == neg and not prod:
            ok = _higher_order_condition(prog, P + fn, b, c)
        ctx.ob(R3, f'{fn.split("::")[1]}·shape', bool(ok),
               f'{fn}: expected `{"!" if neg else ""}used(expr).{pat.split("::")[-1].rstrip("$")}(produced(plan))`', [b.loc],
               what=f'the side condition {fn} no longer has the shape the law check models; every rule guarded by it is checked against a '
                    'wrong condition')
    b = prog.body(P + 'plan::is_not_list::{closure#0}::{closure#0}')
    o = prog.body(P + 'plan::is_not_list::{closure#0}')
    if ctx.anchor(R3, P + 'plan::is_not_list', b is not None and o is not None):
        ctx.ob(R3, 'is_not_list·shape', _match_true_variants(b) == {'List'} and has_not(o), f'is_not_list matches {sorted(_match_true_variants(b))}', [b.loc])
    b = prog.body(P + 'order::is_merge_join_type::{closure#0}::{closure#0}')
    if ctx.anchor(R3, P + 'order::is_merge_join_type', b is not None):
        got = _match_true_variants(b)
        ctx.ob(R3, 'is_merge_join_type·set', got == {'Inner', 'LeftOuter', 'RightOuter', 'FullOuter'},
               f'is_merge_join_type accepts {sorted(got)}; the model accepts inner, left_outer, right_outer, full_outer', [b.loc])
    b = prog.body(P + 'order::is_orderby::{closure#0}')
    if ctx.anchor(R3, P + 'order::is_orderby', b is not None):
        c = one_call(b, r'starts_with$')
        ok = c is not None and not has_not(b) and _captures(b, c.args[0]['pl']['l']) == {1} and _captures(b, c.args[1]['pl']['l']) == {0}
        ctx.ob(R3, 'is_orderby·shape', bool(ok), 'is_orderby: expected `orderby(plan).starts_with(orderby(keys))`', [b.loc],
               what='is_orderby no longer tests that the plan\'s order starts with the requested keys (operands swapped or negated): '
                    'useless-order / merge-join / sort-agg are checked against a wrong condition')
    b = prog.body(P + 'schema::schema_is_eq::{closure#0}')
    if ctx.anchor(R3, P + 'schema::schema_is_eq', b is not None):
        c = one_call(b, r'PartialEq::eq$')
        ok = c is not None and not has_not(b) and _captures(b, c.args[0]['pl']['l']) | _captures(b, c.args[1]['pl']['l']) == {0, 1}
        ctx.ob(R3, 'schema_is_eq·shape', bool(ok), 'schema_is_eq: expected `schema(v1) == schema(v2)`', [b.loc])
