"""C08 - readers see a stable snapshot and their files are never removed.

Decides: (R1) who may unlink row-set directories and from which list; (R2) every transaction is
constructed under a pin that lives as long as the transaction and reads the pinned snapshot;
(R3) vacuum consults the pins (ref_cnt) and compares epochs before removing; (R4) publish after
persist; (R5) deferred physical deletions are registered under the epoch that first lacks them.
Does not decide: the direction/off-by-one of the epoch comparison (value level) beyond R5."""
import re

from tmpl import site, start_sites, done_sites, suffix, flows_from, pl_fields, local_defs, operand_places, origin_locals

SEC = 'storage::secondary::'
START = SEC + 'transaction::SecondaryTransaction::start::{closure#0}'
TXN = SEC + 'transaction::SecondaryTransaction'
VACUUM = SEC + 'version_manager::VersionManager::do_vacuum::{closure#0}'
FIND = SEC + 'version_manager::VersionManager::find_vacuum'
CCWCM = SEC + 'version_manager::VersionManager::commit_changes_with_custom_manifest::{closure#0}'
BOOT = SEC + 'storage::<impl storage::secondary::SecondaryStorage>::bootstrap'
INNER = SEC + 'version_manager::VersionManagerInner'


def run(ctx):
    prog = ctx.prog('all' if ctx.thorough else 'lib')
    ctx.extra['facts_key'] = prog.key
    ctx.explanation = ('T-who / T-order / T-use rules on the version manager and the transaction constructor: only vacuum '
                       '(from the list find_vacuum computed under the pins) and bootstrap unlink row-set directories; every '
                       'SecondaryTransaction is built under a pin it keeps for life; snapshots are published after the '
                       'manifest append; deletions are keyed by the post-commit epoch.')
    ctx.trusted += ['rustc MIR facts', 'field names of VersionManagerInner / SecondaryTransaction']
    ctx.assumptions += ['Version::drop is the only unpin (RAII)']

    R1 = 'C08-R1'
    ctx.rule(R1, 'remove_dir_all is called only by VersionManager::do_vacuum (on paths derived from find_vacuum) and by bootstrap')
    rm = prog.calls_matching_all(re.compile(r'(tokio|std)::fs::(remove_dir_all|remove_dir|remove_file)$'))
    ctx.floor(R1, len(rm), 2, 'directory/file removal call sites')
    for c in rm:
        ok = prog.owned_by(c.body.root, {SEC + 'version_manager::VersionManager::do_vacuum', BOOT})
        ctx.ob(R1, f'who:{c.body.root}→{(c.fn or "").rsplit("::", 1)[-1]}', ok,
               f'`{c.fn}` called from {c.body.name}' + ('' if ok else ': storage files may only be unlinked by vacuum/bootstrap'),
               [site(c.body, c.bb)])
    b = prog.body(VACUUM)
    if ctx.anchor(R1, VACUUM, b is not None):
        ctx.functions_analysed.add(b.name)
        fv = done_sites(prog, b, 'VersionManager::find_vacuum')
        rms = start_sites(prog, b, 'tokio::fs::remove_dir_all')
        ok = bool(fv) and all(b.dominated_by_any(set(fv), r) for r in rms)
        ctx.ob(R1, 'do_vacuum·find_vacuum≺remove', ok,
               f'do_vacuum: remove_dir_all (blocks {rms}) must be dominated by find_vacuum (blocks {fv})',
               [site(b, x) for x in rms])
        # the removed path derives from the deletions list
        for c in b.calls:
            if (c.fn or '').endswith('fs::remove_dir_all') and c.args and c.args[0]['k'] != 'const':
                # path <- join(format!(table_id, rowset_id)) ; ids come from the iterator over `deletions`
                def from_fv(kind, payload, bb):
                    return kind == 'call' and ((payload.get('fn') or '').endswith('Future::poll') and
                                               'find_vacuum' in (payload.get('res') or ''))
                ok = flows_from(b, c.args[0]['pl']['l'], from_fv, depth=25)
                ctx.ob(R1, 'do_vacuum·path-from-find_vacuum', ok,
                       'the path handed to remove_dir_all must be built from the (table, rowset) pairs find_vacuum returned',
                       [site(b, c.bb)])

    R2 = 'C08-R2'
    ctx.rule(R2, 'SecondaryTransaction is constructed only in start(), under VersionManager::pin; its _pin_version field '
                 'holds that pin and is never overwritten or moved out; its snapshot is the pinned one')
    builders = [(bd, bb, st) for bd in prog.bodies.values() for bb, st in bd.aggregates(TXN)]
    ctx.floor(R2, len(builders), 1, 'constructions of SecondaryTransaction')
    for bd, bb, st in builders:
        ctx.functions_analysed.add(bd.name)
        ok = bd.name == START
        ctx.ob(R2, f'who:{bd.root}→SecondaryTransaction{{..}}', ok,
               f'SecondaryTransaction constructed in {bd.name}' + ('' if ok else ' (only start() may build one: it pins)'),
               [site(bd, bb)])
        pins = done_sites(prog, bd, 'VersionManager::pin')
        ctx.ob(R2, f'{bd.root}·pin≺construct', bool(pins) and bd.dominated_by_any(set(pins), bb),
               f'construction (block {bb}) must be dominated by VersionManager::pin (blocks {pins})', [site(bd, bb)])
        rv = st['rv']
        fields = rv['fields']

        def is_pin(kind, payload, bb_):
            return kind == 'call' and (payload.get('fn') or '').endswith('VersionManager::pin')
        for fname in ('_pin_version', 'snapshot'):
            if not ctx.anchor(R2, f'SecondaryTransaction::{fname}', fname in fields):
                continue
            op = rv['ops'][fields.index(fname)]
            ok = op['k'] != 'const' and flows_from(bd, op['pl']['l'], is_pin, depth=12)
            ctx.ob(R2, f'{bd.root}·field:{fname}←pin', ok,
                   f'field `{fname}` of the transaction must be fed from the result of VersionManager::pin', [site(bd, bb)])
    # the pin field is never written / moved out elsewhere
    writes = []
    for bd in prog.bodies.values():
        if not bd.name.startswith('storage::') and not bd.name.startswith('<storage::'):
            continue
        for bb, st in bd.stmts():
            if any(f == TXN + '::_pin_version' for f in pl_fields(st['lhs'])):
                writes.append((bd, bb, 'write'))
            rvv = st.get('rv', {})
            if rvv.get('rv') == 'use' and rvv['op']['k'] == 'move' and \
                    any(f == TXN + '::_pin_version' for f in pl_fields(rvv['op']['pl'])):
                writes.append((bd, bb, 'move-out'))
        for c in bd.calls:
            for a in c.args:
                if a['k'] == 'move' and any(f == TXN + '::_pin_version' for f in pl_fields(a['pl'])):
                    writes.append((bd, c.bb, 'move-out'))
    ctx.ob(R2, 'SecondaryTransaction::_pin_version·never-rewritten', not writes,
           f'writes / moves of the pin field outside the constructor: {[(w[0].name, w[2]) for w in writes]}',
           [site(w[0], w[1]) for w in writes])

    R3 = 'C08-R3'
    ctx.rule(R3, 'find_vacuum reads ref_cnt (the pins) and compares each pending deletion\'s epoch against it before '
                 'removing row-sets from the pool')
    grp = prog.group(FIND)
    if ctx.anchor(R3, FIND, bool(grp)):
        reads_ref = any(any(f == INNER + '::ref_cnt' for p in _places(g) for f in pl_fields(p)) for g in grp)
        cmp_ = [(g, i) for g in grp for i, st in g.stmts() if st.get('rv', {}).get('rv') == 'binop' and
                st['rv']['op'] in ('Le', 'Lt', 'Ge', 'Gt') and st['rv']['ty'] == 'u64']
        touches = any(any(f == INNER + '::rowset_deletion_to_apply' for p in _places(g) for f in pl_fields(p)) for g in grp)
        ctx.ob(R3, 'find_vacuum·reads-ref_cnt', reads_ref, 'find_vacuum must read VersionManagerInner::ref_cnt')
        ctx.ob(R3, 'find_vacuum·epoch-comparison', bool(cmp_), f'an ordered u64 comparison of epochs must exist ({len(cmp_)} found)')
        ctx.ob(R3, 'find_vacuum·pending-deletions', touches, 'find_vacuum must take its candidates from rowset_deletion_to_apply')
        # the horizon is the minimum over ALL pins: Iterator::min (or BTreeMap::first_key_value) applied to ref_cnt's keys with no
        # adaptor in between that could leave a pinned epoch out (filter, skip, take, range, rev+next ...)
        ALLOWED_CHAIN = re.compile(r'(HashMap|BTreeMap)::<.*>::(keys|iter)$|IntoIterator::into_iter$|Iterator::(copied|cloned|min)$|'
                                   r'Deref::deref$|DerefMut::deref_mut$|Mutex::<.*>::lock$|first_key_value$')
        mins = [(g, c) for g in grp for c in g.calls if re.search(r'Iterator::min$|BTreeMap::<.*>::first_key_value$', c.fn or '')]
        if ctx.anchor(R3, 'find_vacuum:minimum-of-pins', mins):
            for g, c in mins:
                chain, todo, seen_l = [], [a['pl']['l'] for a in c.args if a['k'] != 'const'], set()
                while todo:
                    l = todo.pop()
                    if l in seen_l:
                        continue
                    seen_l.add(l)
                    for bb, kind, payload in local_defs(g, l):
                        if kind == 'call':
                            chain.append(payload.get('fn') or '?')
                            todo += [a['pl']['l'] for a in payload.get('args', []) if a['k'] != 'const']
                        else:
                            todo += [p['l'] for p in operand_places(payload)]
                bad = sorted({n for n in chain if not ALLOWED_CHAIN.search(n)})
                over_ref = any(re.search(r'::(keys|iter|first_key_value)$', n) for n in chain + [c.fn or ''])
                ctx.ob(R3, 'find_vacuum·horizon=min-over-all-pins', not bad and over_ref,
                       f'the vacuum horizon must be the smallest of ALL pinned epochs: chain feeding {short_fn(c.fn)}: '
                       f'{[short_fn(n) for n in chain]}' + (f'; adaptor(s) {[short_fn(n) for n in bad]} can leave a pinned epoch out' if bad else ''),
                       [site(g, c.bb)],
                       what='find_vacuum computes its horizon from a subset of the pinned epochs: row-sets a reader still lists are unlinked')
                # and that minimum is what the epoch comparison sees
                cmp_bodies = {g2.name for g2, _ in cmp_}
                users = [x for x in g.calls if any(n in cmp_bodies for n in prog.callee_bodies(x))] if cmp_bodies else []
                direct = [(g2, i) for g2, i in cmp_ if g2 is g]
                fed = False
                for x in users:
                    for a in x.args:
                        if a['k'] != 'const' and c.dest['l'] in origin_locals(g, a['pl']['l']):
                            fed = True
                if direct and not users:
                    fed = True
                # .. or is captured by a closure that makes the comparison (`.filter(|(e, _)| can_apply(**e, vacuum_epoch))`)
                for bb_, st in g.stmts():
                    rv = st.get('rv', {})
                    if rv.get('rv') == 'agg' and rv.get('kind') in ('closure', 'coroutine') and rv.get('def') in prog.bodies:
                        ch = prog.bodies[rv['def']]
                        compares = ch.name in cmp_bodies or any(n in cmp_bodies for x in ch.calls for n in prog.callee_bodies(x))
                        if compares and any(o['k'] != 'const' and c.dest['l'] in origin_locals(g, o['pl']['l']) for o in rv.get('ops', [])):
                            fed = True
                ctx.ob(R3, 'find_vacuum·horizon-feeds-comparison', fed,
                       f'the minimum of the pins must be an operand of the epoch comparison ({len(users)} comparison call(s) examined)',
                       [site(g, c.bb)])
        for g in grp:
            ctx.functions_analysed.add(g.name)

    R4 = 'C08-R4'
    ctx.rule(R4, 'publish after persist (same instance as C04-R1g): status/epoch are updated only after Manifest::append')
    b = prog.inlined(CCWCM)
    if ctx.anchor(R4, CCWCM, b is not None):
        ctx.functions_analysed.add(b.name)
        A = set(done_sites(prog, b, 'Manifest::append'))
        pubs = []
        epoch_writes = []
        for bb, st in b.stmts():
            if any(f == INNER + '::epoch' for f in pl_fields(st['lhs'])):
                pubs.append(bb)
                epoch_writes.append(bb)
            rv = st.get('rv', {})
            if rv.get('rv') == 'ref' and rv.get('mut') and any(f == INNER + '::status' for f in pl_fields(rv['pl'])):
                pubs.append(bb)
        if ctx.anchor(R4, 'publish sites', pubs):
            bad = [p for p in pubs if not b.dominated_by_any(A, p)]
            ctx.ob(R4, 'commit_changes·append≺publish', not bad, f'publish blocks {pubs}; not dominated by append: {bad}',
                   [site(b, x) for x in pubs])

        R5 = 'C08-R5'
        ctx.rule(R5, 'the list of row-sets to unlink is registered under the NEW epoch (read after the increment): a reader '
                     'pinned at the previous epoch still lists them, and vacuum frees entries with key <= min pinned epoch')
        ins = []
        for c in b.calls:
            if re.search(r'(Hash|BTree)Map::<.*>::insert$', c.name or '') and c.args and c.args[0]['k'] != 'const':
                # receiver derives from &mut inner.rowset_deletion_to_apply
                def is_rdta(kind, payload, bb_):
                    return kind == 'assign' and payload.get('rv') == 'ref' and \
                        any(f == INNER + '::rowset_deletion_to_apply' for f in pl_fields(payload['pl']))
                if flows_from(b, c.args[0]['pl']['l'], is_rdta, depth=4):
                    ins.append(c)
        if ctx.anchor(R5, 'rowset_deletion_to_apply.insert', ins) and ctx.anchor(R5, 'epoch increment', epoch_writes):
            for c in ins:
                key = c.args[1]
                reads = []

                def epoch_read(kind, payload, bb_):
                    if kind == 'assign' and payload.get('rv') == 'use' and payload['op']['k'] != 'const' and \
                            any(f == INNER + '::epoch' for f in pl_fields(payload['op']['pl'])):
                        reads.append(bb_)
                    return False
                if key['k'] != 'const':
                    flows_from(b, key['pl']['l'], epoch_read, depth=8)
                ok = bool(reads) and all(b.dominated_by_any(set(epoch_writes), r) for r in reads) \
                    and b.dominated_by_any(set(epoch_writes), c.bb)
                ctx.ob(R5, 'commit_changes·deletions-keyed-by-new-epoch', ok,
                       f'key of rowset_deletion_to_apply.insert derives from reads of `epoch` at blocks {reads}; the epoch is '
                       f'incremented at blocks {epoch_writes}; every such read (and the insert) must come after the increment',
                       [site(b, c.bb)])

    pools_shrink_only_in_vacuum(ctx, prog, 'C08-R6')
    pin_is_fresh(ctx, prog)

    R7 = 'C08-R7'
    ctx.rule(R7, 'a transaction reads what it pinned: everything scan_inner learns about the table (row-set list, delete vectors) comes from '
                 'its own pinned snapshot; the version manager functions it calls only look objects up in the pools (rowsets, dvs) and '
                 'never read `status` / `epoch`, i.e. some other epoch\'s snapshot')
    SCAN = SEC + 'transaction::SecondaryTransaction::scan_inner::{closure#0}'
    sb = prog.body(SCAN)
    if ctx.anchor(R7, SCAN, sb is not None):
        seen, todo = set(), [sb.root]
        depth = {sb.root: 0}
        offenders = []
        while todo:
            r = todo.pop()
            if r in seen:
                continue
            seen.add(r)
            for g in prog.group(r):
                flds = {f for p in _places(g) for f in pl_fields(p) if f in (INNER + '::status', INNER + '::epoch')}
                if flds and r != sb.root:
                    offenders.append((g, sorted(flds)))
                if depth[r] < 2:
                    for c in g.calls:
                        for n in prog.callee_bodies(c):
                            rr = prog.bodies[n].root
                            if rr.startswith(SEC + 'version_manager::') and rr not in depth:
                                depth[rr] = depth[r] + 1
                                todo.append(rr)
        ctx.functions_analysed.update(seen)
        ctx.ob(R7, 'scan_inner·reads-only-its-pinned-snapshot', not offenders,
               f'version manager functions reachable from scan_inner: {sorted(x.rsplit("::", 1)[-1] for x in seen if x != sb.root)}; '
               f'reading status/epoch: {[(g.name.rsplit("::", 1)[-1], f) for g, f in offenders]}',
               [g.loc for g, _ in offenders] or [sb.loc],
               what='a scan resolves part of its table state through the CURRENT snapshot of the version manager instead of the one it '
                    'pinned: a DELETE / compaction / DROP that commits between the pin and the scan changes what the reader sees')
        ctx.floor(R7, len(seen), 2, 'functions examined from scan_inner')


def _places(body):
    from mir import operand_places
    for i, bl in enumerate(body.blocks):
        if bl['cleanup']:
            continue
        for st in bl['stmts']:
            yield from operand_places(st)
        yield from operand_places(bl['term'])

def short_fn(n):
    return re.sub(r'<[^<>]*>', '', (n or '?')).replace('std::collections::', '').replace('std::iter::', '')


def pools_shrink_only_in_vacuum(ctx, prog, R6):
    """C08-R6 = C07-R7: the object pools shrink only in find_vacuum"""
    ctx.rule(R6, 'the object pools of the version manager (VersionManagerInner::rowsets, ::dvs) hold what pinned snapshots still list; '
                 'they shrink only in find_vacuum, below the pin horizon. A commit that evicts an entry when it logs the Delete* record '
                 'pulls it from under a reader pinned before that commit')
    n_rm = 0
    for bd in prog.bodies.values():
        for c in bd.calls:
            if not re.search(r'(Hash|BTree)Map::<.*>::(remove|remove_entry|retain|clear|drain|pop_first|pop_last|split_off)$', c.name or ''):
                continue
            if not (c.args and c.args[0]['k'] != 'const'):
                continue
            flds = set()
            for bb, kind, payload in local_defs(bd, c.args[0]['pl']['l']):
                if kind == 'assign':
                    for pl in operand_places(payload):
                        flds |= {f for f in pl_fields(pl) if f in (INNER + '::rowsets', INNER + '::dvs')}
            if not flds:
                continue
            n_rm += 1
            ctx.functions_analysed.add(bd.name)
            ok = bd.root == FIND
            ctx.ob(R6, f'{bd.root}·evicts·{sorted(flds)[0].rsplit("::", 1)[-1]}', ok,
                   f'{bd.name}: {c.name.rsplit("::", 1)[-1]} on {sorted(flds)} at block {c.bb}', [site(bd, c.bb)],
                   what=f'{bd.root} removes entries from the version manager\'s object pool outside find_vacuum: a reader whose pinned '
                        'snapshot still lists the object panics when it opens its scan')
    ctx.floor(R6, n_rm, 1, 'removals from the version manager object pools')


def pin_is_fresh(ctx, prog):
    """C08-R8: a pin is of the epoch that is current when it is taken"""
    R8 = 'C08-R8'
    ctx.rule(R8, 'VersionManager::pin hands out the version that is current at the call: every value it returns is an Arc::new of a Version '
                 'aggregate built in the same call, whose epoch and snapshot are read from `inner.epoch` / `inner.status` under the lock it '
                 'holds - never a Version kept from an earlier call (a cached / shared pin answers later transactions with an old epoch: '
                 'they do not see acknowledged commits, and the horizon of vacuum is computed from a count that no longer says who reads what)')
    b = prog.body(SEC + 'version_manager::VersionManager::pin')
    if not ctx.anchor(R8, 'VersionManager::pin', b is not None):
        return
    ctx.functions_analysed.add(b.name)
    VERSION = SEC + 'version_manager::Version'
    rets = []

    def walk(l, depth=6, seen=None):
        seen = seen if seen is not None else set()
        if l in seen or depth < 0:
            return
        seen.add(l)
        for bb, kind, payload in local_defs(b, l):
            if kind == 'call':
                fn = payload.get('fn') or ''
                fresh = False
                if fn.endswith('Arc::<T>::new') and payload['args'] and payload['args'][0]['k'] != 'const':
                    src = origin_locals(b, payload['args'][0]['pl']['l'], depth=3)
                    fresh = any(True for _, st in b.aggregates(VERSION) if st['lhs']['l'] in src)
                rets.append((bb, fn.rsplit('::', 1)[-1] if fn else '?', fresh))
            elif payload.get('rv') == 'use' and payload['op'].get('k') != 'const':
                walk(payload['op']['pl']['l'], depth - 1, seen)     # `let v = Arc::new(..); v`
            else:
                rets.append((bb, 'assign ' + str(payload.get('rv')), False))
    walk(0)
    reads_epoch = any(f == INNER + '::epoch' for _, st in b.stmts() if st['s'] == 'assign' for pl in operand_places(st['rv']) for f in pl_fields(pl))
    if ctx.anchor(R8, 'pin: definitions of the return value', rets):
        ok = all(f for _, _, f in rets) and reads_epoch
        ctx.ob(R8, 'pin·returns-a-fresh-version-of-the-current-epoch', ok,
               f'return value defined by {rets}; reads inner.epoch: {reads_epoch}',
               [site(b, bb) for bb, _, _ in rets],
               what='VersionManager::pin can return a Version it did not build in this call (a cached or shared pin): a transaction started after a '
                    'commit was acknowledged may be handed the epoch from before it and does not see the committed rows')
