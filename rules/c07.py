"""C07 - deletes are exact and permanent; compaction is invisible.

Decides: (R1) compaction logically deletes exactly the row-sets it read (same collection, not mutated
in between); (R2) every DiskRowset::iter in compaction and in scans receives the delete vectors of the
same snapshot; (R3) DELETE runs under the table lock (Table::update + delete_lock assertion).
Does not decide: delete-vector offset arithmetic, the stale-snapshot window (C09-R1)."""
import re
import inline

from tmpl import site, start_sites, suffix, flows_from, origin_locals, pl_fields, stream_loop, int_counters, local_defs

SEC = 'storage::secondary::'
COMPACT = SEC + 'compactor::Compactor::compact_table::{closure#0}'
SCAN = SEC + 'transaction::SecondaryTransaction::scan_inner::{closure#0}'
EPOCHOP = SEC + 'version_manager::EpochOp'
DELETE_EXEC = 'executor::delete::DeleteExecutor::<S>::execute::{closure#0}'
TXN_DELETE = '<storage::secondary::transaction::SecondaryTransaction as storage::Transaction>::delete::{closure#0}'


def vec_rowset_locals(body):
    return {i for i, t in enumerate(body.rec['locals'])
            if re.match(r'std::vec::Vec<std::sync::Arc<storage::secondary::rowset::disk_rowset::DiskRowset>', t)}


def vec_classes(b, vecs):
    """one collection may have several names: `let v = helper(..)` moves the helper's vector into the caller's (whole-value moves).
    Returns (find, same): representative of a local, and representative -> all its names."""
    cls = {v: v for v in vecs}

    def find(v):
        while cls[v] != v:
            v = cls[v]
        return v
    for v in sorted(vecs):
        for _, kind, rv in local_defs(b, v):
            if kind == 'assign' and rv.get('rv') == 'use' and rv['op']['k'] != 'const' and not rv['op']['pl']['p'] \
                    and rv['op']['pl']['l'] in vecs and find(v) != find(rv['op']['pl']['l']):
                cls[find(v)] = find(rv['op']['pl']['l'])
    same = {}
    for v in vecs:
        same.setdefault(find(v), set()).add(v)
    return find, same


def run(ctx):
    prog = ctx.prog('all' if ctx.thorough else 'lib')
    ctx.extra['facts_key'] = prog.key
    ctx.explanation = ('Def-use (T-use) rules on compact_table and scan_inner: the set of row-sets read and the set logically '
                       'deleted are one local collection; the dvs argument of every row-set iterator flows from '
                       'Snapshot::get_dvs_of; DELETE opens its transaction with the deletion lock.')
    ctx.trusted += ['rustc MIR facts', 'flow through iterator adaptors is followed via call arguments (over-approximation)']
    b = prog.inlined(COMPACT)
    R1 = 'C07-R1'
    ctx.rule(R1, 'compact_table: the collection iterated to build the input iterators and the collection mapped to '
                 'EpochOp::DeleteRowSet are the same local, with no mutation after the first read')
    if ctx.anchor(R1, COMPACT, b is not None):
        ctx.functions_analysed.add(b.name)
        vecs = vec_rowset_locals(b)
        iters = [c for c in b.calls if (c.fn or '').endswith('DiskRowset::iter')]
        read_src = set()
        for c in iters:
            read_src |= origin_locals(b, c.args[0]['pl']['l']) & vecs
        # closure that builds DeleteRowSet -> the map call that consumes it
        del_src = set()
        del_closures = [ch.name for ch in inline.group(prog, b) if any(True for _ in ch.aggregates(EPOCHOP, 'DeleteRowSet'))]
        built_inline = [bb for bb, _ in b.aggregates(EPOCHOP, 'DeleteRowSet')]
        for bb, child in b.closure_sites():
            if child in del_closures:
                # local holding the closure
                for st in b.blocks[bb]['stmts']:
                    rv = st.get('rv', {})
                    if rv.get('rv') == 'agg' and rv.get('def') == child:
                        cl = st['lhs']['l']
                        for c in b.calls:
                            if any(a['k'] != 'const' and a['pl']['l'] == cl for a in c.args):
                                for a in c.args:
                                    if a['k'] != 'const' and a['pl']['l'] != cl:
                                        del_src |= origin_locals(b, a['pl']['l']) & vecs
        if built_inline:
            ctx.note('DeleteRowSet is built inline; source determined by enclosing loop iterator')
            for bb in built_inline:
                for st in b.blocks[bb]['stmts']:
                    rv = st.get('rv', {})
                    if rv.get('rv') == 'agg' and rv.get('variant') == 'DeleteRowSet':
                        for o in rv['ops']:
                            if o['k'] != 'const':
                                del_src |= origin_locals(b, o['pl']['l'], depth=20) & vecs
        find, same = vec_classes(b, vecs)
        read_src = {find(v) for v in read_src}
        del_src = {find(v) for v in del_src}
        ok = bool(read_src) and read_src == del_src and len(read_src) == 1
        ctx.ob(R1, 'compact_table·read-set==deleted-set', ok,
               f'row-set collections read by DiskRowset::iter: {names(b, read_src)}; mapped to DeleteRowSet: {names(b, del_src)}',
               [site(b, c.bb) for c in iters],
               what='compaction deletes a different set of row-sets than it read')
        if ctx.anchor(R1, 'compact_table:DiskRowset::iter', iters) and read_src:
            S = next(iter(read_src))
            muts = [bb for bb, st in b.stmts() if st.get('rv', {}).get('rv') == 'ref' and st['rv'].get('mut')
                    and st['rv']['pl']['l'] in same[S] and not st['rv']['pl']['p']]
            first_reads = [c.bb for c in iters]
            late = [m for m in muts if any(m in b.reachable_from([r]) for r in first_reads)]
            ctx.ob(R1, 'compact_table·no-mutation-after-read', not late,
                   f'&mut borrows of `{b.var_name(S)}` at blocks {muts}; reachable after the inputs were opened: {late}',
                   [site(b, x) for x in late])

        # the DVs that are read (to hide deleted rows from the merge) and the DVs that are tombstoned (DeleteDV) belong to the
        # row-sets of that same collection: every Snapshot::get_dvs_of in compact_table takes its row-set id from it
        if read_src and len(read_src) == 1:
            S = next(iter(read_src))
            gd = [c for c in b.calls if (c.fn or '').endswith('Snapshot::get_dvs_of')]
            if ctx.anchor(R1, 'compact_table:Snapshot::get_dvs_of', gd):
                bad = [c for c in gd if not (len(c.args) > 2 and c.args[2]['k'] != 'const' and same[S] & origin_locals(b, c.args[2]['pl']['l'], depth=20))]
                ctx.ob(R1, 'compact_table·dvs-of-the-read-set', not bad,
                       f'{len(gd)} get_dvs_of call(s); row-set id not taken from `{b.var_name(S)}`: {[site(b, c.bb) for c in bad]}',
                       [site(b, c.bb) for c in (bad or gd)],
                       what='compaction reads or tombstones the delete vectors of row-sets it did not merge: deleted rows of the '
                            'untouched row-sets reappear')
            ctx.floor(R1, len(gd), 2, 'get_dvs_of call sites in compact_table (inputs + tombstones)')

    R2 = 'C07-R2'
    ctx.rule(R2, 'every DiskRowset::iter call (compaction, scan) passes as `dvs` a value that flows from Snapshot::get_dvs_of')
    n = 0
    for name in (COMPACT, SCAN):
        bd = prog.inlined(name)
        if not ctx.anchor(R2, name, bd is not None):
            continue
        ctx.functions_analysed.add(bd.name)
        for c in bd.calls:
            if (c.fn or '').endswith('DiskRowset::iter'):
                n += 1
                a = c.args[2]

                def from_dvs(kind, payload, bb):
                    return kind == 'call' and (payload.get('fn') or '').endswith('Snapshot::get_dvs_of')
                ok = a['k'] != 'const' and flows_from(bd, a['pl']['l'], from_dvs, depth=10)
                ctx.ob(R2, f'{bd.root}·dvs←get_dvs_of', ok,
                       f'{bd.name}: the delete vectors handed to DiskRowset::iter must come from Snapshot::get_dvs_of '
                       f'(tombstoned rows would otherwise reappear)', [site(bd, c.bb)])
    ctx.floor(R2, n, 2, 'DiskRowset::iter call sites in compaction and scan')
    # nobody else opens a row-set iterator
    others = [c for c in prog.calls_matching_all(suffix('DiskRowset::iter')) if (c.fn or '').endswith('DiskRowset::iter')
              and c.body.name not in (COMPACT, SCAN)]
    ctx.ob(R2, 'who:DiskRowset::iter', not others, f'other callers of DiskRowset::iter: {[c.body.name for c in others]}',
           [site(c.body, c.bb) for c in others])

    R3 = 'C07-R3'
    ctx.rule(R3, 'DELETE opens its transaction with Table::update (the opener that takes the deletion lock) and '
                 'SecondaryTransaction::delete refuses to run without the lock')
    bd = prog.body(DELETE_EXEC)
    if ctx.anchor(R3, DELETE_EXEC, bd is not None):
        ctx.functions_analysed.add(bd.name)
        up = [c for c in bd.calls if (c.fn or '') == 'storage::Table::update']
        other = [c for c in bd.calls if (c.fn or '') in ('storage::Table::write', 'storage::Table::read')]
        ctx.ob(R3, 'DeleteExecutor·opens-with-update', bool(up) and not other,
               f'DeleteExecutor must open its transaction with Table::update (found update={len(up)}, write/read={len(other)})',
               [site(bd, c.bb) for c in up + other])
    upd = prog.find(r'^<storage::secondary::table::SecondaryTable as storage::Table>::update::\{closure#0\}$')
    if ctx.anchor(R3, 'SecondaryTable::update', upd):
        c = [x for x in upd[0].calls if (x.fn or '').endswith('SecondaryTransaction::start')]
        ok = bool(c) and len(c[0].args) >= 3 and c[0].args[2]['k'] == 'const' and 'true' in c[0].args[2].get('v', '')
        ctx.ob(R3, 'SecondaryTable::update·start(update=true)', ok,
               'SecondaryTable::update must call SecondaryTransaction::start with update = true')
    bd = prog.body(TXN_DELETE)
    if ctx.anchor(R3, TXN_DELETE, bd is not None):
        ctx.functions_analysed.add(bd.name)
        reads = [bb for bb, st in bd.stmts() if any(f.endswith('SecondaryTransaction::delete_lock')
                                                     for p in __places(st) for f in pl_fields(p))]
        chk = [c for c in bd.calls if re.search(r'Option::<.*>::is_some$|Option::<.*>::is_none$', c.name or '')]
        pan = bd.panic_blocks()
        ctx.ob(R3, 'SecondaryTransaction::delete·asserts-lock', bool(reads) and bool(chk) and bool(pan),
               f'delete() must test `delete_lock` (reads at {reads}, is_some at {[c.bb for c in chk]}) and panic without it '
               f'(panic blocks {sorted(pan)})', [site(bd, c.bb) for c in chk])

    # R4 ----------------------------------------------------------------------------------------------
    R4 = 'C07-R4'
    ctx.rule(R4, 'DELETE reports what it removed: in DeleteExecutor every batch received from the child advances the row count '
                 '(by the batch\'s cardinality) before the next batch is asked for, that count is what the statement yields, and '
                 'every row handler of the batch (0..len of the handler column) is handed to Transaction::delete')
    bd = prog.body('executor::delete::DeleteExecutor::<S>::execute::{closure#0}')
    if ctx.anchor(R4, 'executor::delete::DeleteExecutor::execute', bd is not None):
        ctx.functions_analysed.add(bd.name)
        polls, some_targets = stream_loop(bd)
        cnts = int_counters(bd)
        if ctx.anchor(R4, 'DeleteExecutor: child poll / Some arm', polls and some_targets) and \
                ctx.anchor(R4, 'DeleteExecutor: row counter', cnts):
            errs = bd.error_exit_blocks()
            for cnt, (blocks, srcs) in sorted(cnts.items()):
                reach = bd.reachable_from(some_targets, avoid=set(blocks) | errs)
                skipped = sorted(reach & set(polls))
                ctx.ob(R4, f'DeleteExecutor·counter-advances·{bd.var_name(cnt) or cnt}', not skipped,
                       f'counter `{bd.var_name(cnt)}` advanced at {blocks}; next poll reachable from a received batch without it: {skipped}',
                       [site(bd, b_) for b_ in blocks])
                from_card = any(any((c.fn or '').endswith(('DataChunk::cardinality', 'ArrayImpl::len')) and c.dest['l'] in origin_locals(bd, s_)
                                    for c in bd.calls) for s_ in srcs)
                ctx.ob(R4, f'DeleteExecutor·counts-batch-rows·{bd.var_name(cnt) or cnt}', from_card,
                       'the amount added must derive from the received batch (DataChunk::cardinality / ArrayImpl::len)',
                       [site(bd, b_) for b_ in blocks])
            single = [c for c in bd.calls if (c.fn or '').endswith('DataChunk::single')]
            if ctx.anchor(R4, 'DeleteExecutor: DataChunk::single', single):
                ok = any(a['k'] != 'const' and set(cnts) & origin_locals(bd, a['pl']['l']) for c in single for a in c.args)
                ctx.ob(R4, 'DeleteExecutor·yields-the-count', bool(ok), 'the chunk yielded at the end must carry the row counter',
                       [site(bd, single[0].bb)])
        dels = [c for c in bd.calls if (c.fn or '') == 'storage::Transaction::delete']
        fc = [c for c in bd.calls if (c.fn or '') == 'storage::RowHandler::from_column']
        aa = [c for c in bd.calls if (c.fn or '').endswith('DataChunk::array_at')]
        if ctx.anchor(R4, 'DeleteExecutor: Transaction::delete / from_column / array_at', dels and fc and aa):
            aa_d = {c.dest['l'] for c in aa}
            fc_d = {c.dest['l'] for c in fc}
            ok1 = all(len(c.args) > 1 and c.args[1]['k'] != 'const' and fc_d & origin_locals(bd, c.args[1]['pl']['l']) for c in dels)
            ok2 = all(c.args and c.args[0]['k'] != 'const' and aa_d & origin_locals(bd, c.args[0]['pl']['l']) for c in fc)
            ctx.ob(R4, 'DeleteExecutor·deletes-the-scanned-handlers', ok1 and ok2,
                   'Transaction::delete must receive a handler built by RowHandler::from_column from the batch\'s handler column',
                   [site(bd, c.bb) for c in dels])
            # loop bound: Range { start: 0, end: len(handler column) }
            rngs = [(bb, st) for bb, st in bd.aggregates('std::ops::Range')]
            good = False
            for bb, st in rngs:
                ops = st['rv'].get('ops', [])
                if len(ops) == 2 and ops[0]['k'] == 'const' and ops[0].get('v', '').replace('const ', '') == '0_usize' and ops[1]['k'] != 'const':
                    o = origin_locals(bd, ops[1]['pl']['l'])
                    lens = [c for c in bd.calls if (c.fn or '').endswith('ArrayImpl::len') and c.dest['l'] in o]
                    if lens and any(aa_d & origin_locals(bd, c.args[0]['pl']['l']) for c in lens if c.args and c.args[0]['k'] != 'const'):
                        good = True
            ctx.ob(R4, 'DeleteExecutor·every-handler-of-the-batch', good,
                   f'the handler loop must run over 0..len(handler column) ({len(rngs)} range(s) examined)',
                   [site(bd, rngs[0][0])] if rngs else [])

    # R5 ----------------------------------------------------------------------------------------------
    R5 = 'C07-R5'
    ctx.rule(R5, 'one generated id per object: where an id from generate_dv_id / generate_rowset_id is consumed inside a loop (one '
                 'delete vector per touched row-set, one row-set per flush), the generator is called inside that same loop; an id '
                 'hoisted out of the loop is shared by every object of the commit, and the version manager\'s pools are keyed by '
                 '(table, id) only')
    n_gen = 0
    for bd in prog.bodies.values():
        gens = [c for c in bd.calls if re.search(r'SecondaryTable::generate_(dv|rowset)_id$', c.fn or '')]
        for g in gens:
            n_gen += 1
            ctx.functions_analysed.add(bd.name)
            # (the poll loop of an `.await` is not a loop that creates objects: the machinery of the await is left out)
            users = [c for c in bd.calls if c is not g and any(a['k'] != 'const' and g.dest['l'] in origin_locals(bd, a['pl']['l'], depth=6) for a in c.args)
                     and not re.search(r'Future::poll$|Pin::<.*>::new_unchecked$|IntoFuture::into_future$|future::get_context$', c.fn or '')]
            looped = [u for u in users if u.bb in bd.reachable_from(bd.succs[u.bb])]
            bad = [u for u in looped if not (g.bb in bd.reachable_from(bd.succs[u.bb]) and u.bb in bd.reachable_from(bd.succs[g.bb]))]
            ctx.ob(R5, f'{bd.root}·{g.fn.rsplit("::", 1)[-1]}·fresh-per-object', not bad,
                   f'{bd.name}: {g.fn.rsplit("::", 1)[-1]} at block {g.bb}; consumers inside a loop: {[u.bb for u in looped]}; '
                   f'not in the same loop as the generator: {[(u.bb, (u.fn or "").rsplit("::", 1)[-1]) for u in bad]}',
                   [site(bd, g.bb)] + [site(bd, u.bb) for u in bad[:2]],
                   what=f'{bd.root} draws one id outside a loop and uses it for every object the loop creates: the delete vectors (row-sets) '
                        'of one commit share an id and overwrite each other in the version manager\'s pool')
    ctx.floor(R5, n_gen, 2, 'call sites of generate_dv_id / generate_rowset_id')

    from rules.c12 import heap_exit_rule
    heap_exit_rule(ctx, prog, 'C07-R6')
    # a reader pinned before a compaction must still find the delete vectors it lists (after seed C07-e = C08-c)
    from rules.c08 import pools_shrink_only_in_vacuum
    pools_shrink_only_in_vacuum(ctx, prog, 'C07-R7')
    compaction_merges_what_it_retires(ctx, prog, 'C07-R8')
    # the compactor holds the table lock for as long as it works on the table (after seed C07-f, which is seed C09-b again)
    from rules.c09 import guard_rule
    guard_rule(ctx, prog, 'C07-R9')


def __places(st):
    from mir import operand_places
    return operand_places(st)


def names(b, ls):
    return sorted(b.var_name(l) or f'_{l}' for l in ls)


def compaction_touches_only_what_it_merged(ctx, prog, rid):
    """shared with C09: under the table lock the compactor reads and tombstones the delete vectors of the merged row-sets only"""
    ctx.rule(rid, 'under its table lock the compactor may only retire what it merged: every Snapshot::get_dvs_of in compact_table takes '
                  'its row-set id from the collection that feeds DiskRowset::iter (the merge inputs); retiring the delete vectors of a '
                  'row-set that stays resurrects the rows an acknowledged DELETE removed from it')
    b = prog.inlined(COMPACT)
    if not ctx.anchor(rid, COMPACT, b is not None):
        return
    ctx.functions_analysed.add(b.name)
    vecs = vec_rowset_locals(b)
    iters = [c for c in b.calls if (c.fn or '').endswith('DiskRowset::iter')]
    read_src = set()
    for c in iters:
        read_src |= origin_locals(b, c.args[0]['pl']['l']) & vecs
    find, same = vec_classes(b, vecs)
    read_src = {find(v) for v in read_src}
    if not ctx.anchor(rid, 'compact_table: merge inputs', len(read_src) == 1):
        return
    S = next(iter(read_src))
    gd = [c for c in b.calls if (c.fn or '').endswith('Snapshot::get_dvs_of')]
    if ctx.anchor(rid, 'compact_table:Snapshot::get_dvs_of', gd):
        bad = [c for c in gd if not (len(c.args) > 2 and c.args[2]['k'] != 'const' and same[S] & origin_locals(b, c.args[2]['pl']['l'], depth=20))]
        ctx.ob(rid, 'compact_table·dvs-of-the-merged-set', not bad,
               f'{len(gd)} get_dvs_of call(s); row-set id not taken from `{b.var_name(S)}`: {[site(b, c.bb) for c in bad]}',
               [site(b, c.bb) for c in (bad or gd)],
               what='compaction retires the delete vectors of row-sets it did not merge: rows deleted from the untouched row-sets reappear')


def compaction_merges_what_it_retires(ctx, prog, rid):
    """C07-R8 = C18-R11: every row-set that compaction retires went into the merge"""
    from tmpl import done_sites, origin_locals
    ctx.rule(rid, 'compact_table retires (DeleteRowSet) every row-set it selected, so every selected row-set must have been read: once '
                  'DiskRowset::iter has been asked for a row-set, the only ways on are the push of its iterator into the merge inputs or an '
                  'error exit of compact_table. A row-set that is skipped (unreadable, failed checksum, "nothing visible") and retired all the '
                  'same loses its rows for good - silently, where a scan would have reported the damage')
    b = prog.inlined(COMPACT)
    if not ctx.anchor(rid, COMPACT, b is not None):
        return
    ctx.functions_analysed.add(b.name)
    starts = [c.bb for c in b.calls if (c.fn or '').endswith('DiskRowset::iter')]
    done = done_sites(prog, b, 'DiskRowset::iter')
    if not ctx.anchor(rid, 'compact_table: DiskRowset::iter', starts and done):
        return
    iter_locals = set()
    for c in b.calls:
        if re.search(r'Future::poll$', c.fn or '') and 'DiskRowset::iter' in (c.res or ''):
            iter_locals.add(c.dest['l'])
    pushes = [c.bb for c in b.calls if re.search(r'Vec::<.*>::push$', c.name or '') and len(c.args) > 1 and c.args[1]['k'] != 'const'
              and iter_locals & origin_locals(b, c.args[1]['pl']['l'], depth=12)]
    if not ctx.anchor(rid, 'compact_table: push of the row-set iterator into the merge inputs', pushes):
        return
    ends = set(starts) | set(b.return_blocks()) | {bb for bb, _ in b.aggregates(SEC + 'version_manager::EpochOp', 'DeleteRowSet')}
    bad = []
    for d in done:
        reach = b.reachable_from(b.succs[d], avoid=set(pushes) | b.error_exit_blocks())
        if reach & ends:
            bad.append(d)
    ctx.ob(rid, 'compact_table·every-selected-row-set-is-merged', not bad,
           f'DiskRowset::iter completes at {done}; its iterator is pushed at {pushes}; completions from which the next row-set, the tombstones or '
           f'the end are reachable without that push (error exits aside): {bad}', [site(b, x) for x in (bad or pushes)],
           what='compaction can leave a selected row-set out of the merge and still retires it: after a checksum error in one row-set the '
                'compactor writes a new row-set from the others, logs DeleteRowSet for all of them, and vacuum removes the only copy of the '
                'damaged row-set\'s rows - queries answer Ok with those rows missing')


def compaction_tombstones_before_commit(ctx, prog, rid):
    """C03-R10: whatever compact_table commits, the delete vectors of the row-sets it retires are tombstoned in the same commit"""
    from tmpl import start_sites
    ctx.rule(rid, 'compact_table retires row-sets together with their delete vectors: every VersionManager::commit_changes it reaches is '
                  'dominated by the loop that turns Snapshot::get_dvs_of of the retired row-sets into EpochOp::DeleteDV. A second, shorter way '
                  'to the commit (e.g. "nothing survived the merge: just drop the old row-sets") leaves AddDV records in the log whose row-set '
                  'is gone: replay unwraps their owner after a DROP TABLE, and a re-issued row-set id inherits the orphan delete vector')
    b = prog.inlined(COMPACT)
    if not ctx.anchor(rid, COMPACT, b is not None):
        return
    ctx.functions_analysed.add(b.name)
    commits = start_sites(prog, b, 'VersionManager::commit_changes')
    dv_aggs = [bb for bb, _ in b.aggregates(SEC + 'version_manager::EpochOp', 'DeleteDV')]
    # the tombstones are usually built by a closure (`dvs.iter().map(|dv_id| EpochOp::DeleteDV(..))`): the place where it is created counts
    for bb, child in b.closure_sites():
        cb = prog.bodies.get(child)
        if cb is not None and any(True for _ in cb.aggregates(SEC + 'version_manager::EpochOp', 'DeleteDV')):
            dv_aggs.append(bb)
    look = [c.bb for c in b.calls if (c.fn or '').endswith('Snapshot::get_dvs_of')]
    # the look-ups that feed tombstones: a DeleteDV aggregate is reachable from them without passing another look-up
    tomb = [l for l in look if b.reachable_from(b.succs[l], avoid=set(look) - {l}) & set(dv_aggs)]
    if not (ctx.anchor(rid, 'compact_table: commit_changes', commits) and ctx.anchor(rid, 'compact_table: DeleteDV tombstones', tomb)):
        return
    # the tombstones sit in a `for rowset in &selected_rowsets` loop: what every commit has to pass is the head of that loop
    heads = set()
    for t_ in tomb:
        hs = [c.bb for c in b.calls if re.search(r'Iterator::next$', c.fn or '') and b.dominates(c.bb, t_) and b.reaches(t_, c.bb)]
        heads |= set(hs[-1:]) if hs else {t_}
    retire = [bb for bb, _ in b.aggregates(SEC + 'version_manager::EpochOp', 'DeleteRowSet')]
    for bb, child in b.closure_sites():
        cb = prog.bodies.get(child)
        if cb is not None and any(True for _ in cb.aggregates(SEC + 'version_manager::EpochOp', 'DeleteRowSet')):
            retire.append(bb)
    if not ctx.anchor(rid, 'compact_table: DeleteRowSet emission', retire):
        return
    bad = []
    for e in retire:
        reach = b.reachable_from(b.succs[e], avoid=heads | b.error_exit_blocks())
        bad += [c for c in commits if c in reach]
    bad += [c for c in commits if not any(b.reaches(e, c) for e in retire) and not b.dominated_by_any(heads, c)]
    bad = sorted(set(bad))
    ctx.ob(rid, 'compact_table·every-commit-carries-the-DV-tombstones', not bad,
           f'commit_changes at {commits}; row-sets retired at {retire}; tombstone loop (get_dvs_of -> DeleteDV) at {tomb}, head {sorted(heads)}; commits reachable without it: {bad}',
           [site(b, c) for c in (bad or commits)],
           what='compact_table can commit the retirement of row-sets on a path that skips the tombstones of their delete vectors: the AddDV '
                'records stay live in the manifest for row-sets that are gone (reopen fails after DROP TABLE; a re-issued row-set id gets the '
                'orphan delete vector and loses acknowledged rows)')
