"""C06 - column encodings round-trip every value exactly.

Round-trip equality is a run-time statement; agreement of the writer's and the reader's tables is not.
Decides: (R1) block-type tags emitted by each column builder family are handled by a non-diverging arm
of the matching reader factory; (R2) encode/decode of every fixed-width codec are mirror images and
agree with WIDTH; (R3) the builder/array dispatch is total; (R4) every field of a stored value type is
encoded; (R5) cursor-state agreement between next_batch and skip of every block iterator.
Does not decide: value-level behaviour (runs, dictionary overflow, seek arithmetic)."""
import re

from mir import pl_fields, operand_places
from tmpl import site, suffix, fate, local_defs, origin_locals

COL = 'storage::secondary::column::'
BLOCKTYPE = 'risinglight_proto::rowset::block_index::BlockType'
FAMILIES = {
    'primitive': (COL + 'primitive_column_builder::PrimitiveColumnBuilder::<T>::finish_builder', 'PrimitiveBlockIteratorFactory', 6),
    'char': (COL + 'char_column_builder::CharColumnBuilder::finish_builder', 'CharBlockIteratorFactory', 12),
    'blob': (COL + 'blob_column_builder::BlobColumnBuilder::finish_builder', 'BlobBlockIteratorFactory', 6),
    'vector': (COL + 'vector_column_builder::VectorColumnBuilder::finish_builder', 'VectorBlockIteratorFactory', 2),
}
WIDTHS = {'u8': 1, 'i8': 1, 'u16': 2, 'i16': 2, 'u32': 4, 'i32': 4, 'f32': 4, 'u64': 8, 'i64': 8, 'f64': 8, 'u128': 16, 'i128': 16}
# cursor fields a next_batch may touch without skip touching them: one symbol, one reason
CURSOR_EXEMPT = {
    ('RleBlockIterator', 'never_used'): 'lazy first-fetch flag; next_batch re-fetches the element, a preceding skip stays correct',
    ('PlainVectorBlockIterator', 'vec_buffer'): 'scratch buffer, cleared before every element',
}


def run(ctx):
    prog = ctx.prog('all' if ctx.thorough else 'lib')
    ctx.extra['facts_key'] = prog.key
    ctx.explanation = ('T-cover / sibling cross-checks on the storage codecs: tag sets of writers vs reader match arms, put_*/get_* '
                       'sequences of encode vs decode, struct fields read by encode, self-fields mutated by next_batch vs skip.')
    ctx.trusted += ['rustc MIR facts', 'bytes::BufMut::put_* / Buf::get_* naming gives width and endianness']
    R1 = 'C06-R1'
    ctx.rule(R1, 'every BlockType a column builder family emits has a non-diverging arm in the family\'s reader factory '
                 '(get_iterator_for)')
    for fam, (wname, rname, floor) in FAMILIES.items():
        w = prog.body(wname)
        readers = [b for b in prog.bodies.values() if rname in b.name and b.name.endswith('::get_iterator_for')]
        if not ctx.anchor(R1, wname, w is not None) or not ctx.anchor(R1, f'{rname}::get_iterator_for', readers):
            continue
        r = readers[0]
        ctx.functions_analysed.update([w.name, r.name])
        emitted = {st['rv']['variant'] for g in prog.group(w.root) for _, st in g.aggregates(BLOCKTYPE)}
        handled = set()
        for i, bl in enumerate(r.blocks):
            t = bl['term']
            if t['k'] == 'switch' and t.get('adt') == BLOCKTYPE:
                for v, tgt in t['targets']:
                    if not r.diverges(tgt):
                        handled.add(t['variants'].get(v, v))
                if not r.diverges(t['otherwise']):
                    handled.add('*')
        ctx.floor(f'{R1}:{fam}', len(emitted), floor, f'block types emitted by the {fam} builder')
        for tag in sorted(emitted):
            ctx.ob(R1, f'{fam}·{tag}', tag in handled or '*' in handled,
                   f'{fam}: builder emits BlockType::{tag}; reader handles {sorted(handled)}', [w.loc, r.loc])

    R2 = 'C06-R2'
    ctx.rule(R2, 'for each impl PrimitiveFixedWidthEncode: the put_* sequence of encode mirrors the get_* sequence of decode '
                 '(same widths, same endianness) and WIDTH equals the number of bytes written')
    codecs = {}
    for b in prog.bodies.values():
        if b.rec.get('impl_trait', '').endswith('encode::PrimitiveFixedWidthEncode') and b.name.rsplit('::', 1)[-1] in ('encode', 'decode'):
            codecs.setdefault(b.rec['impl_self'], {})[b.name.rsplit('::', 1)[-1]] = b
    ctx.floor(R2, len(codecs), 10, 'fixed-width codecs')
    for ty, d in sorted(codecs.items()):
        if 'encode' not in d or 'decode' not in d:
            ctx.ob(R2, f'{ty}·pair', False, f'{ty}: encode/decode pair incomplete')
            continue
        ctx.functions_analysed.update([d['encode'].name, d['decode'].name])
        puts = [m.group(1) for c in sorted(d['encode'].calls, key=lambda c: c.bb)
                for m in [re.search(r'BufMut::put_([a-z0-9_]+)$', c.fn or '')] if m]
        gets = [m.group(1) for c in sorted(d['decode'].calls, key=lambda c: c.bb)
                for m in [re.search(r'Buf::get_([a-z0-9_]+)$', c.fn or '')] if m]
        w = prog.consts.get(f'<{ty} as storage::secondary::encode::PrimitiveFixedWidthEncode>::WIDTH')
        width = int(w['bits']) if w else None
        nbytes = sum(WIDTHS.get(p.split('_')[0], 0) for p in puts)
        ok = bool(puts) and puts == gets and width == nbytes
        ctx.ob(R2, f'{ty}·mirror', ok, f'{ty}: encode puts {puts}, decode gets {gets}, WIDTH={width}, bytes written={nbytes}',
               [d['encode'].loc, d['decode'].loc])

    R3 = 'C06-R3'
    ctx.rule(R3, 'ColumnBuilderImpl::append: every builder variant has an arm for the array variant of the same name that does '
                 'not fall into todo!()')
    b = prog.body(COL + 'column_builder::ColumnBuilderImpl::append')
    if ctx.anchor(R3, 'ColumnBuilderImpl::append', b is not None):
        ctx.functions_analysed.add(b.name)
        outer = [bl['term'] for bl in b.blocks if bl['term']['k'] == 'switch' and (bl['term'].get('adt') or '').endswith('ColumnBuilderImpl')]
        adt = prog.adts.get(COL + 'column_builder::ColumnBuilderImpl')
        if ctx.anchor(R3, 'switch on ColumnBuilderImpl', outer) and ctx.anchor(R3, 'adt ColumnBuilderImpl', adt):
            t = outer[0]
            arms = {t['variants'][v]: tgt for v, tgt in t['targets']}
            for var in [v['name'] for v in adt['variants']]:
                ok = False
                if var in arms:
                    inner = b.blocks[arms[var]]['term']
                    if inner['k'] == 'switch' and (inner.get('adt') or '').endswith('ArrayImpl'):
                        for v, tgt in inner['targets']:
                            if inner['variants'].get(v) == var and not b.diverges(tgt):
                                ok = True
                    elif not b.diverges(arms[var]):
                        ok = True
                ctx.ob(R3, f'append·{var}', ok, f'builder variant {var}: ' + ('handled' if ok else 'no non-diverging arm for the same array variant'))

    R4 = 'C06-R4'
    ctx.rule(R4, 'for every codec whose Self is a struct of this crate, each field of the struct is read by encode (directly or '
                 'through one accessor call): nothing of the value is dropped on the way to disk')
    n4 = 0
    for ty, d in sorted(codecs.items()):
        adt = prog.adts.get(ty)
        if not adt or adt['kind'] != 'Struct' or 'encode' not in d:
            continue
        n4 += 1
        fields = [f['name'] for f in adt['variants'][0]['fields']]
        read = set()
        enc = d['encode']
        bodies = [enc]
        for c in enc.calls:
            for n in prog.callee_bodies(c):
                bodies.append(prog.bodies[n])
                for c2 in prog.bodies[n].calls:
                    for n2 in prog.callee_bodies(c2):
                        bodies.append(prog.bodies[n2])
        for bd in bodies:
            for i, bl in enumerate(bd.blocks):
                for p in operand_places(bl['stmts']) + operand_places(bl['term']):
                    for f in pl_fields(p):
                        if f.startswith(ty + '::'):
                            read.add(f.rsplit('::', 1)[-1])
        missing = [f for f in fields if f not in read]
        ctx.ob(R4, f'{ty}·fields', not missing, f'{ty} has fields {fields}; encode reads {sorted(read)}; never encoded: {missing}',
               [enc.loc],
               what=f'{ty.rsplit("::", 1)[-1]}: field(s) {missing} are never written by the column codec: the value read back from '
                    f'disk differs from the one stored (and from the in-memory engine)')
    ctx.floor(R4, n4, 4, 'struct-valued codecs (Date, Timestamp, TimestampTz, Interval)')

    R5 = 'C06-R5'
    ctx.rule(R5, 'cursor-state agreement: every field of a block iterator that next_batch / next_batch_non_null mutates is also '
                 'mutated by skip (a position cache updated by reads but not by skips goes stale)')
    impls = {}
    for b in prog.bodies.values():
        tr = b.rec.get('impl_trait', '')
        if tr.endswith('::BlockIterator') or tr.endswith('::NonNullableBlockIterator'):
            impls.setdefault(b.rec.get('impl_self_adt'), {})[b.name.rsplit('::', 1)[-1]] = b
    n5 = 0
    for adt, ms in sorted(impls.items()):
        nb = set()
        for m in ('next_batch', 'next_batch_non_null'):
            if m in ms:
                nb |= self_writes(ms[m])
        if 'skip' not in ms:
            continue
        n5 += 1
        sk = self_writes(ms['skip'])
        short_adt = adt.rsplit('::', 1)[-1]
        missing = sorted(f for f in nb - sk if (short_adt, f) not in CURSOR_EXEMPT)
        ctx.functions_analysed.update(b.name for b in ms.values())
        ctx.ob(R5, f'{short_adt}', not missing,
               f'{short_adt}: next_batch mutates {sorted(nb)}, skip mutates {sorted(sk)}; mutated by reads only: {missing}'
               + ''.join(f'; exempt {f}: {CURSOR_EXEMPT[(short_adt, f)]}' for f in sorted(nb - sk) if (short_adt, f) in CURSOR_EXEMPT),
               [ms['skip'].loc])
    ctx.floor(R5, n5, 8, 'block iterator implementations with next_batch and skip')

    fake_iter_rule(ctx, prog)
    rle_runs_rule(ctx, prog)
    char_cell_rule(ctx, prog)
    block_aligned_batches_rule(ctx, prog, 'C06-R9')


def char_cell_rule(ctx, prog):
    """C06-R8: a CHAR(n) cell is n bytes"""
    R8 = 'C06-R8'
    ctx.rule(R8, 'fixed-width CHAR(n) values are stored in cells of n bytes padded with NUL; the reader looks for the padding inside ONE cell: '
                 'in PlainCharBlockIterator::next_batch_non_null the slice that is searched for the first NUL is cut to `char_width` bytes '
                 '(an Index with a range built from the char_width field); searching the rest of the block glues a full-width value to the '
                 'values that follow it')
    b = next((x for n, x in prog.bodies.items() if 'char_block_iterator::PlainCharBlockIterator' in n and n.endswith('next_batch_non_null')), None)
    if not ctx.anchor(R8, 'PlainCharBlockIterator::next_batch_non_null', b is not None):
        return
    ctx.functions_analysed.add(b.name)
    search = [c for c in b.calls if re.search(r'Itertools::find_position$|Iterator::position$|memchr', c.fn or '')]
    if not ctx.anchor(R8, 'next_batch_non_null: search for the NUL padding', search):
        return
    for c in search:
        src = origin_locals(b, c.args[0]['pl']['l'], depth=8) if c.args and c.args[0]['k'] != 'const' else set()
        cuts = [k for k in b.calls if (k.fn or '').endswith('ops::Index::index') and k.dest['l'] in src and len(k.args) > 1 and k.args[1]['k'] != 'const'
                and re.search(r'^std::ops::Range(To|ToInclusive)?<', b.local_ty(k.args[1]['pl']['l']))]
        bounded = False
        for k in cuts:
            for l in origin_locals(b, k.args[1]['pl']['l'], depth=6):
                for bb, kind, payload in local_defs(b, l):
                    if kind == 'assign' and any(f.endswith('PlainCharBlockIterator::char_width') for pl in operand_places(payload) for f in pl_fields(pl)):
                        bounded = True
        ctx.ob(R8, 'PlainCharBlockIterator·nul-search-bounded-by-the-cell', bounded,
               f'the NUL search at block {c.bb} runs over a slice cut by {[k.bb for k in cuts]}; bounded by char_width: {bounded}', [site(b, c.bb)],
               what='PlainCharBlockIterator searches the padding NUL beyond the end of the cell: a CHAR(n) value of exactly n bytes reads back '
                    'glued to the following values (`abcd`,`wxyz`,`q` -> `abcdwxyzq`)')


def rle_runs_rule(ctx, prog):
    """C06-R7: the RLE block stores exactly one child value per run count"""
    R7 = 'C06-R7'
    ctx.rule(R7, 'RleBlockBuilder writes one value into its child block builder per run and one count per run (the reader fetches one '
                 'child value per count): in append() a count is pushed only on a path that also appended the new value to the child '
                 'builder; finish() pushes the count of the last run')
    ap = next((b for n, b in prog.bodies.items() if re.search(r'rle_block_builder::RleBlockBuilder<A, B> as .*BlockBuilder<A>>::append$', n)), None)
    fi = next((b for n, b in prog.bodies.items() if re.search(r'rle_block_builder::RleBlockBuilder<A, B> as .*BlockBuilder<A>>::finish$', n)), None)
    if not (ctx.anchor(R7, 'RleBlockBuilder::append', ap is not None) and ctx.anchor(R7, 'RleBlockBuilder::finish', fi is not None)):
        return
    ctx.functions_analysed.update([ap.name, fi.name])

    def field_calls(b, pat, field):
        out = []
        for c in b.calls:
            if not re.search(pat, c.fn or c.name or ''):
                continue
            if not (c.args and c.args[0]['k'] != 'const'):
                continue
            hit = False
            for bb, kind, payload in local_defs(b, c.args[0]['pl']['l']):
                if kind == 'assign' and any(f.endswith('RleBlockBuilder::' + field) for pl in operand_places(payload) for f in pl_fields(pl)):
                    hit = True
            if hit:
                out.append(c)
        return out
    pushes = field_calls(ap, r'Vec::<.*>::push$', 'rle_counts')
    childs = field_calls(ap, r'BlockBuilder::append$', 'block_builder')
    if ctx.anchor(R7, 'append: rle_counts.push / block_builder.append', pushes and childs):
        cs = {c.bb for c in childs}
        lone = [p for p in pushes if p.bb in ap.reachable_from([0], avoid=cs)]
        ctx.ob(R7, 'RleBlockBuilder::append·count-with-value', not lone,
               f'count pushes at {[p.bb for p in pushes]}, child appends at {sorted(cs)}; pushes reachable without a child append: {[p.bb for p in lone]}',
               [site(ap, p.bb) for p in (lone or pushes)],
               what='RleBlockBuilder::append records a run count without writing the run\'s value into the child block: the block has '
                    'more counts than values and every later run decodes as its successor\'s value')
    fp = field_calls(fi, r'Vec::<.*>::push$', 'rle_counts')
    ctx.ob(R7, 'RleBlockBuilder::finish·last-count', bool(fp), f'finish pushes the last run count: {bool(fp)}', [fi.loc])


def fake_iter_rule(ctx, prog):
    """C06-R6: typestate of ConcreteColumnIterator. After a skip that crossed a block boundary `is_fake_iter` is set and
    `block_iterator` still belongs to the block that was left; it is reloaded at the start of the next read."""
    R6 = 'C06-R6'
    CCI = 'storage::secondary::column::concrete_column_iterator::ConcreteColumnIterator'
    ctx.rule(R6, 'ConcreteColumnIterator: while is_fake_iter may be set, block_iterator is stale. Every call on self.block_iterator '
                 'is preceded on all paths by the `is_fake_iter == false` arm or by a reload (assignment to block_iterator); a read '
                 'that is not may only size a buffer (flow into with_capacity), never a result or the cursor')
    bodies = [b for b in prog.bodies.values() if (b.rec.get('impl_self_adt') == CCI or b.name.startswith(CCI + '::<A, F>::'))
              and not b.rec.get('derived')]
    def arms_of(t):
        """(value, successor): '0' / 'nz' for a bool, the variant name for a match on an enum"""
        if t.get('adt') and t.get('variants'):
            return [(t['variants'].get(str(v), str(v)), tgt) for v, tgt in t['targets']] + [('*', t['otherwise'])]
        return [('0' if v == '0' else str(v), tgt) for v, tgt in t['targets']] + [('nz', t['otherwise'])]

    def flag_switches(b):
        """switches of b that branch on a field of self other than block_iterator: (block, terminator, signature); the signature says
        which field, through which calls (`PartialEq::eq` against a constant ..) and whether it is a bool test or a match"""
        for i, bl in enumerate(b.blocks):
            t = bl['term']
            if t['k'] != 'switch' or t['discr']['k'] == 'const' or bl['cleanup']:
                continue
            src = origin_locals(b, t['discr']['pl']['l'], depth=5)
            flds = set()
            for x in src:
                for _, kind, payload in local_defs(b, x):
                    if kind == 'assign':
                        for pl in operand_places(payload) + ([payload['pl']] if payload.get('rv') == 'ref' else []):
                            flds |= {f for f in pl_fields(pl) if 'ConcreteColumnIterator::' in f and not f.endswith('::block_iterator')}
            if len(flds) != 1:
                continue
            via = frozenset(re.sub(r'<[^<>]*>', '', c.fn or '') for c in b.calls if c.dest['l'] in src and not c.dest['p']
                            and any(a['k'] != 'const' and a['pl']['l'] in src for a in c.args))
            consts = frozenset(str(a.get('v')) for c in b.calls if c.dest['l'] in src for a in c.args if a['k'] == 'const')
            yield i, t, (next(iter(flds)), via, 'match' if t.get('adt') else 'bool')

    # the staleness flag is whatever field decides about a reload: in the methods that reload block_iterator, the branch on a field of
    # self exactly one of whose arms leads to the reload; that arm's value means "stale" (`if self.is_fake_iter {..}`,
    # `if self.state == Stale {..}`, `match self.state { Stale => .., Loaded => .. }`)
    stale_arm = {}
    for b0 in bodies:
        b0 = prog.inlined(b0)
        reloads0 = {bb for bb, st in b0.stmts() if st['s'] == 'assign' and st['lhs']['p']
                    and any(f.endswith('ConcreteColumnIterator::block_iterator') for f in pl_fields(st['lhs']))}
        if not reloads0:
            continue
        for i, t, sig in flag_switches(b0):
            arms = [(v, o) for v, o in arms_of(t) if not b0.diverges(o)]
            owns = [(v, o) for v, o in arms if any(b0.dominates(o, r) for r in reloads0)]
            if len(owns) == 1 and len(arms) >= 2:
                stale_arm[sig] = owns[0][0]
    ctx.anchor(R6, 'ConcreteColumnIterator: the branch that decides about reloading block_iterator (staleness flag)', stale_arm)
    ctx.extra['staleness_flag'] = [{'field': k[0], 'through': sorted(k[1]), 'kind': k[2], 'stale_when': v} for k, v in stale_arm.items()]
    n_reads = 0
    for b in bodies:
        if b.rec.get('impl_trait', '').endswith('Drop') or '::new' in b.name:
            continue
        b = prog.inlined(b)         # a reload moved into a private helper (`self.load_current_block().await?`) is still a reload
        # locals that are references to self.block_iterator
        refs = {}
        for bb, st in b.stmts():
            rv = st.get('rv', {}) if st['s'] == 'assign' else {}
            if rv.get('rv') == 'ref' and any(f.endswith('ConcreteColumnIterator::block_iterator') for f in pl_fields(rv['pl'])):
                refs[st['lhs']['l']] = bb
        if not refs:
            continue
        reloads = {bb for bb, st in b.stmts() if st['s'] == 'assign' and st['lhs']['p']
                   and any(f.endswith('ConcreteColumnIterator::block_iterator') for f in pl_fields(st['lhs']))}
        not_fake = set()
        for i, t, sig in flag_switches(b):
            if sig in stale_arm:
                not_fake |= {o for v, o in arms_of(t) if v != stale_arm[sig]}
        for c in b.calls:
            if not (c.args and c.args[0]['k'] != 'const' and c.args[0]['pl']['l'] in refs):
                continue
            n_reads += 1
            ctx.functions_analysed.add(b.name)
            guarded = c.bb not in b.reachable_from([0], avoid=not_fake | reloads) or c.bb in not_fake
            if guarded:
                ctx.ob(R6, f'{short_m(b.name)}·{short_m(c.fn)}·guarded', True, f'{b.name}: {c.fn} at block {c.bb} is behind the is_fake_iter test / a reload')
                continue
            fs = fate(b, c.dest['l'], lambda t, ai: 'hint' if re.search(r'with_capacity$', t.get('fn') or '') else 'propagated')
            ctx.ob(R6, f'{short_m(b.name)}·{short_m(c.fn)}·only-a-capacity-hint', fs <= {'hint'} and bool(fs),
                   f'{b.name}: {c.fn} at block {c.bb} can run while is_fake_iter is set; its result goes to {sorted(fs)}',
                   [site(b, c.bb)],
                   what=f'{short_m(b.name)} reads block_iterator.{short_m(c.fn)} while the iterator may be stale after a skip '
                        '(is_fake_iter): the value describes the block that was left, not the current one')
    ctx.floor(R6, n_reads, 4, 'calls on self.block_iterator in ConcreteColumnIterator')


def short_m(n):
    n = re.sub(r'<[^<>]*>', '', n or '?')
    return n.rsplit('::', 1)[-1] if '{closure' not in n else '::'.join(n.rsplit('::', 2)[-2:])


def self_writes(b):
    """fields of *self written (assigned, or mutably borrowed) by a method"""
    out = set()
    for bb, st in b.stmts():
        lhs = st['lhs']
        if lhs['l'] == 1 and lhs['p'] and lhs['p'][0] == '*':
            fs = pl_fields(lhs)
            if fs:
                out.add(fs[0].rsplit('::', 1)[-1])
        rv = st.get('rv', {})
        if rv.get('rv') == 'ref' and rv.get('mut') and rv['pl']['l'] == 1 and len(rv['pl']['p']) > 1:
            fs = pl_fields(rv['pl'])
            if fs:
                out.add(fs[0].rsplit('::', 1)[-1])
    return out


def block_aligned_batches_rule(ctx, prog, R9):
    """C06-R9 = C05-R6: a batch of the row-set iterator never spans two blocks of a column"""
    ctx.rule(R9, 'RowSetIterator sizes a batch by the smallest NON-ZERO fetch hint of its columns, and the block readers (validity bitmap of a '
                 'nullable block, visibility bitmap under delete vectors) assume that a batch lies inside one block of every column. So a '
                 'column that stands exactly at the end of a block must not answer 0: ConcreteColumnIterator::fetch_hint_inner returns the '
                 'rows left in the current block only where it tested them non-zero, and otherwise the row count of the NEXT block '
                 '(ColumnIndex::index(current_block_id + 1))')
    b = next((x for n, x in prog.bodies.items() if 'concrete_column_iterator::ConcreteColumnIterator' in n and n.endswith('::fetch_hint_inner')), None)
    if not ctx.anchor(R9, 'ConcreteColumnIterator::fetch_hint_inner', b is not None):
        return
    ctx.functions_analysed.add(b.name)
    rets = [(bb, st) for bb, st in b.stmts() if st['s'] == 'assign' and st['lhs']['l'] == 0 and not st['lhs']['p']
            and st['rv'].get('rv') == 'agg' and st['rv'].get('kind') == 'tuple' and len(st['rv']['ops']) == 2
            and st['rv']['ops'][0]['k'] != 'const']
    if not ctx.anchor(R9, 'fetch_hint_inner: the (hint, finished) result', rets):
        return

    def reads_field(l, name, depth=8):
        for x in origin_locals(b, l, depth=depth):
            for _, kind, payload in local_defs(b, x):
                if kind == 'assign' and any(f.endswith(name) for pl in operand_places(payload) for f in pl_fields(pl)):
                    return True
        return False

    for bb, st in rets:
        res = st['rv']['ops'][0]['pl']['l']
        src = origin_locals(b, res, depth=10)
        # (L) some definition of the hint is the row count of block current_block_id + 1
        ahead = []
        for c in b.calls:
            if (c.fn or '').endswith('ColumnIndex::index') and c.dest['l'] in src and len(c.args) > 1 and c.args[1]['k'] != 'const':
                for x in origin_locals(b, c.args[1]['pl']['l'], depth=6):
                    for _, kind, payload in local_defs(b, x):
                        if kind == 'assign' and payload.get('rv') == 'binop' and payload['op'].startswith('Add') and \
                                any(o.get('k') == 'const' and str(o.get('v', '')).startswith('1') for o in (payload['a'], payload['b'])) and \
                                any(o.get('k') != 'const' and reads_field(o['pl']['l'], '::current_block_id', 3) for o in (payload['a'], payload['b'])):
                            ahead.append(c.bb)
        # (Z) the rows left in the current block reach the result only behind a test against zero
        zero_tests = []
        for i, bl in enumerate(b.blocks):
            t = bl['term']
            if t['k'] == 'switch' and not bl['cleanup'] and t['discr']['k'] != 'const':
                # `match hint { 0 => .., n => .. }`: a switch on the integer itself with an arm for 0
                if not t.get('adt') and t.get('ty') not in ('bool',) and any(str(v) == '0' for v, _ in t['targets']):
                    zero_tests.append(i)
                for x in origin_locals(b, t['discr']['pl']['l'], depth=3):
                    for _, kind, payload in local_defs(b, x):
                        if kind == 'assign' and payload.get('rv') == 'binop' and payload['op'] in ('Eq', 'Ne', 'Gt', 'Lt') and \
                                any(o.get('k') == 'const' and str(o.get('v', '')).startswith('0') for o in (payload['a'], payload['b'])):
                            zero_tests.append(i)
        ok = bool(ahead) and bool(zero_tests)
        ctx.ob(R9, 'ConcreteColumnIterator·fetch_hint-never-zero-before-the-end', ok,
               f'{b.name}: result built at block {bb}; look-ahead to block current_block_id + 1 at {sorted(set(ahead))}; tests against zero at {sorted(set(zero_tests))}',
               [site(b, bb)],
               what='fetch_hint answers 0 for a column that stands at the end of a block although more blocks follow: RowSetIterator then sizes the '
                    'batch by the other columns and reads across a block boundary - a nullable column keeps the validity bits of the last block '
                    'only (wrong NULLs, "unmatched row range"), and the visibility bitmap of a scan under delete vectors gets the wrong length')
