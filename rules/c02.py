"""C02 - query answers follow standard SQL semantics on the core relational subset.

The property needs an independent SQL oracle over query x data, which is not a static object.
Decided here is one clause of its statement that is visible in the shape of the code: aggregates skip
NULLs. (R1) reducers over raw slots read the validity bitmap; (R2) the COUNT(DISTINCT) state never
receives NULL; (R3) the SUM combinator skips a NULL operand on the per-value path (hash/sort agg); (R4) boolean kernel
results carry `false` under NULL slots, because WHERE and JOIN ON read the raw bits (shared with C14-R6).
The NULL-join-key clause is decided under C11-R1. Everything else of C02 is not decided."""
import re

from tmpl import site, suffix, flows_from, origin_locals, pl_fields, local_defs
from mir import operand_places

EVAL = "executor::evaluator::Evaluator::<'a>::"


def run(ctx):
    prog = ctx.prog('all' if ctx.thorough else 'lib')
    ctx.extra['facts_key'] = prog.key
    ctx.explanation = ('Structural NULL-handling rules on the aggregate kernels: in this code base a NULL slot keeps whatever the '
                       'kernel computed underneath, so a reducer that reads raw slots without the bitmap, or a state machine that '
                       'combines an incoming value without testing it for NULL, includes NULLs in the aggregate.')
    ctx.trusted += ['rustc MIR facts']
    ctx.assumptions += ['only the "aggregates skip NULLs" clause of C02 is decided; join NULL keys: C11-R1']
    R1 = 'C02-R1'
    ctx.rule(R1, 'every function group under array:: that iterates raw slots (raw_iter) rebuilds an array together with a validity '
                 'bitmap (from_data(.., valid)); reducers must not read raw slots at all')
    by = {}
    for c in prog.calls_matching(re.compile(r'::raw_iter$')):
        if c.body.name.startswith('array::') or c.body.name.startswith('<array::'):
            by.setdefault(c.body.root, []).append(c)
    ctx.floor(R1, len(by), 4, 'function groups calling raw_iter')
    for root, cs in sorted(by.items()):
        grp = prog.group(root)
        for g in grp:
            ctx.functions_analysed.add(g.name)
        valid = [c for g in grp for c in g.calls if re.search(r'ArrayFromDataExt::from_data$|::from_data$', c.name or '')]
        # raw slots may only feed a kernel that rebuilds an array together with a validity bitmap (from_data(.., valid));
        # a reducer (no array result) must iterate valid slots only, whatever else it consults
        ok = bool(valid)
        fn = root.rsplit('::', 1)[-1]
        ctx.ob(R1, f'{short(root)}', ok, f'{root}: {len(cs)} raw_iter call(s), validity consulted via '
               f'{sorted({short(v.name).rsplit("::", 1)[-1] for v in valid})}', [site(c.body, c.bb) for c in cs[:3]],
               what=f'ArrayImpl::{fn} reduces raw slots without the validity bitmap: values lying under NULL slots are included '
                    f'(SUM over NULLs returns garbage / 0 instead of skipping them)')

    R2 = 'C02-R2'
    ctx.rule(R2, 'COUNT(DISTINCT): every insertion into the distinct-value set of the aggregate state machine is guarded by a '
                 'NULL test of the inserted value (NULLs are not counted)')
    n = 0
    for fn in ('eval_agg', 'agg_append'):
        b0 = prog.body(EVAL + fn)
        if not ctx.anchor(R2, EVAL + fn, b0 is not None):
            continue
        # the state machine itself, and the helpers of the evaluator it calls (`Self::insert_non_null(set, v)` shared by both)
        where = [b0] + [prog.body(cn) for c in b0.calls for cn in prog.callee_bodies(c) if cn.startswith('executor::evaluator::') and cn != b0.name]
        seen_b = set()
        for b in where:
            if b is None or b.name in seen_b:
                continue
            seen_b.add(b.name)
            ctx.functions_analysed.add(b.name)
            ins = [c for c in b.calls if re.search(r'(Hash|BTree)Set::<.*>::insert$', c.name or '')
                   or ((c.fn or '').endswith('iter::Extend::extend') and re.search(r'(Hash|BTree)Set', (c.res or '') + ' '.join(c.t.get('gargs', []))))]
            for c in ins:
                n += 1
                tests = [x.bb for x in b.calls if (x.fn or '').endswith('DataValue::is_null')]
                guarded = any(b.dominates(t, c.bb) for t in tests)
                filt = any(re.search(r'Iterator::filter$|nonnull_iter$|Iterator::flatten$|Iterator::filter_map$', x.name or '') for x in b.calls
                           if b.dominates(x.bb, c.bb))
                ctx.ob(R2, f'Evaluator::{fn}·distinct-insert', guarded or filt,
                       f'{b.name}: HashSet::insert at block {c.bb}; dominating NULL tests: {[t for t in tests if b.dominates(t, c.bb)]}; '
                       f'filtered source: {filt}', [site(b, c.bb)],
                       what=f'COUNT(DISTINCT x) counts NULL as a value ({fn} inserts every value into the distinct set)')
    ctx.floor(R2, n, 2, 'insertions into the distinct-value set')

    cte_rule(ctx, prog)
    min_max_rule(ctx, prog)
    # ORDER BY answers depend on what the planner believes about operator output order (after seed C02-e = C12-b)
    from rules.c12 import order_claims_rule
    order_claims_rule(ctx, prog, 'C02-R7')
    # NULLs of an expression above LIMIT .. OFFSET (after seed C02-f, which is seed C14-b again)
    from rules.c14 import aligned_bitmaps_rule
    aligned_bitmaps_rule(ctx, prog, 'C02-R8')
    run_r4(ctx, prog)   # three-valued logic in WHERE/ON: a NULL predicate must not read as TRUE (same rule as C14-R6)
    R3 = 'C02-R3'
    ctx.rule(R3, 'SUM on the per-value path (hash/sort aggregation): the combinator applied to (state, value) must skip a NULL '
                 'value: either agg_append tests `value` for NULL before combining, or the combinator tests both operands')
    b = prog.body(EVAL + 'agg_append')
    if b is not None:
        sw = [(i, bl['term']) for i, bl in enumerate(b.blocks) if bl['term']['k'] == 'switch' and bl['term'].get('adt') == 'planner::Expr']
        sum_targets = []
        for i, t in sw:
            for v, tgt in t['targets']:
                if t.get('variants', {}).get(v) == 'Sum':
                    sum_targets.append((i, tgt, {tt for vv, tt in t['targets'] if tt != tgt} | {t['otherwise']}))
        if ctx.anchor(R3, 'agg_append: Sum arm', sum_targets):
            for i, tgt, others in sum_targets:
                region = b.reachable_from([tgt], avoid=others | {i})
                combs = [c for c in b.calls if c.bb in region and len(c.args) == 2]
                ok_any = False
                desc = []
                for c in combs:
                    # does the arm test the value first?
                    tests = [x for x in b.calls if x.bb in region and (x.fn or '').endswith('DataValue::is_null') and b.dominates(x.bb, c.bb)]
                    callee_ok = False
                    for n_ in prog.callee_bodies(c):
                        cb = prog.bodies[n_]
                        nulls = [x for x in cb.calls if (x.fn or '').endswith('DataValue::is_null')]
                        tested = set()
                        for x in nulls:
                            if x.args and x.args[0]['k'] != 'const':
                                tested |= origin_locals(cb, x.args[0]['pl']['l']) & {1, 2}
                        callee_ok = tested == {1, 2}
                        desc.append(f'{short(c.name)} tests params {sorted(tested)}')
                    if tests or callee_ok:
                        ok_any = True
                ctx.ob(R3, 'Evaluator::agg_append·Sum-skips-NULL', ok_any and bool(combs),
                       f'Sum arm (block {tgt}): combinators {desc}', [site(b, c.bb) for c in combs],
                       what='SUM in hash/sort aggregation does not skip NULL inputs: state + NULL = NULL, so a group containing '
                            'a NULL sums to NULL')


def run_r4(ctx, prog):
    from rules.c14 import clear_null_rule
    clear_null_rule(ctx, prog, 'C02-R4')


def short(n):
    return re.sub(r'<[^<>]*>', '', n or '?')


def min_max_rule(ctx, prog):
    """C02-R6: MIN / MAX skip NULLs on both sides"""
    R6 = 'C02-R6'
    ctx.rule(R6, 'the MIN / MAX combinators of the aggregate state machine (DataValue::min / max) skip NULL whichever side it is on: both '
                 'operands are tested for NULL before they are compared. (The derived order puts NULL first, so a bare Ord::max happens to '
                 'be right and is accepted; a bare or half-guarded Ord::min returns NULL as soon as a NULL follows a value)')
    first_variant = (prog.adts.get('types::value::DataValue') or {}).get('variants', [{}])[0].get('name')
    for fn in ('min', 'max'):
        b = prog.body('types::value::DataValue::' + fn)
        if not ctx.anchor(R6, 'types::value::DataValue::' + fn, b is not None):
            continue
        ctx.functions_analysed.add(b.name)
        tested = set()

        def operands_of(l, proj):
            out = set()
            defs = local_defs(b, l)
            if l in (1, 2):
                out.add(l)
            for bb, kind, payload in defs:
                if kind == 'assign' and payload.get('rv') == 'agg' and payload.get('ops') and proj and re.match(r'^f:\d+$', proj[0]):
                    k = int(proj[0][2:])
                    if k < len(payload['ops']) and payload['ops'][k]['k'] != 'const':
                        out |= {x for x in origin_locals(b, payload['ops'][k]['pl']['l'], depth=4) if x in (1, 2)}
                elif kind == 'assign':
                    out |= {x for pl in operand_places(payload) for x in origin_locals(b, pl['l'], depth=4) if x in (1, 2)}
            return out
        for bl in b.blocks:
            t = bl['term']
            if t['k'] == 'switch' and t.get('adt') == 'types::value::DataValue' and t.get('on'):
                names = t.get('variants', {})
                if any(names.get(str(v)) == 'Null' for v, tgt in t['targets']) or t.get('otherwise') is not None:
                    tested |= operands_of(t['on']['l'], t['on']['p'])
        for c in b.calls:
            if (c.fn or '').endswith('DataValue::is_null') and c.args and c.args[0]['k'] != 'const':
                tested |= {x for x in origin_locals(b, c.args[0]['pl']['l'], depth=4) if x in (1, 2)}
        bare_max = fn == 'max' and first_variant == 'Null' and any((c.fn or '').endswith('cmp::Ord::max') for c in b.calls)
        ok = tested >= {1, 2} or (not tested and bare_max)
        ctx.ob(R6, f'DataValue::{fn}·null-on-both-sides', ok,
               f'DataValue::{fn}: operands tested for NULL: {sorted(tested)} (1 = self / the running value, 2 = other / the input)'
               + ('; bare Ord::max with NULL as the least variant' if (not tested and bare_max) else ''), [b.loc],
               what=f'DataValue::{fn} guards only one operand against NULL: `select min(v) ..` returns NULL (or the minimum of the values '
                    'after the last NULL) when a NULL follows a non-NULL value in a group')


def cte_rule(ctx, prog):
    R5 = 'C02-R5'
    ctx.rule(R5, 'two references to a relation are two relations: a base-table reference draws a fresh table occurrence for its column ids; a '
                 'CTE is bound once, so a reference to it must re-bind the CTE (bind_query) or be refused when the CTE has been '
                 'referenced before (a set insertion with an error exit); otherwise `w w1, w w2` compares a column with itself')
    bt = next((b for n, b in prog.bodies.items() if n.endswith('::bind_table_def') and 'binder::table' in n), None)
    if ctx.anchor(R5, 'binder::table::bind_table_def', bt is not None):
        ctx.functions_analysed.add(bt.name)
        fc = [c for c in bt.calls if (c.fn or '').endswith('Binder::find_cte')]
        if ctx.anchor(R5, 'bind_table_def: find_cte', fc):
            # the Some arm of the match on find_cte's result
            some_t = []
            for i, bl in enumerate(bt.blocks):
                t = bl['term']
                if t['k'] == 'switch' and t.get('adt') == 'std::option::Option' and bl['term'].get('on') and \
                        any(c.dest['l'] in origin_locals(bt, t['on']['l'], depth=4) for c in fc):
                    names = t.get('variants', {})
                    some_t += [tgt for v, tgt in t['targets'] if names.get(str(v)) == 'Some']
                    none_t = [tgt for v, tgt in t['targets'] if names.get(str(v)) == 'None'] + ([t['otherwise']] if t.get('otherwise') is not None else [])
            region = bt.reachable_from(some_t, avoid=set(none_t) - set(some_t)) if some_t else set()
            rebind = [c for c in bt.calls if c.bb in region and re.search(r'bind_query', c.fn or '')]
            guard = [c for c in bt.calls if c.bb in region and re.search(r'Hash(Set|Map)::<.*>::insert$', c.name or '')
                     and bt.reachable_from([c.bb]) & bt.error_exit_blocks()]
            ctx.ob(R5, 'bind_table_def·cte-reference-is-fresh-or-refused', bool(rebind) or bool(guard),
                   f'CTE branch blocks {sorted(region)[:6]}..: re-binds: {len(rebind)}; first-reference guard with an error exit: {[c.bb for c in guard]}',
                   [site(bt, c.bb) for c in (guard or rebind or fc)],
                   what='a second reference to a CTE reuses the column ids of the first: `with w as (..) select * from w w1, w w2 where w1.a = '
                        'w2.b` compares a column with itself and returns wrong rows')
        occ = [st for _, st in bt.stmts() if st['s'] == 'assign' and st['rv'].get('rv') == 'ref' and
               any(f.endswith('Binder::table_occurrences') for f in pl_fields(st['rv']['pl']))]
        ctx.ob(R5, 'bind_table_def·base-table-occurrence', bool(occ), f'bind_table_def updates table_occurrences: {bool(occ)}', [bt.loc])
