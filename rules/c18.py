"""C18 - corrupted column data is detected, not returned.

Decides: (R1) a block enters the block cache only after its checksum was verified (verification
inside the cache-fill future / before Cache::insert); (R2) the column index is verified before it
is decoded, and Column::get_block is the only reader of column bytes; (R4) verify_checksum cannot
return Ok without having compared the stored checksum.
Does not decide: strength of CRC32, corruption of the trailer's own type word beyond R4."""
import re

from tmpl import uses_of, site, suffix, done_sites, start_sites, origin_locals, local_defs
from mir import operand_places, pl_fields

SEC = 'storage::secondary::'
GET_BLOCK = SEC + 'column::Column::get_block'
FROM_BYTES = SEC + 'index::ColumnIndex::from_bytes'
VERIFY = SEC + 'checksum::verify_checksum'


def run(ctx):
    prog = ctx.prog('all' if ctx.thorough else 'lib')
    ctx.extra['facts_key'] = prog.key
    ctx.explanation = ('T-order rules on the block read path: the value stored in the moka block cache is produced by a future '
                       'that verified the checksum; index bytes are verified before decode; the verifier always compares.')
    ctx.trusted += ['rustc MIR facts', 'moka Cache::try_get_with stores the Ok value of the init future']
    R1 = 'C18-R1'
    ctx.rule(R1, 'every value inserted into the block cache was verified first: verify_checksum dominates the successful '
                 'return of the future given to Cache::try_get_with / get_with, and dominates every Cache::insert')
    fills = [c for c in prog.calls_matching_all(re.compile(r'moka::future::Cache::<.*>::(try_get_with|get_with|insert|try_get_with_by_ref|get_with_by_ref|optionally_get_with)$'))
             if c.body.name.startswith(SEC) and not (c.fn or '').endswith('Future::poll')]
    ctx.floor(R1, len(fills), 1, 'block-cache fill sites')
    for c in fills:
        b = c.body
        ctx.functions_analysed.add(b.name)
        kind = (c.fn or '').rsplit('::', 1)[-1]
        if kind == 'insert':
            v = done_sites(prog, b, 'checksum::verify_checksum')
            ok = bool(v) and b.dominated_by_any(set(v), c.bb)
            ctx.ob(R1, f'{b.root}·verify≺Cache::insert', ok, f'Cache::insert at block {c.bb}; verify_checksum at {v}', [site(b, c.bb)])
            continue
        # the init future: last argument, a coroutine/closure aggregate built in this body
        fut = c.args[-1]
        child = None
        if fut['k'] != 'const':
            for bb, st in b.stmts():
                rv = st.get('rv', {})
                if st['lhs']['l'] == fut['pl']['l'] and rv.get('rv') == 'agg' and rv.get('def'):
                    child = prog.body(rv['def'])
        if not ctx.anchor(R1, f'{b.root}:cache-fill future', child is not None):
            continue
        ctx.functions_analysed.add(child.name)
        v = done_sites(prog, child, 'checksum::verify_checksum', depth=2)
        rets = [r for r in child.return_blocks()]
        errs = child.error_exit_blocks()
        # successful returns: return blocks reachable without passing an error exit
        good_reach = child.reachable_from([0], avoid=set(v) | errs)
        leak = [r for r in rets if r in good_reach]
        ok = bool(v) and not leak
        ctx.ob(R1, f'{b.root}·verify-inside-cache-fill', ok,
               f'the future {child.name} handed to Cache::{kind}: verify_checksum sites {v}; successful returns reachable without '
               f'verification: {leak}', [site(b, c.bb)],
               what='Column::get_block inserts the block into the cache before verifying it (verification runs after '
                    'try_get_with, only on a miss): after a failed first read, later reads are served unverified from the cache')

    R2 = 'C18-R2'
    ctx.rule(R2, 'ColumnIndex::from_bytes verifies the checksum before decoding entries; column bytes are read only by '
                 'Column::get_block')
    b = prog.inlined(FROM_BYTES)
    if ctx.anchor(R2, FROM_BYTES, b is not None):
        ctx.functions_analysed.add(b.name)
        v = done_sites(prog, b, 'checksum::verify_checksum')
        dec = [c.bb for c in b.calls if re.search(r'decode_length_delimited$|Message::decode$', c.fn or '')]
        if ctx.anchor(R2, 'from_bytes:decode', dec):
            ok = bool(v) and all(b.dominated_by_any(set(v), d) for d in dec)
            ctx.ob(R2, 'ColumnIndex::from_bytes·verify≺decode', ok, f'verify at {v}, decode at {dec}', [site(b, x) for x in dec])
    readers = [c for c in prog.calls_matching_all(re.compile(r'FileExt::read_exact_at$|Read::read_exact$|FileExt::read_at$|Read::read$|Read::read_to_end$'))
               if c.body.name.startswith(SEC + 'column')]
    ctx.floor(R2, len(readers), 2, 'raw reads of column files')
    for c in readers:
        ok = prog.owned_by(c.body.root, {GET_BLOCK})        # get_block, or a helper only get_block calls
        ctx.ob(R2, f'who:{c.body.root}→raw-read', ok, f'raw column read `{c.fn}` in {c.body.name}', [site(c.body, c.bb)])
    # every index file is decoded through from_bytes
    fb = [c for c in prog.calls_matching_all(suffix('BlockIndex::decode_length_delimited', 'prost::Message::decode_length_delimited'))
          if 'BlockIndex' in ' '.join(c.t.get('gargs', []) + [c.name or ''])]
    for c in fb:
        ok = prog.owned_by(c.body.root, {FROM_BYTES})       # from_bytes, or a helper only from_bytes calls
        ctx.ob(R2, f'who:{prog.owner_root(c.body.root)}→BlockIndex::decode', ok, f'BlockIndex decoded in {c.body.name}', [site(c.body, c.bb)])

    R4 = 'C18-R4'
    ctx.rule(R4, 'verify_checksum: every successful return is dominated by the comparison of the computed value with the '
                 'stored checksum (no checksum type short-cuts to Ok)')
    b = prog.inlined(VERIFY)
    if ctx.anchor(R4, VERIFY, b is not None):
        ctx.functions_analysed.add(b.name)
        cmps = [bb for bb, st in b.stmts() if st.get('rv', {}).get('rv') == 'binop' and st['rv']['op'] in ('Ne', 'Eq')
                and st['rv']['ty'] == 'u64']
        oks = [bb for bb, st in b.aggregates('std::result::Result', 'Ok')]
        if ctx.anchor(R4, 'verify_checksum:comparison', cmps) and ctx.anchor(R4, 'verify_checksum:Ok', oks):
            bad = [o for o in oks if not b.dominated_by_any(set(cmps), o)]
            ctx.ob(R4, 'verify_checksum·compare≺Ok', not bad,
                   f'Ok built at blocks {oks}; comparison at {cmps}; Ok not dominated by a comparison: {bad}',
                   [site(b, x) for x in bad])
        # callers: all call sites pass a checksum decoded from the stored trailer (reported)
        callers = [c for c in prog.calls_matching_all(suffix('checksum::verify_checksum')) if (c.fn or '').endswith('verify_checksum')]
        ctx.floor(R4, len(callers), 2, 'verify_checksum call sites')
        ctx.extra['verify_checksum_callers'] = [c.body.name for c in callers]

    R5 = 'C18-R5'
    ctx.rule(R5, 'checksums are on by default for a database opened from the command line: StorageOptions::default_for_cli sets '
                 'checksum_type = Crc32')
    d = prog.body(SEC + 'options::StorageOptions::default_for_cli')
    if ctx.anchor(R5, 'StorageOptions::default_for_cli', d is not None):
        ctx.functions_analysed.add(d.name)
        val = None
        for bb, st in d.aggregates(SEC + 'options::StorageOptions'):
            rv = st['rv']
            if 'checksum_type' in rv['fields']:
                op = rv['ops'][rv['fields'].index('checksum_type')]
                if op['k'] != 'const':
                    for bb2, st2 in d.stmts():
                        if st2['lhs']['l'] == op['pl']['l'] and st2.get('rv', {}).get('rv') == 'agg':
                            val = st2['rv'].get('variant')
                else:
                    val = op.get('v')
        ctx.ob(R5, 'default_for_cli·checksum_type', val == 'Crc32', f'default_for_cli sets checksum_type = {val}', [d.loc])

    R6 = 'C18-R6'
    ctx.rule(R6, 'writer and reader agree on what is stored around the checksum: the put_* sequence of the block trailer / index '
                 'footer mirrors the get_* sequence of their decoders, the sizes add up to the declared constants, and the checksum is '
                 'computed before the part it does not cover is appended')
    W = {'u8': 1, 'i8': 1, 'u16': 2, 'i16': 2, 'u32': 4, 'i32': 4, 'u64': 8, 'i64': 8}

    def seq(body, kind):
        pat = re.compile(r'(?:BufMut::put_|Buf::get_)([a-z0-9_]+)$')
        return [m.group(1) for c in sorted(body.calls, key=lambda c: c.bb)
                for m in [pat.search(c.fn or '')] if m and ((kind == 'put') == ('put_' in (c.fn or '')))]
    enc1 = prog.body(SEC + 'block::BlockMeta::encode_except_checksum')
    enc2 = prog.body(SEC + 'block::BlockMeta::encode_checksum')
    dec = prog.body(SEC + 'block::BlockMeta::decode')
    if ctx.anchor(R6, 'BlockMeta::{encode_except_checksum, encode_checksum, decode}', enc1 is not None and enc2 is not None and dec is not None):
        p1, p2, g = seq(enc1, 'put'), seq(enc2, 'put'), seq(dec, 'get')
        consts = {k.rsplit('::', 1)[-1]: int(v['bits']) for k, v in prog.consts.items() if k.startswith(SEC + 'block::BLOCK_META')}
        n1, n2 = sum(W.get(x.split('_')[0], 0) for x in p1), sum(W.get(x.split('_')[0], 0) for x in p2)
        ok = p1 + p2 == g and consts.get('BLOCK_META_NON_CHECKSUM_SIZE') == n1 and consts.get('BLOCK_META_CHECKSUM_SIZE') == n2 \
            and consts.get('BLOCK_META_SIZE') == n1 + n2
        ctx.ob(R6, 'BlockMeta·trailer-mirror', ok, f'trailer written {p1}+{p2}, read {g}; constants {consts}; bytes {n1}+{n2}',
               [enc1.loc, dec.loc])
    fin = prog.inlined(SEC + 'index_builder::IndexBuilder::finish')
    fb = prog.inlined(FROM_BYTES)
    if ctx.anchor(R6, 'IndexBuilder::finish', fin is not None) and fb is not None:
        ctx.functions_analysed.add(fin.name)
        pw, gr = seq(fin, 'put'), seq(fb, 'get')
        foot = prog.consts.get(SEC + 'index_builder::INDEX_FOOTER_SIZE')
        nbytes = sum(W.get(x.split('_')[0], 0) for x in pw)
        bc = [c.bb for c in fin.calls if (c.fn or '').endswith('build_checksum')]
        puts = [c.bb for c in fin.calls if 'BufMut::put_' in (c.fn or '')]
        before = bool(bc) and all(fin.dominated_by_any(set(bc), x) for x in puts)
        ctx.ob(R6, 'index-footer·mirror', pw == gr and foot is not None and int(foot['bits']) == nbytes and before,
               f'footer written {pw}, read {gr}; INDEX_FOOTER_SIZE={foot and foot["bits"]}, bytes written {nbytes}; checksum computed '
               f'before the footer is appended: {before}', [fin.loc, fb.loc])
    fbk = prog.inlined(SEC + 'block::block_index_builder::BlockIndexBuilder::finish_block')
    if ctx.anchor(R6, 'BlockIndexBuilder::finish_block', fbk is not None):
        ctx.functions_analysed.add(fbk.name)
        bc = [c.bb for c in fbk.calls if (c.fn or '').endswith('build_checksum')]
        e1 = [c.bb for c in fbk.calls if (c.fn or '').endswith('BlockMeta::encode_except_checksum')]
        e2 = [c.bb for c in fbk.calls if (c.fn or '').endswith('BlockMeta::encode_checksum')]
        ok = bool(bc and e1 and e2) and all(fbk.dominated_by_any(set(e1), x) for x in bc) and all(fbk.dominated_by_any(set(bc), x) for x in e2)
        ctx.ob(R6, 'finish_block·type≺checksum≺trailer', ok,
               f'encode_except_checksum {e1} must precede build_checksum {bc}, which must precede encode_checksum {e2}', [fbk.loc])

    R7 = 'C18-R7'
    ctx.rule(R7, 'every block trailer carries the configured checksum type: in BlockIndexBuilder::finish_block the checksum type given to '
                 'build_checksum (and written into the trailer) is read from the builder options, or from a field of self that '
                 'finish_block itself never writes or mutably borrows; a template that is consumed by the first block leaves every '
                 'later block with the default type None, whose "checksum" is always valid')
    fb = prog.inlined('storage::secondary::block::block_index_builder::BlockIndexBuilder::finish_block')
    if ctx.anchor(R7, 'BlockIndexBuilder::finish_block', fb is not None):
        ctx.functions_analysed.add(fb.name)
        bc = [c for c in fb.calls if (c.fn or '').endswith('checksum::build_checksum')]
        if ctx.anchor(R7, 'finish_block: build_checksum', bc):
            # fields of *self that finish_block writes or borrows mutably
            written = set()
            for bb, st in fb.stmts():
                if st['s'] != 'assign':
                    continue
                if st['lhs']['l'] in fb.self_aliases() and st['lhs']['p']:
                    written |= set(pl_fields(st['lhs'])[:1])
                rv = st['rv']
                if rv.get('rv') == 'ref' and rv.get('mut') and rv['pl']['l'] in fb.self_aliases():
                    written |= set(pl_fields(rv['pl'])[:1])
            for c in bc:
                src_fields = set()
                for l in origin_locals(fb, c.args[0]['pl']['l'], depth=12) if c.args and c.args[0]['k'] != 'const' else []:
                    for bb, kind, payload in local_defs(fb, l):
                        if kind == 'assign':
                            for pl in operand_places(payload):
                                if pl['l'] in fb.self_aliases():
                                    src_fields |= set(pl_fields(pl)[:1])
                from_options = any(f.endswith('BlockIndexBuilder::options') for f in src_fields)
                stable = bool(src_fields) and not (src_fields & written)
                ctx.ob(R7, 'finish_block·checksum-type-from-stable-config', from_options or stable,
                       f'checksum type of the trailer comes from self fields {sorted(src_fields)}; fields finish_block writes or mutably '
                       f'borrows: {sorted(written)}', [site(fb, c.bb)],
                       what='BlockIndexBuilder::finish_block takes the trailer\'s checksum type from state it consumes: only the first block '
                            'of a column file is written with the configured checksum, corruption in every later block goes undetected')

    R8 = 'C18-R8'

    ctx.rule(R8, 'what ColumnIndex::from_bytes takes from the footer without checksum protection is cross-checked against the protected '
                 'part: the block count must consume exactly the checksummed index entries (after the decode loop the remaining '
                 'index data is tested for emptiness, with an error exit)')
    fb_ = prog.inlined(FROM_BYTES)
    if ctx.anchor(R8, FROM_BYTES, fb_ is not None):
        ctx.functions_analysed.add(fb_.name)
        dec = [c for c in fb_.calls if re.search(r'decode_length_delimited$', c.fn or '')]
        if ctx.anchor(R8, 'from_bytes: decode_length_delimited', dec):
            buf = set()
            for c in dec:
                for a in c.args:
                    if a['k'] != 'const':
                        buf |= origin_locals(fb_, a['pl']['l'], depth=3)
            tests = [c for c in fb_.calls if re.search(r'::(is_empty|has_remaining|remaining|len)$', c.fn or '') and c.args and c.args[0]['k'] != 'const'
                     and buf & origin_locals(fb_, c.args[0]['pl']['l'], depth=3) and c.bb not in {d.bb for d in dec}]
            errs = fb_.error_exit_blocks()
            after = [c for c in tests if any(c.bb in fb_.reachable_from(fb_.succs[d.bb]) for d in dec) and fb_.reachable_from([c.bb]) & errs]
            ctx.ob(R8, 'from_bytes·count-consumes-the-index-data', bool(after),
                   f'emptiness / length tests of the index data after the decode loop with an error exit: {[c.bb for c in after]}',
                   [site(fb_, c.bb) for c in (after or dec)],
                   what='the block count of an index file is trusted although the checksum does not cover it: a corrupted count makes the '
                        'column lose its last blocks without an error')

    R10 = 'C18-R10'
    ctx.rule(R10, 'a damaged index file is reported, not crashed on: ColumnIndex::from_bytes slices its input at `len - footer size` only behind a '
                  'test of the length with an error exit, and the Vec it fills is not sized by the block count of the footer alone (that count '
                  'is not covered by the checksum): the capacity passes through `min` or does not come from the footer')
    fb2 = prog.inlined(FROM_BYTES)
    if ctx.anchor(R10, FROM_BYTES, fb2 is not None):
        errs = fb2.error_exit_blocks()
        slices = [c for c in fb2.calls if re.search(r'ops::Index(Mut)?::index(_mut)?$|slice::<impl \[T\]>::(split_at|split_at_mut|split_at_unchecked)$', c.fn or '')]
        len_tests = []
        for i, bl in enumerate(fb2.blocks):
            t = bl['term']
            if t['k'] != 'switch' or bl['cleanup'] or t['discr']['k'] == 'const':
                continue
            src = origin_locals(fb2, t['discr']['pl']['l'], depth=4)
            cmpd = any(kind == 'assign' and p_.get('rv') == 'binop' and p_['op'] in ('Lt', 'Le', 'Gt', 'Ge') for x in src for _, kind, p_ in local_defs(fb2, x))
            lens = any(c.dest['l'] in src and re.search(r'::len$', c.fn or '') for c in fb2.calls)
            # `let Some(n) = data.len().checked_sub(FOOTER) else { return Err(..) }` is a length test as well
            checked = [c for c in fb2.calls if c.dest['l'] in src and re.search(r'::checked_sub$', c.fn or '') and c.args and c.args[0]['k'] != 'const'
                       and any(k.dest['l'] in origin_locals(fb2, c.args[0]['pl']['l'], depth=3) and re.search(r'::len$', k.fn or '') for k in fb2.calls)]
            if checked and t.get('adt') == 'std::option::Option' and fb2.reachable_from([i], avoid={c.bb for c in slices}) & errs:
                len_tests.append(i)
                continue
            if cmpd and lens and fb2.reachable_from([i], avoid={c.bb for c in slices}) & errs:
                len_tests.append(i)
        if ctx.anchor(R10, 'from_bytes: slicing of the input', slices):
            ok = bool(len_tests) and all(fb2.dominated_by_any(set(len_tests), c.bb) for c in slices)
            ctx.ob(R10, 'from_bytes·length-checked-before-slicing', ok,
                   f'input sliced at {[c.bb for c in slices]}; length tests with an error exit before: {len_tests}', [site(fb2, c.bb) for c in slices][:2],
                   what='ColumnIndex::from_bytes computes `len - footer size` without looking at the length: an index file cut below its footer '
                        'panics the process at open (attempt to subtract with overflow) instead of reporting corruption')
        caps = [c for c in fb2.calls if re.search(r'Vec::<.*>::with_capacity$|Vec::<.*>::reserve', c.name or '')]
        if ctx.anchor(R10, 'from_bytes: allocation for the entries', caps):
            for c in caps:
                src = origin_locals(fb2, c.args[0]['pl']['l'], depth=6) if c.args and c.args[0]['k'] != 'const' else set()
                from_footer = any(k.dest['l'] in src and re.search(r'Buf::get_u(32|64)$|Buf::get_i(32|64)$', k.fn or '') for k in fb2.calls)
                bounded = any(k.dest['l'] in src and re.search(r'cmp::Ord::min$|cmp::min$', k.fn or '') for k in fb2.calls)
                ctx.ob(R10, 'from_bytes·allocation-not-sized-by-the-footer', (not from_footer) or bounded,
                       f'capacity at block {c.bb}: from a footer field: {from_footer}; bounded by min: {bounded}', [site(fb2, c.bb)],
                       what='ColumnIndex::from_bytes allocates as many entries as the unchecked block count of the footer says: a flipped high bit '
                            'panics the process at open (capacity overflow) instead of reporting corruption')

    # a damaged row-set must not be retired unread (after seed C18-e)
    from rules.c07 import compaction_merges_what_it_retires
    compaction_merges_what_it_retires(ctx, prog, 'C18-R11')

    R9 = 'C18-R9'
    ctx.rule(R9, 'the checksum type that decides HOW a block is verified is not taken from the unverified block itself: a corrupted trailer '
                 '(e.g. zeroed: type None, checksum 0) otherwise verifies trivially. In Column::get_block the type given to '
                 'verify_checksum must not derive from the BlockMeta decoded out of the block being verified')
    gb = [b_ for b_ in prog.group(GET_BLOCK)] if GET_BLOCK in prog.bodies else []
    vs = [(g, c) for g in gb for c in g.calls if (c.fn or '').endswith('checksum::verify_checksum')]
    if ctx.anchor(R9, 'Column::get_block: verify_checksum', vs):
        for g, c in vs:
            ctx.functions_analysed.add(g.name)
            src = origin_locals(g, c.args[0]['pl']['l'], depth=12) if c.args and c.args[0]['k'] != 'const' else set()
            from_trailer = any((k.fn or '').endswith('BlockMeta::decode') and any(a['k'] != 'const' and a['pl']['l'] in src for a in k.args)
                               for k in g.calls) or any('BlockMeta' in g.local_ty(l) for l in src)
            ctx.ob(R9, 'get_block·checksum-type-not-from-the-block', not from_trailer,
                   f'{g.name}: the checksum type passed to verify_checksum at block {c.bb} ' +
                   ('derives from the trailer decoded out of the same block' if from_trailer else 'comes from configuration'),
                   [site(g, c.bb)],
                   what='Column::get_block takes the checksum type from the trailer of the block it is about to verify: a corrupted trailer '
                        'that reads {type None, checksum 0} verifies, and the damaged values are returned')

    short_transfers_examined(ctx, prog, 'C18-R12')


PARTIAL = re.compile(r'FileExt::(read_at|write_at)$|io::Read::read$|io::Write::write$|AsyncReadExt::read$|AsyncWriteExt::write$')


def unexamined_counts(prog, prefix):
    """calls of a read / write that may transfer fewer bytes than asked, whose byte count is never looked at"""
    out, n = [], 0
    for b in prog.bodies.values():
        if not b.name.startswith(prefix) or b.rec.get('derived'):
            continue
        for c in b.calls:
            if not PARTIAL.search(c.fn or '') or c.dest is None or c.dest['p']:
                continue
            n += 1
            # forward: the result, through `?` / await machinery and moves, down to the usize; any real use of it counts
            track, todo, examined = set(), [c.dest['l']], False
            while todo and not examined:
                x = todo.pop()
                if x in track:
                    continue
                track.add(x)
                if x in b.ret_locals():
                    examined = True         # handed to the caller
                    break
                for u in uses_of(b, x):
                    kind = u[0]
                    if kind == 'assign':
                        lhs, rv = u[2], u[3]
                        if rv.get('rv') == 'use' and rv['op']['k'] != 'const' and any(p_.startswith('as:Break') or p_.startswith('as:Err') for p_ in rv['op']['pl']['p']):
                            continue            # the error, not the count
                        if rv.get('rv') in ('binop', 'unop') or (rv.get('rv') == 'cast' and b.local_ty(x) == 'usize'):
                            examined = True
                        elif rv.get('rv') == 'agg' and not (rv.get('adt') or '').endswith(('Result', 'Poll', 'ControlFlow')):
                            examined = True
                        elif not lhs['p']:
                            todo.append(lhs['l'])
                        elif lhs['l'] in b.ret_locals():
                            examined = True
                    elif kind == 'call':
                        t = u[2]
                        if re.search(r'Try::branch$|FromResidual::from_residual$|Future::poll$|IntoFuture::into_future$|Pin::<.*>::new_unchecked$|From::from$',
                                     t.get('fn') or ''):
                            if not t['dest']['p']:
                                todo.append(t['dest']['l'])
                        else:
                            examined = True
                    elif kind == 'discr':
                        pass
                    elif kind == 'switch' and b.local_ty(x) in ('usize', 'u64', 'u32'):
                        examined = True
                    elif kind in ('return', 'yield'):
                        examined = True
            if not examined:
                out.append((b, c))
    return out, n


def short_transfers_examined(ctx, prog, rid):
    ctx.rule(rid, 'a read that may return fewer bytes than asked (`read_at`, `Read::read`; likewise `write_at` / `Write::write`) tells how many '
                  'it transferred; a caller that throws the count away takes the zero-initialised rest of its buffer for file content - a '
                  'truncated column file then reads as a block of zeroes whose zeroed trailer says "no checksum". Every such call in the '
                  'storage engine either hands the count on or looks at it; `read_exact*` / `write_all` have no count and are the normal case')
    bad, n = unexamined_counts(prog, SEC)
    for b, c in bad:
        ctx.functions_analysed.add(b.name)
        ctx.ob(rid, f'{prog.owner_root(b.root)}·{(c.fn or "").rsplit("::", 1)[-1]}·count-examined', False,
               f'{b.name}: `{c.fn}` at block {c.bb}: the number of bytes transferred is never used', [site(b, c.bb)],
               what=f'{b.root.rsplit("::", 1)[-1]} ignores a short transfer of `{(c.fn or "").rsplit("::", 1)[-1]}`: after a truncated file the buffer keeps its zeroes and is taken for data')
    ctx.ob(rid, 'storage·no-unexamined-short-transfer', not bad, f'{n} partial-transfer call(s) in storage::secondary examined; count unused: {len(bad)}',
           nontrivial=False)
    try:
        import mir
        fx = mir.load_fixture()
        fbad, fn_ = unexamined_counts(fx, 'storage::secondary::')
        got = {b.root for b, _ in fbad}
        ctx.ob(rid, 'self-test·fixture', got == {'storage::secondary::short_read_ignored'} and fn_ >= 3,
               f'positive example flagged: {sorted(got)} of {fn_} partial reads in the fixture (expected exactly short_read_ignored)')
    except SystemExit as e:
        ctx.ob(rid, 'self-test·fixture', False, f'fixture crate could not be analysed: {e}')
