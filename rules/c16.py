"""C16 - declared types and constraints hold for every stored and returned value.

Decides: (R1) a NOT NULL violation error is reachable from INSERT and the column's nullability is read
on that path; (R2) INSERT wraps every target column in a cast to the declared column type; (R3) the
storage block format is chosen from the same nullability flag (which makes R1 necessary: a NULL in a
non-nullable column has no bitmap to live in and silently becomes a default value).
Does not decide: agreement of static plan types with run-time arrays (needs running the plan)."""
import re

from tmpl import site, suffix, flows_from, origin_locals, local_defs, fallible_guards

INSERT = 'executor::insert::InsertExecutor::<S>::execute'


def run(ctx):
    prog = ctx.prog('all' if ctx.thorough else 'lib')
    ctx.extra['facts_key'] = prog.key
    ctx.explanation = ('Reachability (T-reach) of the NOT NULL error constructors from the INSERT executor/binder, and construction '
                       'facts (Expr::Cast over ColumnCatalog::data_type) in the INSERT executor; flag agreement in RowsetBuilder.')
    ctx.trusted += ['rustc MIR facts', 'class-hierarchy call graph with depth bound']
    depth = 8 if ctx.thorough else 5
    R1 = 'C16-R1'
    ctx.rule(R1, 'the error for NULL in a non-nullable column (ExecutorError::not_nullable or BindError::NotNullableColumn) is '
                 'constructed on a path reachable from INSERT (executor or binder), and that path reads ColumnCatalog::is_nullable')
    ctors = [c for c in prog.calls_matching(suffix('executor::error::Error::not_nullable'))]
    binderr = [(bd, bb) for bd in prog.bodies.values() for bb, _ in bd.aggregates('binder::error::BindError', 'NotNullableColumn')]
    binderr += [(bd, bb) for bd in prog.bodies.values() for bb, _ in bd.aggregates('binder::error::ErrorKind', 'NotNullableColumn')]
    roots = {c.body.root for c in ctors} | {bd.root for bd, _ in binderr}
    ins_reach = set(prog.reach(INSERT, depth)) if INSERT in prog.bodies else set()
    bind = [b.root for b in prog.find(r'^binder::insert::<impl binder::Binder>::bind_insert$')]
    for r in bind:
        ins_reach |= set(prog.reach(r, depth))
    ctx.anchor(R1, INSERT, INSERT in prog.bodies)
    ctx.anchor(R1, 'Binder::bind_insert', bool(bind))
    hit = sorted(roots & ins_reach)
    nullable_read = False
    for r in hit:
        chain = prog.reach(r, 2)
        nullable_read |= any(prog.group_calls(x, suffix('ColumnCatalog::is_nullable', 'ColumnDesc::is_nullable')) for x in chain)
    for r in ins_reach:
        pass
    # is_nullable read somewhere on the insert path at all?
    nr = [r for r in ins_reach if prog.group_calls(r, suffix('ColumnCatalog::is_nullable', 'ColumnDesc::is_nullable'))]
    ctx.ob(R1, 'INSERT·not-null-enforced', bool(hit) and bool(nr),
           f'NOT NULL error constructed in {sorted(roots) or "no function at all"}; reachable from INSERT: {hit}; '
           f'is_nullable read on the INSERT path in: {sorted(nr)[:3]}',
           [site(c.body, c.bb) for c in ctors[:2]],
           what='NOT NULL is never enforced: Error::not_nullable has no caller, INSERT stores NULL into a non-nullable column '
                '(the disk engine then returns a default value such as 0 for it)')
    ctx.extra['not_null_error_sites'] = sorted(roots)

    R2 = 'C16-R2'
    ctx.rule(R2, 'InsertExecutor builds, for every table column, Expr::Cast(Expr::Type(col.data_type()), value) and evaluates '
                 'the input through that expression before append')
    grp = insert_bodies(prog)
    if ctx.anchor(R2, INSERT, bool(grp)):
        casts = [(g, bb) for g in grp for bb, _ in g.aggregates('planner::Expr', 'Cast')]
        types = []
        for g in grp:
            for bb, st in g.aggregates('planner::Expr', 'Type'):
                op = st['rv']['ops'][0]
                ok = op['k'] != 'const' and flows_from(g, op['pl']['l'], lambda k, p, b_: k == 'call' and
                                                       re.search(r'ColumnCatalog::data_type$|ColumnDesc::data_type$', p.get('fn') or '') is not None)
                types.append((g, bb, ok))
        ctx.ob(R2, 'InsertExecutor·cast-to-declared-type', bool(casts) and bool(types) and all(t[2] for t in types),
               f'Expr::Cast built at {[(g.name.rsplit("::",1)[-1], bb) for g, bb in casts]}; Expr::Type fed from '
               f'ColumnCatalog::data_type: {[t[2] for t in types]}', [site(g, bb) for g, bb in casts])
        main = prog.body(INSERT + '::{closure#0}')
        if ctx.anchor(R2, INSERT + '::{closure#0}', main is not None):
            ev = [c.bb for c in main.calls if (c.fn or '').endswith('Evaluator::<\'a>::eval_list')]
            ap = [c.bb for c in main.calls if (c.fn or '') == 'storage::Transaction::append']
            ok = bool(ev) and bool(ap) and all(main.dominated_by_any(set(ev), a) for a in ap)
            ctx.ob(R2, 'InsertExecutor·eval≺append', ok, f'eval_list at {ev} must dominate Transaction::append at {ap}',
                   [site(main, a) for a in ap])
            # the appended chunk is the evaluated one
            for c in main.calls:
                if (c.fn or '') == 'storage::Transaction::append' and len(c.args) > 1 and c.args[1]['k'] != 'const':
                    okf = flows_from(main, c.args[1]['pl']['l'], lambda k, p, b_: k == 'call' and (p.get('fn') or '').endswith("eval_list"), depth=10)
                    ctx.ob(R2, 'InsertExecutor·appends-casted-chunk', okf, 'the chunk handed to Transaction::append must be the result of eval_list',
                           [site(main, c.bb)])

    R5 = 'C16-R5'
    ctx.rule(R5, 'what is checked is what is stored: when the executor enforces NOT NULL, the arrays whose NULLs it counts and the '
                 'chunk it hands to Transaction::append both derive from the result of Evaluator::eval_list (the projection that '
                 'fills unlisted columns with NULL and casts); a check on the raw input misses the columns the INSERT does not list')
    main = prog.body(INSERT + '::{closure#0}')
    if ctx.anchor(R5, INSERT + '::{closure#0}', main is not None):
        ev = [c for c in main.calls if (c.fn or '').endswith('Evaluator::<\'a>::eval_list') or (c.fn or '').endswith('Evaluator::eval_list')
              or re.search(r'Evaluator::<.*>::eval_list$', c.fn or '')]
        ap = [c for c in main.calls if (c.fn or '') == 'storage::Transaction::append']
        nn = [c for c in main.calls if (c.fn or '').endswith('Error::not_nullable')]
        if ctx.anchor(R5, 'InsertExecutor: eval_list / Transaction::append', ev and ap):
            ev_d = {c.dest['l'] for c in ev}
            ok_ap = all(len(c.args) > 1 and c.args[1]['k'] != 'const' and ev_d & origin_locals(main, c.args[1]['pl']['l'], depth=30) for c in ap)
            ctx.ob(R5, 'INSERT·appends-the-projected-chunk', ok_ap, 'Transaction::append must receive the chunk produced by eval_list',
                   [site(main, c.bb) for c in ap])
            if nn:
                tests = [c for c in main.calls if re.search(r'ArrayImpl>?::(count|null_count|get_valid_bitmap|is_null)$|Array::(is_null|null_count)$', c.fn or '')]
                if ctx.anchor(R5, 'InsertExecutor: NULL test of an array', tests):
                    bad = [c for c in tests if not (c.args and c.args[0]['k'] != 'const' and ev_d & origin_locals(main, c.args[0]['pl']['l'], depth=30))]
                    ctx.ob(R5, 'INSERT·checks-the-projected-chunk', not bad,
                           f'{len(tests)} NULL test(s) examined; not derived from eval_list: {[site(main, c.bb) for c in bad]}',
                           [site(main, c.bb) for c in (bad or tests)],
                           what='InsertExecutor tests the raw input for NULLs instead of the projected chunk: a NOT NULL column that '
                                'the INSERT does not list is filled with NULL unchecked')
            else:
                ctx.note('C16-R5: NOT NULL is not enforced in InsertExecutor itself (see R1 for where it is)')

    R6 = 'C16-R6'
    ctx.rule(R6, 'the static type of a multi-row VALUES list is the union over ALL rows: in analyze_type the DataType::union call inside the '
                 'row loop takes the accumulated type as an operand (its result is stored back into that same variable); a union with '
                 'the first row only lets a wider middle row be narrowed silently by ValuesExecutor before INSERT casts it')
    at = prog.body('planner::rules::type_::analyze_type')
    if ctx.anchor(R6, 'planner::rules::type_::analyze_type', at is not None):
        ctx.functions_analysed.add(at.name)
        def flow(bd, c):
            """(locals the result of call c ends up in, locals its operands derive from)"""
            acc, todo, seen = set(), [c.dest['l']], set()
            while todo:
                x = todo.pop()
                if x in seen:
                    continue
                seen.add(x)
                for bb, st in bd.stmts():
                    if st['s'] == 'assign' and not st['lhs']['p'] and any(pl['l'] == x for pl in __pl(st['rv'])):
                        acc.add(st['lhs']['l'])
                        todo.append(st['lhs']['l'])
                for k in bd.calls:
                    if any(a['k'] != 'const' and a['pl']['l'] == x for a in k.args) and re.search(r'ok_or(_else)?$|Try::branch$', k.fn or ''):
                        todo.append(k.dest['l'])
            ops_origin = set()
            for a in c.args:
                if a['k'] != 'const':
                    ops_origin |= origin_locals(bd, a['pl']['l'], depth=4)
            return acc | (seen - {c.dest['l']}), ops_origin
        # the row loop: a `for` loop in analyze_type itself, or the closure of a fold over the rows (`rest.iter().try_fold(first, |acc, row| ..)`)
        un = [(at, c, None) for c in at.calls if (c.fn or '').endswith('DataType::union') and c.bb in at.reachable_from(at.succs[c.bb])]
        folds = {}
        for g in prog.group(at.root):
            for bb, st in g.stmts():
                rv = st.get('rv', {})
                if rv.get('rv') == 'agg' and rv.get('kind') == 'closure' and rv.get('def') in prog.bodies:
                    cl = st['lhs']['l']
                    if any(re.search(r'Iterator::(try_fold|fold)$', k.fn or '') and any(a['k'] != 'const' and cl in origin_locals(g, a['pl']['l'], depth=3)
                                                                                         for a in k.args) for k in g.calls):
                        folds[rv['def']] = prog.bodies[rv['def']]
        for ch in folds.values():
            un += [(ch, c, 2) for c in ch.calls if (c.fn or '').endswith('DataType::union')]       # _2 of the closure = the accumulator
        if ctx.anchor(R6, 'analyze_type: DataType::union inside a loop', un):
            for bd, c, acc_param in un:
                acc, ops_origin = flow(bd, c)
                if acc_param is None:
                    carried = acc & ops_origin
                else:   # the union takes the accumulator and its result is what the closure returns
                    carried = ({acc_param} & ops_origin) if (acc & bd.ret_locals() or c.dest['l'] in bd.ret_locals()) else set()
                ctx.ob(R6, 'Values·union-is-accumulated', bool(carried),
                       f'union at block {c.bb} of {bd.name}: result stored into locals {sorted(acc)[:8]}; operands derive from {sorted(ops_origin)[:8]}; '
                       f'loop-carried: {sorted(carried)}', [site(bd, c.bb)],
                       what='analyze_type unions every VALUES row with the first row instead of with the type accumulated so far: the list '
                            'gets the type union(first, last) and a wider middle row is narrowed without an error')

    R7 = 'C16-R7'
    ctx.rule(R7, 'the scale is part of a declared DECIMAL(p, s): INSERT brings every column to its declared type with ArrayImpl::cast (R2), '
                 'so that cast must enforce the scale - a rescale whose amount is the `s` of the target DataType::Decimal, applied to the '
                 'array it returns (COPY FROM has its own rescale)')
    from rules.c14 import cast_family
    fam = cast_family(prog)
    if ctx.anchor(R7, 'array::ops::ArrayImpl::cast', bool(fam)):
        rs = [(g, c) for g in fam for c in g.calls if re.search(r'PrimitiveArray::<.*Decimal>::rescale$|::rescale$', c.name or '')]
        ok = False
        for g, c in rs:
            if len(c.args) > 1 and c.args[1]['k'] != 'const':
                def from_type(kind, payload, bb):
                    return kind == 'assign' and any('as:Decimal' in pl['p'] for pl in __pl(payload))
                ok = ok or flows_from(g, c.args[1]['pl']['l'], from_type, depth=6)
        ctx.ob(R7, 'ArrayImpl::cast·decimal-scale-enforced', ok,
               f'rescale calls in the cast family: {[site(g, c.bb) for g, c in rs]}; scale taken from the target type: {ok}',
               [site(g, c.bb) for g, c in rs] or [fam[0].loc],
               what='a cast to DECIMAL(p, s) keeps the scale of its source: `insert into t values (1.234)` into a DECIMAL(15,2) column stores '
                    'and returns 1.234')

    R8 = 'C16-R8'
    ctx.rule(R8, 'a value is cast to, checked against and stored in the column it was written FOR: the source position that feeds the cast of '
                 'a table column is found by looking that column\'s id up in the statement\'s column list (Iterator::position over column_ids '
                 'with a predicate on ColumnCatalog::id) - never by the column\'s own position in the table')
    n_ci = 0
    for g in insert_bodies(prog):
        for bb, st in g.aggregates('types::ColumnIndex'):
            n_ci += 1
            ctx.functions_analysed.add(g.name)
            leaves = set()

            def walk(l, depth=10, seen=None):
                seen = seen if seen is not None else set()
                if l in seen or depth < 0:
                    return
                seen.add(l)
                ds = local_defs(g, l)
                if not ds:
                    leaves.add(('input', g.var_name(l) or f'_{l}'))
                for _, kind, payload in ds:
                    if kind == 'assign':
                        pls = __pl(payload)
                        if not pls:
                            leaves.add(('constant', str(payload.get('rv'))))
                        for pl in pls:
                            walk(pl['l'], depth - 1, seen)
                    else:
                        leaves.add(('call', payload.get('fn') or '?', payload.get('res') or ''))
            for op in st['rv']['ops']:
                if op['k'] == 'const':
                    leaves.add(('constant', 'literal'))
                else:
                    walk(op['pl']['l'])
            by_lookup = bool(leaves) and all(x[0] == 'call' and x[1].endswith('Iterator::position') for x in leaves)
            # the predicate of the look-up compares with the id of the column
            pred_ok = any((c.fn or '').endswith('ColumnCatalog::id') for h in insert_bodies(prog) for c in h.calls
                          if h.name.startswith(g.name + '::{closure'))
            ctx.ob(R8, 'InsertExecutor·source-position-by-column-id', by_lookup and pred_ok,
                   f'{g.name} block {bb}: the ColumnIndex fed into the cast comes from {sorted(set(x[1].rsplit("::", 1)[-1] if x[0] == "call" else x[0] + ":" + x[1] for x in leaves))}; '
                   f'look-up predicate reads ColumnCatalog::id: {pred_ok}', [site(g, bb)],
                   what='InsertExecutor pairs a source column with a table column by position instead of by the id in the column list: '
                        '`insert into t(c, a, b) values ..` casts, checks and stores each value under the wrong column')
    ctx.floor(R8, n_ci, 1, 'ColumnIndex nodes built by InsertExecutor')

    R9 = 'C16-R9'
    ctx.rule(R9, 'every target column takes exactly one value: bind_insert compares the width of the source query (Binder::schema(..).len()) '
                 'with the length of the target column list and leaves with an error before it builds the Insert node; bind_table_columns '
                 'refuses a column that is named twice. Otherwise surplus values are dropped silently, missing ones crash the executor, and '
                 'of two values for one column one is stored')
    BI = 'binder::insert::<impl binder::Binder>::bind_insert'
    bi = prog.body(BI)
    if ctx.anchor(R9, BI, bi is not None):
        ctx.functions_analysed.add(bi.name)
        ins = [bb for bb, _ in bi.aggregates('planner::Expr', 'Insert')]

        def arity_cmp(g):
            """comparisons in g of two lengths, one of them the width of a Binder::schema(..)"""
            out = []
            for bb, st in g.stmts():
                rv = st.get('rv', {}) if st['s'] == 'assign' else {}
                if rv.get('rv') == 'binop' and rv['op'] in ('Ne', 'Eq') and rv.get('ty') == 'usize':
                    src = set()
                    for pl in __pl(rv):
                        src |= origin_locals(g, pl['l'], depth=8)
                    lens = {c.bb for c in g.calls if c.dest['l'] in src and re.search(r'::len$', c.fn or '')}
                    from_schema = any(c.dest['l'] in src and (c.fn or '').endswith('Binder::schema') for c in g.calls)
                    if len(lens) >= 2 and from_schema:
                        out.append(bb)
            return out
        # the comparison sits in bind_insert - which is seen with its private helpers spliced in (`self.check_arity(..)?`); a helper shared
        # with other statements is not followed: "some length comparison somewhere below bind_query" is not this check
        errs_ = bi.error_exit_blocks()
        guards = [x for x in arity_cmp(bi) if bi.reachable_from([x], avoid=set(ins)) & errs_]
        ok = bool(ins) and bool(guards) and all(bi.dominated_by_any(set(guards), i) for i in ins)
        if ctx.anchor(R9, 'bind_insert builds Expr::Insert', bool(ins)):
            ctx.ob(R9, 'bind_insert·source-width-equals-target-columns', ok,
                   f'comparisons of the source width with the target list at {guards}; Insert built at {ins}', [site(bi, x) for x in (guards or ins)],
                   what='INSERT does not compare the number of values with the number of target columns: `insert into t values (1,2,3,4)` into a '
                        'three-column table stores (1,2,3), `insert into t(a,b) values (1)` dies in the executor (index out of bounds)')
    BTC = 'binder::table::<impl binder::Binder>::bind_table_columns'
    bt = prog.body(BTC)
    if ctx.anchor(R9, BTC, bt is not None):
        ctx.functions_analysed.add(bt.name)
        push = [c for c in bt.calls if re.search(r'Vec::<.*>::push$', c.name or '') and 'u32' in ' '.join(c.t.get('gargs', []))]
        has = [c for c in bt.calls if re.search(r'::contains$', c.fn or '')]
        errs = bt.error_exit_blocks()
        ok = bool(push) and bool(has) and all(bt.dominated_by_any({h.bb for h in has}, p_.bb) for p_ in push) and \
            any(bt.reachable_from([h.bb], avoid={p_.bb for p_ in push}) & errs for h in has)
        if ctx.anchor(R9, 'bind_table_columns collects the column ids', bool(push)):
            ctx.ob(R9, 'bind_table_columns·no-column-twice', ok,
                   f'ids pushed at {[p_.bb for p_ in push]}; membership test with an error exit before the push at {[h.bb for h in has]}',
                   [site(bt, p_.bb) for p_ in push],
                   what='a column may be named twice in the column list of INSERT / COPY: `insert into t(a, a, b) values (7,8,9)` stores a=7, '
                        'b=9 and silently drops the 8')

    from rules.c20 import import_rescale_rule
    import_rescale_rule(ctx, prog, 'C16-R10')
    # INSERT brings every value to its declared type through the Cast node: the evaluator must run the cast kernel (after seed C16-e)
    from rules.c14_types import evaluator_passes_nothing_through
    evaluator_passes_nothing_through(ctx, prog, 'C16-R11')
    lossless_insert_casts(ctx, prog)

    R3 = 'C16-R3'
    ctx.rule(R3, 'RowsetBuilder::new chooses the (nullable / non-nullable) block format from ColumnCatalog::is_nullable')
    rb = prog.group('storage::secondary::rowset::rowset_builder::RowsetBuilder::new')
    if ctx.anchor(R3, 'RowsetBuilder::new', bool(rb)):
        found = False
        for g in rb:
            for c in g.calls:
                if (c.fn or '').endswith('ColumnBuilderImpl::new_from_datatype') and len(c.args) >= 2 and c.args[1]['k'] != 'const':
                    found = True
                    ok = flows_from(g, c.args[1]['pl']['l'], lambda k, p, b_: k == 'call' and
                                    re.search(r'::is_nullable$', p.get('fn') or '') is not None)
                    ctx.ob(R3, 'RowsetBuilder::new·nullable-flag', ok,
                           'the `nullable` argument of ColumnBuilderImpl::new_from_datatype must come from column.is_nullable()',
                           [site(g, c.bb)])
        ctx.anchor(R3, 'RowsetBuilder::new: new_from_datatype(.., nullable, ..)', found)

    R4 = 'C16-R4'
    ctx.rule(R4, 'PRIMARY KEY implies NOT NULL for exactly the key the table gets: bind_create_table marks as non-nullable the '
                 'columns indexed by the same ordered_pk_ids value it stores into CreateTable (column option and table constraint alike)')
    grp = prog.group('binder::create_table::<impl binder::Binder>::bind_create_table')
    if ctx.anchor(R4, 'Binder::bind_create_table', bool(grp)):
        found_ct = False
        for g in grp:
            for bb, st in g.aggregates('binder::create_table::CreateTable'):
                rv = st['rv']
                if 'ordered_pk_ids' not in rv['fields']:
                    continue
                found_ct = True
                ctx.functions_analysed.add(g.name)
                op = rv['ops'][rv['fields'].index('ordered_pk_ids')]
                if op['k'] == 'const':
                    ctx.ob(R4, 'bind_create_table·pk-not-null', False, 'ordered_pk_ids is a constant')
                    continue
                key_locals = {l for l in origin_locals(g, op['pl']['l']) if 'std::vec::Vec<u32>' in g.local_ty(l)}
                sets = [c for c in g.calls if (c.fn or '').endswith('ColumnCatalog::set_nullable') and len(c.args) >= 2
                        and c.args[1]['k'] == 'const' and 'false' in c.args[1].get('v', '')]
                linked = [c for c in sets if c.args[0]['k'] != 'const' and origin_locals(g, c.args[0]['pl']['l'], depth=20) & key_locals
                          and g.reaches(c.bb, bb)]
                ctx.ob(R4, 'bind_create_table·pk-not-null', bool(linked),
                       f'set_nullable(false) calls in bind_create_table: {len(sets)}; indexed through the stored ordered_pk_ids '
                       f'({sorted(str(g.var_name(l) or l) for l in key_locals)}) before CreateTable is built: {len(linked)}',
                       [site(g, c.bb) for c in sets] or [site(g, bb)],
                       what='a key declared with a table-level PRIMARY KEY(..) constraint is not marked NOT NULL: NULL can be '
                            'inserted into a primary-key column')
        ctx.anchor(R4, 'CreateTable { ordered_pk_ids, .. } built in bind_create_table', found_ct)



def __pl(x):
    from mir import operand_places
    return operand_places(x)


def insert_bodies(prog):
    """InsertExecutor::execute with its closures, and the other methods of InsertExecutor (a helper that builds the cast expression)"""
    out = [b for b in prog.bodies.values() if b.name.startswith('executor::insert::InsertExecutor::<S>::')]
    roots = {b.root for b in out}
    # .. and free functions of the module that only the executor calls
    out += [b for b in prog.bodies.values() if b.root not in roots and b.name.startswith('executor::insert::')
            and prog.owned_by(b.root, roots)]
    return out


def lossless_insert_casts(ctx, prog):
    """C16-R12: INSERT converts losslessly or fails"""
    from rules.c14 import cast_family
    R12 = 'C16-R12'
    ctx.rule(R12, 'C16 asks that INSERT "either converts a value losslessly to [the declared] type or fails". INSERT converts with ArrayImpl::cast '
                  '(R2), so where that cast turns a fractional value (DECIMAL, DOUBLE) into an integer with `to_i16 / to_i32 / to_i64` - which '
                  'truncate - the same closure has to look at the fraction first (fract / is_integer / round / trunc compared with the value)')
    fam = cast_family(prog)
    if not ctx.anchor(R12, 'cast family of ArrayImpl', bool(fam)):
        return
    per_src = {}
    for g in fam:
        for c in g.calls:
            if re.search(r'ToPrimitive::to_i(16|32|64)$', c.fn or ''):
                src = ' '.join(c.t.get('gargs', []))
                kind = 'Decimal' if 'Decimal' in src else ('Float64' if 'f64' in src else None)
                if kind is None:
                    continue
                checked = any(re.search(r'::(fract|is_integer|round|round_dp|trunc|floor|ceil)$', k.fn or '') for k in g.calls)
                per_src.setdefault(kind, []).append((g, c, checked))
    ctx.floor(R12, sum(len(v) for v in per_src.values()), 4, 'fractional -> integer conversions in the cast family')
    for kind, lst in sorted(per_src.items()):
        ok = all(ch for _, _, ch in lst)
        ctx.functions_analysed.update(g.name for g, _, _ in lst)
        ctx.ob(R12, f'cast·{kind}→integer·fraction-looked-at', ok,
               f'{kind} -> integer: {len(lst)} conversion closures, {sum(1 for _, _, ch in lst if ch)} look at the fraction',
               [site(g, c.bb) for g, c, _ in lst][:3],
               what=f'a {kind} value with a fraction is stored into an integer column by truncation, without an error: `insert into t(a int) values '
                    '(2.7)` stores 2')
