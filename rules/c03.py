"""C03 - acknowledged changes survive a clean shutdown and reopen.

Reopen = replay of the manifest through the same catalog code. Decides: (R1) every consumer of a
persistent id counter is replay-reproducible (reached from bootstrap's replay), (R2) = C10-R1
validate-before-log, (R3) bootstrap re-derives every generated id kind from the log, (R4) every
emitter of DeleteRowSet also emits DeleteDV (paired tombstones).
Does not decide: content of replayed records, vacuum of directories."""
import re

from tmpl import site, suffix, pl_fields, done_sites, local_defs, region_callees

SEC = 'storage::secondary::'
BOOT = SEC + 'storage::<impl storage::secondary::SecondaryStorage>::bootstrap'
EPOCHOP = SEC + 'version_manager::EpochOp'
MANOP = SEC + 'manifest::ManifestOperation'
COUNTER = 'catalog::schema::SchemaCatalog::next_id'


def run(ctx):
    prog = ctx.prog('all' if ctx.thorough else 'lib')
    ctx.extra['facts_key'] = prog.key
    ctx.explanation = ('Call-graph (T-who/T-reach) and match-coverage (T-cover) rules: the table-id counter of a schema is '
                       'consumed only on paths that manifest replay also executes; bootstrap feeds every logged id kind back into '
                       'its generator; DeleteRowSet emitters also emit DeleteDV.')
    ctx.trusted += ['rustc MIR facts', 'class-hierarchy resolution of unresolved trait calls']
    depth = 8 if ctx.thorough else 5

    R1 = 'C03-R1'
    ctx.rule(R1, 'every function that advances SchemaCatalog.next_id (the source of TableId, which names directories and is '
                 'stored in AddRowSet/AddDV records) is executed by manifest replay too; an allocation on an unlogged path '
                 'shifts every later id after reopen')
    writers = []
    for b in prog.bodies.values():
        for bb, st in b.stmts():
            if any(f == COUNTER for f in pl_fields(st['lhs'])):
                writers.append(b)
                break
    ctx.floor(R1, len(writers), 1, 'functions writing SchemaCatalog::next_id')
    replayed = prog.reach(BOOT, depth=depth)
    ctx.anchor(R1, BOOT, BOOT in prog.bodies)
    # statement path = reachable from executor::build's executors
    stmt_roots = [b.root for b in prog.find(r'^executor::.*Executor.*::execute$|^executor::[a-z_]+::[A-Za-z]+Executor(::<S>)?::execute$')]
    stmt_reach = {}
    for r in stmt_roots:
        for k, v in prog.reach(r, depth=depth).items():
            stmt_reach.setdefault(k, r)
    for w in writers:
        ctx.functions_analysed.add(w.name)
        in_replay = w.root in replayed
        on_stmt = w.root in stmt_reach
        ok = in_replay or not on_stmt
        via = stmt_reach.get(w.root)
        ctx.ob(R1, f'{w.root}', ok,
               f'{w.name} advances the table-id counter; reached by replay: {in_replay}; reached from a statement executor: '
               f'{on_stmt}' + (f' (via {via})' if via else ''),
               [w.loc],
               what=f'{w.root.rsplit("::", 1)[-1]} consumes a table id but is not logged/replayed: after reopen later tables get '
                    f'different ids and AddRowSet records point at the wrong (or no) table')

    R3 = 'C03-R3'
    ctx.rule(R3, 'bootstrap: the arm of every ManifestOperation variant that carries a generated id feeds fetch_max of the '
                 'matching generator (AddRowSet -> AtomicU32, AddDV -> AtomicU64)')
    b = prog.body(BOOT + '::{closure#0}')
    if ctx.anchor(R3, BOOT + '::{closure#0}', b is not None):
        ctx.functions_analysed.add(b.name)
        sw = [(i, bl['term']) for i, bl in enumerate(b.blocks) if bl['term']['k'] == 'switch' and bl['term'].get('adt') == MANOP]
        if ctx.anchor(R3, 'bootstrap: match on ManifestOperation', sw):
            i, t = sw[0]
            arms = {t['variants'][v]: tgt for v, tgt in t['targets'] if v in t.get('variants', {})}
            for var, width in (('AddRowSet', 'u32'), ('AddDV', 'u64')):
                if not ctx.anchor(R3, f'arm {var}', var in arms):
                    continue
                others = {tgt for vv, tgt in arms.items() if vv != var} | {i}
                region = b.reachable_from([arms[var]], avoid=others)
                fm = [c for c in b.calls if c.bb in region and
                      re.search(r'Atomic(U32|U64|::<u32>|::<u64>)::fetch_max$', c.name or '') and
                      (width in (c.name or '') or width.upper() in (c.name or ''))]
                ctx.ob(R3, f'bootstrap·{var}→fetch_max<{width}>', bool(fm),
                       f'arm `{var}` (block {arms[var]}) must advance the {width} id generator with fetch_max',
                       [site(b, c.bb) for c in fm])
            # R6: every replayed record takes effect on every path of its arm (no record is skipped conditionally)
            R6 = 'C03-R6'
            ctx.rule(R6, 'replay applies every record unconditionally: on every non-error path through the arm of Add* the record '
                         'is registered for opening (HashMap::insert), of Delete* it is unregistered (HashMap::remove), of '
                         'CreateTable/DropTable it is applied to the catalog and kept for the compacted manifest; a record that is '
                         'skipped under a condition (e.g. "table not known yet") is acknowledged data silently dropped, because '
                         'the rewritten manifest need not keep the order of the live log')
            nxt = {c.bb for c in b.calls if c.bb is not None and re.search(r'Iterator::next$', c.fn or '')}
            MUST = {'AddRowSet': [r'(Hash|BTree)Map::<.*>::insert$'], 'AddDV': [r'(Hash|BTree)Map::<.*>::insert$'],
                    'DeleteRowSet': [r'(Hash|BTree)Map::<.*>::remove$'], 'DeleteDV': [r'(Hash|BTree)Map::<.*>::remove$'],
                    'CreateTable': [r'apply_create_table$', r'Vec::<.*>::push$'],
                    'DropTable': [r'apply_drop_table$', r'Vec::<.*>::push$']}
            errs = b.error_exit_blocks()
            for var, pats in MUST.items():
                if not ctx.anchor(R6, f'arm {var}', var in arms):
                    continue
                others = {tgt for vv, tgt in arms.items() if vv != var}
                for pat in pats:
                    sites_ = {c.bb for c in b.calls if re.search(pat, c.name or c.fn or '')}
                    region = b.reachable_from([arms[var]], avoid=others | {i} | errs | sites_)
                    # leaving the arm = reaching the loop head again (the switch block's predecessors' poll) or the code after the loop
                    escaped = sorted(x for x in region if x in nxt)
                    ctx.ob(R6, f'bootstrap·{var}·always·{pat.split("::")[-1].rstrip("$")}', bool(sites_) and not escaped,
                           f'arm `{var}` (block {arms[var]}): every path back to the replay loop must pass `{pat}` '
                           f'(sites {sorted(sites_)[:6]}); reaches the next iteration without it through {escaped}',
                           [site(b, arms[var])],
                           what=f'manifest replay skips a {var} record on some path: a change that was acknowledged is not restored on reopen')
            # all variants have an arm or an explicit no-op (the match is exhaustive by the compiler); report coverage
            ctx.extra['manifest_op_arms'] = sorted(arms)

    R4 = 'C03-R4'
    ctx.rule(R4, 'paired tombstones: bootstrap opens every Add* record without a matching Delete* and unwraps its owner table; '
                 'therefore every function that emits EpochOp::DeleteRowSet must also emit EpochOp::DeleteDV for the DVs of '
                 'that row-set; the same for the DropTable arm of commit_changes, which retires the row-sets of a dropped table itself')
    emit = {}
    for bd in prog.bodies.values():
        for var in ('DeleteRowSet', 'DeleteDV', 'AddRowSet', 'AddDV', 'DropTable', 'CreateTable'):
            if any(True for _ in bd.aggregates(EPOCHOP, var)):
                emit.setdefault(bd.root, set()).add(var)
    # DROP TABLE retires the row-sets inside commit_changes (arm of EpochOp::DropTable), as manifest records: the same pairing there
    CCM = SEC + 'version_manager::VersionManager::commit_changes_with_custom_manifest::{closure#0}'
    cb = prog.inlined(CCM)
    if ctx.anchor(R4, CCM, cb is not None):
        MOP = SEC + 'manifest::ManifestOperation'
        for i, bl in enumerate(cb.blocks):
            t = bl['term']
            if t['k'] == 'switch' and t.get('adt') == EPOCHOP and not bl['cleanup']:
                arms = {t['variants'][v]: tgt for v, tgt in t['targets'] if v in t.get('variants', {})}
                if 'DropTable' in arms:
                    others = {tgt for vv, tgt in arms.items() if vv != 'DropTable'} | {i}
                    region = cb.reachable_from([arms['DropTable']], avoid=others)
                    made = {st['rv']['variant'] for bb, st in cb.aggregates(MOP) if bb in region}
                    for _, hb in region_callees(prog, cb, region):      # the arm, or part of it, moved into a helper
                        made |= {st['rv']['variant'] for _, st in hb.aggregates(MOP)}
                    if 'DeleteRowSet' in made:
                        emit.setdefault(cb.root + '·DropTable-arm', set()).update(made)
    dels = {r: v for r, v in emit.items() if 'DeleteRowSet' in v}
    ctx.floor(R4, len(dels), 2, 'places that originate DeleteRowSet records (EpochOp emitters + the DropTable arm of commit_changes)')
    for r, vs in sorted(dels.items()):
        ok = 'DeleteDV' in vs
        ctx.ob(R4, f'{r}', ok, f'{r} emits {sorted(vs)}' + ('' if ok else ' but never DeleteDV'),
               [prog.bodies[r].loc] if r in prog.bodies else ([cb.loc] if cb is not None else []),
               what=f'{r.rsplit("::", 1)[-1]} logically deletes row-sets without tombstoning their delete vectors: after the '
                    f'table is dropped the orphan AddDV records make reopen panic (owner table missing)')
    ctx.extra['epoch_op_emitters'] = {k: sorted(v) for k, v in emit.items()}

    # R2 is decided under C10-R1 (validate before log); re-evaluated here so that C03 stands alone
    R2 = 'C03-R2'
    ctx.rule(R2, 'validate before log: a record that replay can reject (apply_create_table fails on duplicate / missing '
                 'schema) must not be appended before the same validation ran on the live path (see C10-R1)')
    from tmpl import done_sites, flows_from
    for name in (SEC + 'manifest::<impl storage::secondary::SecondaryStorage>::create_table_inner::{closure#0}',
                 SEC + 'manifest::<impl storage::secondary::SecondaryStorage>::drop_table_inner::{closure#0}'):
        bd = prog.body(name)
        if not ctx.anchor(R2, name, bd is not None):
            continue
        ctx.functions_analysed.add(bd.name)
        commit = done_sites(prog, bd, 'VersionManager::commit_changes')
        applies = [c for c in bd.calls if re.search(r'::apply_(create|drop)_table$', c.fn or '')]
        if not ctx.anchor(R2, name + ':apply', applies) or not ctx.anchor(R2, name + ':commit', commit):
            continue
        late = [c for c in applies if any(bd.reaches(cm, c.bb) for cm in commit)]
        ctx.ob(R2, f'{bd.root}·validate≺log', not late,
               f'{bd.name}: the fallible catalog apply {[c.fn.rsplit("::",1)[-1] for c in applies]} runs '
               + ('AFTER' if late else 'before') + ' the manifest commit', [site(bd, c.bb) for c in applies],
               what='create_table_inner logs CreateTable before validating it: a duplicate name (two concurrent sessions) leaves '
                    'a record that replay rejects - the database cannot be reopened')

    R5 = 'C03-R5'
    ctx.rule(R5, 'nothing of a logged definition is dropped on the way to the manifest: for every struct reachable from '
                 'ManifestOperation, the derived Serialize writes every field (no skipped field), and every enum variant is written')
    closure, todo = set(), [MANOP]
    while todo:
        a = todo.pop()
        if a in closure or a not in prog.adts:
            continue
        closure.add(a)
        for v in prog.adts[a]['variants']:
            for f in v['fields']:
                for cand in re.findall(r'[A-Za-z_][A-Za-z0-9_:]*', f['ty']):
                    if cand in prog.adts and cand not in closure:
                        todo.append(cand)
    ser = {}
    for b in prog.bodies.values():
        m = re.search(r'Serialize for ([A-Za-z0-9_:]+)>::serialize$', b.name)
        if m:
            ser[m.group(1)] = b
    n5 = 0
    for a in sorted(closure):
        adt = prog.adts[a]
        b = ser.get(a)
        if b is None:
            # types serialized by hand or through a foreign impl are not derived: report, do not judge
            ctx.note(f'C03-R5: {a} has no derived Serialize in this crate (hand-written or foreign)')
            continue
        n5 += 1
        ctx.functions_analysed.add(b.name)
        names = set()
        for c in b.calls:
            if re.search(r'serialize_field$|serialize_(unit|newtype|tuple|struct)_variant$|SerializeStructVariant::serialize_field$', c.fn or ''):
                for arg in c.args:
                    if arg['k'] == 'const':
                        m2 = re.match(r'^(?:const )?"(.*)"$', arg.get('v', ''))
                        if m2:
                            names.add(m2.group(1))
        if adt['kind'] == 'Struct':
            fields = [f['name'] for f in adt['variants'][0]['fields']]
            if all(f.isdigit() for f in fields):
                continue   # tuple / newtype struct: serialized positionally
            missing = [f for f in fields if f not in names]
            ctx.ob(R5, f'{a}·fields', not missing, f'{a}: fields {fields}; serialized {sorted(names & set(fields))}; skipped: {missing}', [b.loc])
        elif adt['kind'] == 'Enum':
            variants = [v['name'] for v in adt['variants']]
            missing = [v for v in variants if v not in names]
            ctx.ob(R5, f'{a}·variants', not missing, f'{a}: variants {len(variants)}; not serialized: {missing}', [b.loc])
    ctx.floor(R5, n5, 8, 'types serialized into the manifest')
    commit_publishes_rule(ctx, prog, 'C03-R7')
    from rules.c04 import boot_vacuum_always
    boot_vacuum_always(ctx, prog, 'C03-R8')

    # what replay reads from disk is decoded completely (after seed C03-e): = C15-R8 on the storage engine
    from rules.c15 import decode_errors_examined
    decode_errors_examined(ctx, prog, 'C03-R9', re.compile(r'^<?storage::secondary::'), 2)
    from rules.c07 import compaction_tombstones_before_commit
    compaction_tombstones_before_commit(ctx, prog, 'C03-R10')


def commit_publishes_rule(ctx, prog, rid):
    """shared by C03 and C05: a commit that returns Ok has published everything the transaction wrote"""
    CI = 'storage::secondary::transaction::SecondaryTransaction::commit_inner::{closure#0}'
    MEMC = '<storage::memory::transaction::InMemoryTransaction as storage::Transaction>::commit::{closure#0}'
    ctx.rule(rid, 'commit means published, in both engines: every successful return of SecondaryTransaction::commit_inner is '
                  'dominated by the completion of VersionManager::commit_changes, unless that path tested all three write buffers '
                  '(to_be_committed_rowsets, delete_buffer, and mem / total_size) for emptiness; InMemoryTransaction::commit drains '
                  'both of its buffers. An early return that forgets one buffer acknowledges a statement whose rows the disk '
                  'engine drops while the memory engine keeps them')
    b = prog.body(CI)
    if ctx.anchor(rid, CI, b is not None):
        ctx.functions_analysed.add(b.name)
        cc = set(done_sites(prog, b, 'VersionManager::commit_changes'))
        if ctx.anchor(rid, 'commit_inner: commit_changes', cc):
            errs = b.error_exit_blocks()
            rets = [r for r in b.return_blocks()]
            # blocks that set _0 = Ok(..) and reach a return without commit_changes
            early = sorted(x for x in b.reachable_from([0], avoid=cc | errs) if x in rets)
            ok = True
            why = ''
            if early:
                # which buffers does the skipping path look at?  (switches on the entry->return paths that avoid commit_changes)
                fwd = b.reachable_from([0], avoid=cc | errs)
                region = {x for x in fwd if set(rets) & b.reachable_from([x], avoid=cc | errs)}   # blocks on a skipping path
                seen = set()
                for i in region:
                    for st in b.blocks[i]['stmts']:
                        for pl in __places(st):
                            for f in pl_fields(pl):
                                if f.startswith('storage::secondary::transaction::SecondaryTransaction::'):
                                    seen.add(f.rsplit('::', 1)[-1])
                need = {'to_be_committed_rowsets', 'delete_buffer'}
                mem = {'mem', 'total_size'} & seen
                ok = need <= seen and bool(mem)
                why = f'; the path that skips it reads {sorted(seen)}; it must test to_be_committed_rowsets, delete_buffer and mem/total_size'
            ctx.ob(rid, 'commit_inner·Ok⇒commit_changes', ok,
                   f'successful returns of commit_inner reachable without completing commit_changes: {early}{why}',
                   [site(b, x) for x in (early or sorted(cc))],
                   what='SecondaryTransaction::commit_inner can return Ok without commit_changes on a path that does not look at every '
                        'write buffer: an acknowledged INSERT/DELETE is dropped by the disk engine')
    m = prog.body(MEMC)
    if ctx.anchor(rid, MEMC, m is not None):
        ctx.functions_analysed.add(m.name)
        drained = set()
        for c in m.calls:
            if re.search(r'Vec::<.*>::drain$|IntoIterator::into_iter$|mem::take', c.name or '') and c.args and c.args[0]['k'] != 'const':
                for bb, kind, payload in local_defs(m, c.args[0]['pl']['l']):
                    if kind == 'assign':
                        for pl in __places(payload):
                            for f in pl_fields(pl):
                                if f.startswith('storage::memory::transaction::InMemoryTransaction::'):
                                    drained.add(f.rsplit('::', 1)[-1])
        ctx.ob(rid, 'memory-commit·drains-both-buffers', {'buffer', 'delete_buffer'} <= drained,
               f'InMemoryTransaction::commit drains {sorted(drained)}; expected buffer and delete_buffer')


def __places(x):
    from mir import operand_places
    return operand_places(x)
