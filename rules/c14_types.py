"""C14-R13 - the type rules of the planner and the kernels of the evaluator agree.

C14 quantifies over "every combination of operand types it [the type checker] accepts". Both sides are tables in the code:
`analyze_type` (planner/rules/type_.rs) has one small predicate per operator that says which operand types are accepted, and each
kernel in array/ops.rs is a match over pairs of array variants that ends in `Err(NoBinaryOp ..)`. The rule computes both tables
from the type-checked program - the predicate by abstract interpretation over the finite set of DataType variants (lib/absint.py),
the kernel by walking its match for each pair of ArrayImpl variants - and reports every accepted combination that can only end in
the kernel's "no function" error. Dispatch (Expr -> BinaryOperator -> kernel) is read from the arms of Expr::binary_op and
ArrayImpl::binary_op. Nothing is run."""
import itertools

import absint
from absint import T, UNK
from tmpl import site

DT, AI = 'types::DataType', 'array::ArrayImpl'
TYPE_RULES = 'planner::rules::type_::analyze_type'
OPS = 'array::ops::<impl array::ArrayImpl>::'


# confirmed by reading and by probing: combinations without a kernel that no statement reaches
UNARMED = {
    ('Add', '(Interval, Date)'): 'the rule add-comm puts (+ d i) into the same e-class and the extractor returns that form: `select i + d`, also with '
                                 'literals, evaluates to the date (probed on both engines); no input that fails is known',
}


def arms(b, adt):
    for i, bl in enumerate(b.blocks):
        t = bl['term']
        if t['k'] == 'switch' and t.get('adt') == adt and not bl['cleanup']:
            return i, {t['variants'][str(v)]: tgt for v, tgt in t['targets']}, t['otherwise']
    return None


def region(b, sw, a, var):
    return b.reachable_from([a[var]], avoid={tgt for tgt in a.values() if tgt != a[var]} | {sw})


def pair_class(c):
    a, b = c[0], c[1]
    if 'Null' in (a, b):
        return 'an operand of type NULL'
    if a == b:
        return f'({a}, {b})'
    if 'String' in (a, b):
        return 'String against another type'
    return f'({a}, {b})'


def run(ctx, prog, R):
    ctx.rule(R, 'every combination of operand types the type checker accepts has a kernel: for each binary operator, CASE and unary '
                'minus, the set of DataType combinations for which the operator\'s predicate in analyze_type answers Some(..) '
                '(abstract interpretation over the variants) is contained in the set of ArrayImpl variant combinations for which the '
                'kernel the evaluator dispatches to can return anything but its `no function` error')
    at = prog.body(TYPE_RULES)
    eb = prog.body('planner::Expr::binary_op')
    kb = prog.body(OPS + 'binary_op')
    if not (ctx.anchor(R, TYPE_RULES, at is not None) and ctx.anchor(R, 'Expr::binary_op', eb is not None)
            and ctx.anchor(R, 'ArrayImpl::binary_op', kb is not None)):
        return
    dorder, aorder = absint.variant_order(prog, DT), absint.variant_order(prog, AI)
    if not ctx.anchor(R, 'variants of DataType / ArrayImpl', len(dorder) >= 10 and len(aorder) >= 10):
        return
    # a DataType and the array that carries it have the same variant name (ArrayBuilderImpl::with_capacity is generated from one table)
    universe = [v for v in dorder if v in aorder]
    ctx.anchor(R, 'DataType variants with an array of the same name', len(universe) >= 12)
    mark = lambda rv: rv['adt'] == 'types::ConvertError' and rv['variant'] in ('NoBinaryOp', 'NoUnaryOp', 'NoTernaryOp')
    TI = absint.Interp(prog, DT, dorder)
    KI = absint.Interp(prog, AI, aorder, mark=mark, max_steps=20000)

    sw = arms(at, 'planner::Expr')
    s2 = arms(eb, 'planner::Expr')
    if not ctx.anchor(R, 'dispatch switches (analyze_type, Expr::binary_op)', all([sw, s2])):
        return
    closure_of = {}
    for var in sw[1]:
        reg = region(at, sw[0], sw[1], var)
        closure_of[var] = [st['rv']['def'] for bb, st in at.stmts() if bb in reg and st['s'] == 'assign' and st['rv'].get('rv') == 'agg'
                           and st['rv'].get('kind') == 'closure' and not st['rv']['def'].endswith('{closure#0}')]
    e2b = {var: [st['rv']['variant'] for bb, st in eb.aggregates('sqlparser::ast::BinaryOperator') if bb in region(eb, s2[0], s2[1], var)]
           for var in s2[1]}

    def accepted(cl, n, first=None):
        b, acc = prog.body(cl), []
        for combo in itertools.product(universe, repeat=n):
            if first and combo[0] != first:
                continue
            arg = ('tup', [T(v) for v in combo]) if n > 1 else ('ref', T(combo[0]))
            outs = TI.run(b, [UNK, arg])
            if any((isinstance(o, tuple) and o[0] == 'opt' and o[1] is True) or o is True for o in outs):
                acc.append(combo)
        return acc

    def implemented(kernel, args):
        b = prog.body(kernel)
        if b is None:
            return False
        outs = KI.run(b, args + [UNK] * (b.rec['argc'] - len(args)), marks=True)
        return any(not (m and o == ('res', 'Err')) for o, m in outs)

    n_ops, n_pairs = 0, 0
    table = []
    for ev, ops in sorted(e2b.items()):
        if not ops or not closure_of.get(ev):
            ctx.anchor(R, f'type rule / operator of Expr::{ev}', False)
            continue
        # the evaluator hands every binary operator to ArrayImpl::binary_op(self, op, other): interpreted with the operator fixed
        table.append((ev, closure_of[ev][0], 2, None, OPS + 'binary_op',
                      lambda c, op=ops[0]: [('ref', T(c[0])), ('ref', T(op)), ('ref', T(c[1]))]))
    # CASE: If([cond, then, else]) -> ArrayImpl::select(cond, then, else); unary minus -> ArrayImpl::neg
    if closure_of.get('If'):
        table.append(('If', closure_of['If'][0], 3, 'Bool', OPS + 'select', lambda c: [('ref', T(v)) for v in c]))
    if closure_of.get('Neg'):
        table.append(('Neg', closure_of['Neg'][0], 1, None, OPS + 'neg', lambda c: [('ref', T(v)) for v in c]))
    for ev, cl, n, first, kern, conv in table:
        try:
            acc = accepted(cl, n, first)
            miss = [c for c in acc if kern is None or not implemented(kern, conv(c))]
        except absint.Abort as e:
            ctx.anchor(R, f'{ev}: predicate / kernel interpretable ({e})', False)
            continue
        n_ops += 1
        n_pairs += len(acc)
        ctx.functions_analysed.update([cl] + ([kern] if kern else []))
        groups = {}
        for c in miss:
            key = pair_class(c[1:] if ev == 'If' else (c + c if n == 1 else c))
            groups.setdefault(key, []).append(c)
        kname = kern.rsplit('::', 1)[-1] + (f'(.., {e2b[ev][0]}, ..)' if ev in e2b else '')
        loc = [prog.body(kern).loc] if kern and prog.body(kern) else [kb.loc]
        if not miss:
            ctx.ob(R, f'{ev}·accepted-types-have-a-kernel', True, f'Expr::{ev}: {len(acc)} accepted combinations, all reach an arm of ArrayImpl::{kname}', loc)
        for key, cs in sorted(groups.items()):
            if (ev, key) in UNARMED:
                ctx.unclassified.append({'rule': R, 'instance': f'{ev}·{key}', 'reason': 'unarmed observation: ' + UNARMED[(ev, key)]})
                continue
            ex = ', '.join('(' + ', '.join(c) + ')' for c in cs[:4]) + (' ..' if len(cs) > 4 else '')
            ctx.ob(R, f'{ev}·{key}', False,
                   f'Expr::{ev}: the type rule accepts {len(cs)} combination(s) of this class - {ex} - and ArrayImpl::{kname} answers all of them with its `no function` error',
                   loc,
                   what=f'`{ev}` on {key}: accepted by the type checker, refused by the evaluator with `no function ..` ({ex})')
    ctx.floor(R, n_ops, 15, 'operators with an interpreted type rule and kernel')
    ctx.extra['type_rule_pairs'] = n_pairs


def evaluator_passes_nothing_through(ctx, prog, R):
    """C14-R14: only transparent nodes hand a child's value on unchanged."""
    import re
    from tmpl import local_defs
    from mir import operand_places
    ctx.rule(R, 'the value of an operator node is computed by its kernel for every row: in Evaluator::eval only the transparent nodes (Ref, Desc and '
                'the aggregate wrappers, which stand for their argument) may return the array a child evaluated to; an operator arm that '
                'returns an operand as it is - a short cut for "nothing selected", "all NULL", "right side not needed" - makes a row\'s value depend '
                'on the other rows of the batch (NULL AND FALSE is FALSE whatever the rest of the batch looks like)')
    TRANSPARENT = {'Ref', 'Desc', 'Max', 'Min', 'Sum', 'Count', 'CountDistinct', 'First', 'Last'}
    b = prog.body("executor::evaluator::Evaluator::<'a>::eval")
    if not ctx.anchor(R, 'Evaluator::eval', b is not None):
        return
    sw = arms(b, 'planner::Expr')
    if not ctx.anchor(R, 'Evaluator::eval: match on the node', sw is not None):
        return
    ctx.functions_analysed.add(b.name)
    regions = {var: region(b, sw[0], sw[1], var) for var in sw[1]}

    def arm_of(bb):
        vs = sorted(v for v, r in regions.items() if bb in r)
        return vs if vs else ['(fall-through arm)']

    def passthrough(l, depth=12, seen=None):
        seen = seen if seen is not None else set()
        if l in seen or depth < 0:
            return False
        seen.add(l)
        for bb, kind, payload in local_defs(b, l):
            if kind == 'assign':
                if payload.get('rv') in ('use', 'cast') and any(passthrough(p['l'], depth - 1, seen) for p in operand_places(payload)):
                    return True
            else:
                fn = payload.get('fn') or ''
                if fn.endswith("Evaluator::<'a>::eval"):
                    return True
                if fn.endswith('ops::Try::branch') and any(a['k'] != 'const' and passthrough(a['pl']['l'], depth - 1, seen)
                                                           for a in payload.get('args', [])):
                    return True
        return False

    n = 0
    for i, bl in enumerate(b.blocks):
        if bl['cleanup']:
            continue
        hits = []
        for st in bl['stmts']:
            if st['s'] == 'assign' and st['lhs']['l'] == 0 and not st['lhs']['p'] and st['rv'].get('rv') == 'agg' \
                    and st['rv'].get('adt', '').endswith('result::Result') and st['rv'].get('variant') == 'Ok':
                n += 1
                if any(o['k'] != 'const' and passthrough(o['pl']['l']) for o in st['rv']['ops']):
                    hits.append(i)
        t = bl['term']
        if t['k'] == 'call' and t['dest']['l'] == 0 and not t['dest']['p'] and (t.get('fn') or '').endswith("Evaluator::<'a>::eval"):
            n += 1
            hits.append(i)
        for h in hits:
            where = arm_of(h)
            ok = all(v in TRANSPARENT for v in where)
            ctx.ob(R, f'Evaluator::eval·{"/".join(where)}·passes-a-child-through', ok,
                   f'block {h} returns the value of a child unchanged in the arm(s) {where}', [site(b, h)],
                   what=f'Evaluator::eval returns an operand of `{"/".join(where)}` as the result of the operator without applying its kernel: '
                        'the row-wise value then depends on what the rest of the batch looks like')
    ctx.floor(R, n, 4, 'return sites of Evaluator::eval examined')


ORDER_USERS = {   # who may order DataValues by the derived order (variant first, then payload), and why it is same-typed there
    'planner::rules::expr::is_greater_than_or_equal': 'value_cmp: guarded by an equal-discriminant test (C01-R3)',
    'planner::rules::expr::is_greater_than': 'value_cmp: guarded by an equal-discriminant test (C01-R3)',
    'planner::rules::expr::is_less_than_or_equal': 'value_cmp: guarded by an equal-discriminant test (C01-R3)',
    'planner::rules::expr::is_less_than': 'value_cmp: guarded by an equal-discriminant test (C01-R3)',
    'executor::order::cmp': 'ORDER BY: two values of one key column',
    'executor::top_n::cmp': 'TOP-N: two values of one key column',
    'executor::merge_join::MergeJoinExecutor::<T>::execute': 'merge join keys: cast to one type per pair by the builder (C11-R8)',
    'storage::secondary::merge_iterator::MergeIterator::compare_data': 'sort key of one column, across row-sets of one table',
    '<storage::secondary::rowset::mem_rowset::ComparableDataValue as std::cmp::Ord>::cmp': 'memtable key of one column',
    'storage::secondary::rowset::rowset_iterator::RowSetIterator::next_batch_inner': 'key-range mask; the cross-type case is the known finding C13-R3',
}


def datavalue_order_users(ctx, prog, R):
    """C14-R15: the derived order of DataValue is a same-type order"""
    import re
    ctx.rule(R, 'DataValue derives PartialOrd / Ord: the variant decides before the payload (Int32(1) < Float64(0.5), Int32(1) != Int64(1)). '
                'That is the SQL order only between two values of one type, so it may be used where the operands are same-typed by '
                'construction - a frozen list of places, one reason each - and nowhere else; in particular not to FOLD a comparison of two '
                'constants, which the evaluator would decide with the promoting `cmp!` kernels (`1 > 0.5`)')
    n = 0
    for b in prog.bodies.values():
        if b.rec.get('derived'):
            continue
        for c in b.calls:
            ga = c.t.get('gargs', [])
            direct = re.search(r'<&?types::value::DataValue as std::cmp::(PartialOrd|Ord)>', c.res or '') is not None
            generic = re.search(r'cmp::((PartialOrd|Ord)::(lt|le|gt|ge|cmp|partial_cmp|max|min|clamp)|max_by_key|min_by_key|max_by|min_by|max|min)$',
                                c.fn or '') is not None and 'types::value::DataValue' in ' '.join(ga)
            if not (direct or generic):
                continue
            n += 1
            place = prog.owner_root(b.root)      # a helper split off one of the places is still that place
            ok = place in ORDER_USERS
            ctx.functions_analysed.add(b.name)
            ctx.ob(R, f'{place}·orders-DataValues', ok,
                   f'{b.name}: {c.fn} on {ga[:1]} at block {c.bb}' + (f' - {ORDER_USERS[place]}' if ok else ' - not a place where both operands are of one type by construction'),
                   [site(b, c.bb)],
                   what=f'{place} compares two DataValues with the derived (variant-first) order: for operands of different numeric types the answer '
                        'is decided by the type tag, not by the numbers (`1 > 0.5` is false, `1 = cast(1 as bigint)` is false)')
    ctx.floor(R, n, 8, 'ordering comparisons of DataValues')
