"""C11 - all physical implementations of an operator agree.

Decides (sibling cross-checks): (R1) NULL-key agreement between the join implementations: an executor that
matches keys through a DataValue-keyed container or Row equality (where NULL == NULL) must test keys for
NULL, like the SQL `=` kernel the nested-loop join uses; (R2) the three aggregation executors obtain
states, steps and results only through the one Evaluator state machine; (R3) ORDER BY and TOP-N compare rows
with the same comparator shape.
Does not decide: chunking, duplicate handling, empty-side behaviour (value level)."""
import re

from tmpl import site, suffix, lost_witnesses, local_defs, int_counters, origin_locals
from mir import operand_places

JOINS = {
    'NestedLoopJoin': 'executor::nested_loop_join::NestedLoopJoinExecutor::execute',
    'NestedLoopSemiJoin': 'executor::nested_loop_join::NestedLoopSemiJoinExecutor::execute',
    'HashJoin': 'executor::hash_join::HashJoinExecutor::<T>::execute',
    'HashSemiJoin': 'executor::hash_join::HashSemiJoinExecutor::execute',
    'HashSemiJoin2': 'executor::hash_join::HashSemiJoinExecutor2::execute',
    'MergeJoin': 'executor::merge_join::MergeJoinExecutor::<T>::execute',
}
AGGS = {
    'SimpleAgg': 'executor::simple_agg::SimpleAggExecutor::execute',
    'HashAgg': 'executor::hash_agg::HashAggExecutor::execute',
    'SortAgg': 'executor::sort_agg::SortAggExecutor::execute',
}
DV = r'types::value::DataValue'
CONTAINER = re.compile(r'(HashMap|HashSet|BTreeMap|BTreeSet)::<.*>::(get|get_mut|entry|contains_key|contains|insert|remove|get_key_value)$')
ROW_CMP = re.compile(r'cmp::(PartialEq|PartialOrd|Ord)::(eq|ne|lt|gt|le|ge|cmp|partial_cmp)$')


def key_compares(prog, root, extra_roots=()):
    """call sites in the group that match join keys by DataValue equality/hash/order"""
    out = []
    for r in (root,) + tuple(extra_roots):
        for g in prog.group(r):
            for c in g.calls:
                n = c.fn or ''
                gargs = ' '.join(c.t.get('gargs', []))
                if CONTAINER.search(c.name or '') and DV in gargs:
                    out.append((g, c, 'container'))
                elif ROW_CMP.search(n) and DV in gargs and re.search(r'Vec<|SmallVec<|\[' + DV, gargs):
                    out.append((g, c, 'row-compare'))
    return out


def run(ctx):
    prog = ctx.prog('all' if ctx.thorough else 'lib')
    ctx.extra['facts_key'] = prog.key
    ctx.explanation = ('Sibling cross-check of the join / aggregation / sort executors on resolved callees and generic arguments: '
                       'which of them compare join keys by DataValue equality (NULL == NULL) without a NULL test; which '
                       'aggregate entry points each executor uses; comparator shape of ORDER BY vs TOP-N.')
    ctx.trusted += ['rustc MIR facts', 'derived Eq/Hash/Ord on DataValue treat Null as equal to Null']
    R1 = 'C11-R1'
    ctx.rule(R1, 'every equi-join implementation treats NULL keys like SQL `=`: either it evaluates the condition with the `=` '
                 'kernel, or it guards its DataValue-keyed container / Row comparison with a NULL test of the key '
                 '(DataValue::is_null). All implementations must fall on the NULL-aware side')
    verdicts = {}
    for name, root in JOINS.items():
        if not ctx.anchor(R1, root, root in prog.bodies):
            continue
        extra = ('executor::merge_join::group_by_keys',) if name == 'MergeJoin' else ()
        for g in prog.group(root):
            ctx.functions_analysed.add(g.name)
        kc = key_compares(prog, root, extra)
        guards = [c for r in (root,) + extra for g in prog.group(r) for c in g.calls if (c.fn or '').endswith('DataValue::is_null')]
        aware = (not kc) or bool(guards)
        verdicts[name] = aware
        ctx.ob(R1, f'{name}·null-keys', aware,
               f'{name}: key comparisons by DataValue equality/hash/order: {len(kc)} '
               f'({sorted({k for _, _, k in kc})}), NULL tests: {len(guards)}'
               + ('' if kc else ' (condition evaluated with the SQL kernels)'),
               [site(g, c.bb) for g, c, _ in kc[:3]],
               what=f'{name} matches NULL join keys with each other (NULL = NULL), unlike the nested-loop join: the same '
                    f'query returns different rows depending on the physical join chosen')
    ctx.floor(R1, len(verdicts), 6, 'join implementations')
    ctx.extra['null_aware'] = verdicts

    R2 = 'C11-R2'
    ctx.rule(R2, 'SimpleAgg, HashAgg and SortAgg reach aggregate arithmetic only through Evaluator::{init_agg_states, '
                 'eval_agg_list | agg_list_append, agg_list_take_result | agg_list_get_result}')
    ALLOWED = {'new', 'init_agg_states', 'eval_agg_list', 'agg_list_append', 'agg_list_take_result', 'agg_list_get_result', 'eval_list', 'eval'}
    for name, root in AGGS.items():
        if not ctx.anchor(R2, root, root in prog.bodies):
            continue
        used, direct = set(), []
        for g in prog.group(root):
            ctx.functions_analysed.add(g.name)
            for c in g.calls:
                m = re.search(r"executor::evaluator::Evaluator::<'a>::([a-z_]+)$", c.fn or '')
                if m:
                    used.add(m.group(1))
                if re.search(r'array::ops::<impl array::ArrayImpl>::(sum|min_|max_|count|first|last)$|evaluator::Ext::', c.name or ''):
                    direct.append(c)
        ok = 'init_agg_states' in used and bool(used & {'eval_agg_list', 'agg_list_append'}) and \
            bool(used & {'agg_list_take_result', 'agg_list_get_result'}) and used <= ALLOWED and not direct
        ctx.ob(R2, f'{name}·one-state-machine', ok, f'{name}: Evaluator entry points used {sorted(used)}; direct kernel calls {len(direct)}',
               [site(c.body, c.bb) for c in direct])

    R3 = 'C11-R3'
    ctx.rule(R3, 'OrderExecutor and TopNExecutor compare rows with the same comparator: DataValue::cmp per key, reversed when the '
                 'key is descending')
    shapes = {}
    for name, fn in (('Order', 'executor::order::cmp'), ('TopN', 'executor::top_n::cmp')):
        b = prog.body(fn)
        if not ctx.anchor(R3, fn, b is not None):
            continue
        ctx.functions_analysed.add(b.name)
        calls = set()
        for c in prog.group_calls(b.root):          # the comparator and its closures (`keys.map(|..| a.cmp(b)).find(..)`)
            n = c.name or ''
            if re.search(r'<types::value::DataValue as std::cmp::Ord>::cmp$', n):
                calls.add('DataValue::cmp')
            elif re.search(r'Ordering::reverse$', n):
                calls.add('Ordering::reverse')
            elif re.search(r'cmp::(Ord|PartialOrd)::', c.fn or ''):
                calls.add(re.sub(r'<[^<>]*>', '', n))
        shapes[name] = calls
        ctx.ob(R3, f'{name}·comparator', calls == {'DataValue::cmp', 'Ordering::reverse'}, f'{fn}: comparison callees {sorted(calls)}')
    if len(shapes) == 2:
        ctx.ob(R3, 'Order==TopN', shapes['Order'] == shapes['TopN'], f'comparator shapes: {shapes}')
    # who sorts: OrderExecutor sorts with its cmp; TopN heap ordered by its cmp
    for name, root, fn in (('Order', 'executor::order::OrderExecutor::execute', 'executor::order::cmp'),
                           ('TopN', 'executor::top_n::TopNExecutor::execute', 'executor::top_n::cmp')):
        if ctx.anchor(R3, root, root in prog.bodies):
            uses = prog.group_calls(root, suffix(fn))
            ctx.ob(R3, f'{name}·uses-comparator', bool(uses), f'{root} must order rows through {fn}')

    R4 = 'C11-R4'
    ctx.rule(R4, 'merge join groups rows by key ACROSS input chunks: group_by_keys emits its last group after the input stream has '
                 'ended (a trailing flush); a grouping that is complete at the end of every chunk splits a key that straddles two chunks')
    gk = prog.body('executor::merge_join::group_by_keys::{closure#0}')
    if ctx.anchor(R4, 'executor::merge_join::group_by_keys', gk is not None):
        ctx.functions_analysed.add(gk.name)
        none_targets = []
        for i, bl in enumerate(gk.blocks):
            t = bl['term']
            if t['k'] == 'switch' and t.get('adt') == 'std::option::Option' and t.get('on') and \
                    any(p.startswith('as:Ready') for p in t['on']['p']):
                for v, tgt in t['targets']:
                    if t.get('variants', {}).get(v) == 'None':
                        none_targets.append(tgt)
        if ctx.anchor(R4, 'group_by_keys: end of the child stream', none_targets):
            after = gk.reachable_from(none_targets)
            # a yield of an item (not the Pending yield of an await): its value is not Poll::Pending
            item_yields = []
            for i in after:
                t = gk.blocks[i]['term']
                if t['k'] == 'yield':
                    pend = any(st.get('rv', {}).get('rv') == 'agg' and st['rv'].get('variant') == 'Pending' for st in gk.blocks[i]['stmts'])
                    if not pend:
                        item_yields.append(i)
            ctx.ob(R4, 'group_by_keys·trailing-flush', bool(item_yields),
                   f'item yields reachable after the child stream ended: {item_yields}', [site(gk, x) for x in item_yields] or [gk.loc],
                   what='group_by_keys has no flush after the end of its input: key groups are closed at chunk boundaries, so a key that '
                        'straddles two chunks is joined as two groups (merge join loses matches)')

    R5 = 'C11-R5'
    ctx.rule(R5, 'existence flags of semi/anti joins (and every other executor) are monotone: a bool initialised to false before a '
                 'loop and assigned inside it is either accumulated (`e |= x`) or the loop is left whenever it is true; an assignment '
                 'that can run again while the flag may be true forgets a match seen in an earlier chunk (the nested-loop anti join '
                 'would then disagree with the hash anti join as soon as the right side has several chunks)')
    n_flags = 0
    for b in prog.bodies.values():
        if not re.match(r'^<?executor::', b.name) or b.rec.get('derived'):
            continue
        for l, inits, a, lost in lost_witnesses(b):
            n_flags += 1
            ctx.functions_analysed.add(b.name)
            ctx.ob(R5, f'{b.root}·{b.var_name(l) or l}·monotone', not lost,
                   f'{b.name}: `{b.var_name(l) or l}` initialised false at {inits}, assigned at block {a}'
                   + ('; the assignment can be reached again while the flag may be true' if lost else ''), [site(b, a)],
                   what=f'{b.root}: the flag `{b.var_name(l) or l}` is overwritten by a later round of the loop although it may already '
                        'be true: a match found in an earlier chunk is forgotten')
    # accumulating flags (e |= x) never show up above; count them so that the rule is seen to look at something
    n_acc = 0
    for b in prog.bodies.values():
        if not re.match(r'^<?executor::', b.name):
            continue
        for bb, st in b.stmts():
            rv = st.get('rv', {}) if st['s'] == 'assign' else {}
            if rv.get('rv') == 'binop' and rv['op'].startswith('BitOr') and rv.get('ty') == 'bool' and not st['lhs']['p']:
                n_acc += 1
    ctx.floor(R5, n_acc, 1, 'bool accumulators (e |= x) in executor::')
    try:
        import mir
        fx = mir.load_fixture()
        got = {b.root for b in fx.bodies.values() for l, i_, a, lost in lost_witnesses(b) if lost}
        ctx.ob(R5, 'self-test·fixture', got == {'executor::exists_overwritten'},
               f'positive examples flagged: {sorted(got)}; expected exactly executor::exists_overwritten')
    except SystemExit as e:
        ctx.ob(R5, 'self-test·fixture', False, f'fixture crate could not be analysed: {e}')

    R6 = 'C11-R6'
    ctx.rule(R6, 'top-N equals sort-then-limit: TopNExecutor must keep the best offset+limit rows, so every size comparison in it that '
                 'depends on `limit` depends on `offset` as well (the bound is heap_size = offset + limit); a bound that is `limit` alone '
                 'discards rows that belong to positions limit+1 .. limit+offset')
    tb = prog.body('executor::top_n::TopNExecutor::execute::{closure#0}')
    if ctx.anchor(R6, 'executor::top_n::TopNExecutor::execute', tb is not None):
        ctx.functions_analysed.add(tb.name)
        fld = {v['name']: v['pl']['p'][0] for v in (tb.rec.get('vars') or []) if v['pl']['l'] == 1 and v['pl']['p']}
        lim, off = fld.get('self__limit'), fld.get('self__offset')
        if ctx.anchor(R6, 'TopNExecutor: limit / offset fields', lim and off):
            def deps(l, seen=None, depth=14):
                seen = seen if seen is not None else set()
                out = set()
                if l in seen or depth < 0:
                    return out
                seen.add(l)
                for bb, kind, payload in local_defs(tb, l):
                    if kind == 'call' and not re.search(r'::(saturating_add|checked_add|wrapping_add|min|max|add|unwrap|unwrap_or)$', payload.get('fn') or ''):
                        continue    # only arithmetic carries a bound; `heap.len()` does not depend on the capacity it was built with
                    places = operand_places(payload) if kind == 'assign' else [a['pl'] for a in payload.get('args', []) if a['k'] != 'const']
                    for pl in places:
                        if pl['l'] == 1 and lim in pl['p']:
                            out.add('limit')
                        elif pl['l'] == 1 and off in pl['p']:
                            out.add('offset')
                        else:
                            out |= deps(pl['l'], seen, depth - 1)
                return out
            n_cmp = 0
            for bb, st in tb.stmts():
                rv = st.get('rv', {}) if st['s'] == 'assign' else {}
                if rv.get('rv') == 'binop' and rv['op'] in ('Lt', 'Le', 'Gt', 'Ge') and rv.get('ty') == 'usize':
                    d = set()
                    for pl in operand_places(rv):
                        d |= deps(pl['l'])
                        if pl['l'] == 1 and lim in pl['p']:
                            d.add('limit')
                        if pl['l'] == 1 and off in pl['p']:
                            d.add('offset')
                    if 'limit' in d:
                        n_cmp += 1
                        ctx.ob(R6, f'TopN·size-bound·bb{"" if "offset" in d else "-limit-only"}', 'offset' in d,
                               f'usize comparison at block {bb} depends on {sorted(d)}', [site(tb, bb)],
                               what='TopNExecutor bounds its heap by `limit` instead of `offset + limit`: with an OFFSET, rows that belong '
                                    'to the requested window are discarded (ORDER BY .. LIMIT n OFFSET m returns fewer rows than sort + limit)')
            ctx.floor(R6, n_cmp, 1, 'size comparisons in TopNExecutor that depend on limit')

    R7 = 'C11-R7'
    ctx.rule(R7, 'a running row position is advanced by the rows that were READ: a usize counter of an executor that later takes part in an '
                 'index or a remainder (a position inside the cross product, a slot of a per-row table) is never incremented by the '
                 'cardinality of a chunk that went through DataChunk::filter - the rows that PASSED. Mixing the two shifts every later '
                 'position, e.g. which left row of a nested-loop left outer join a match is credited to')
    n_cnt = 0
    for b in prog.bodies.values():
        if not re.match(r'^<?executor::', b.name) or b.rec.get('derived'):
            continue
        filt = {c.dest['l'] for c in b.calls if re.search(r'DataChunk::filter$|Array::filter$|ArrayImpl::filter$', c.fn or '')}
        for cnt, (blocks, srcs) in int_counters(b).items():
            n_cnt += 1
            if not filt or not any(filt & origin_locals(b, s_, depth=10) for s_ in srcs):
                continue
            positional = []
            for bb, st in b.stmts():
                rv = st.get('rv', {}) if st['s'] == 'assign' else {}
                if rv.get('rv') == 'binop' and rv['op'].startswith('Rem') and any(cnt in origin_locals(b, pl['l'], depth=6) for pl in operand_places(rv)):
                    positional.append(bb)
            for c in b.calls:
                if re.search(r'ops::Index(Mut)?::index(_mut)?$', c.fn or '') and len(c.args) > 1 and c.args[1]['k'] != 'const' \
                        and cnt in origin_locals(b, c.args[1]['pl']['l'], depth=6):
                    positional.append(c.bb)
            if positional:
                ctx.functions_analysed.add(b.name)
                ctx.ob(R7, f'{b.root}·{b.var_name(cnt) or cnt}·position-counts-filtered-rows', False,
                       f'{b.name}: `{b.var_name(cnt)}` is advanced at {blocks} by the size of a filtered chunk and used as a position at {positional}',
                       [site(b, blocks[0])],
                       what=f'{b.root} advances the row position `{b.var_name(cnt)}` by the number of rows that passed the condition, not by the '
                            'number evaluated: after the first non-matching pair every later match is credited to the wrong row')
    ctx.ob(R7, 'executors·positions-count-read-rows', True, f'{n_cnt} usize counters in executor:: examined', nontrivial=False)
    ctx.floor(R7, n_cnt, 4, 'usize counters in executor::')

    R8 = 'C11-R8'
    ctx.rule(R8, 'the executors that match join keys as DataValues (hash join, hash semi joins, merge join) receive keys of ONE type per pair: '
                 'DataValue equality / hash / order is per variant (Int32(1) != Int64(1)) whereas the `=` kernel of the nested-loop join '
                 'compares INT with BIGINT numerically. So the key lists put into those executors by the builder must come out of a '
                 'function that unifies the two key types (DataType::union) and builds casts (Expr::Cast). [A planner-side guarantee - '
                 'equi-join rules that require equal key types - would serve as well and would need this rule to be extended.]')
    KEYED = re.compile(r'^executor::(hash_join::(HashJoinExecutor|HashSemiJoinExecutor|HashSemiJoinExecutor2)|merge_join::MergeJoinExecutor)$')
    n_keys = 0
    for b in prog.bodies.values():
        if not b.name.startswith('executor::') or b.rec.get('derived'):
            continue
        for bb, st in b.aggregates():
            rv = st['rv']
            if not KEYED.match(rv['adt']) or 'left_keys' not in rv.get('fields', []):
                continue
            ctx.functions_analysed.add(b.name)
            for fld in ('left_keys', 'right_keys'):
                n_keys += 1
                op = rv['ops'][rv['fields'].index(fld)]
                unified = []
                if op['k'] != 'const':
                    srcs = origin_locals(b, op['pl']['l'], depth=10)
                    for c in b.calls:
                        if c.dest['l'] in srcs:
                            for cn in prog.callee_bodies(c):
                                cb = prog.bodies[cn]
                                reach = prog.reach(cb.root, 3)
                                if any(prog.group_calls(r, suffix('DataType::union')) for r in reach) and \
                                        any(True for r in reach for g in prog.group(r) for _ in g.aggregates('planner::Expr', 'Cast')):
                                    unified.append(cb.root)
                short_adt = rv['adt'].rsplit('::', 1)[-1]
                ctx.ob(R8, f'{b.root}·{short_adt}·{fld}·one-type-per-key-pair', bool(unified),
                       f'{b.name} block {bb}: `{fld}` of {short_adt} ' + (f'comes from {sorted(set(unified))} (DataType::union + Expr::Cast)' if unified
                                                                       else 'is not derived from a function that unifies the key types'),
                       [site(b, bb)],
                       what=f'{short_adt} is built with `{fld}` as resolved from the plan, without casting the key pair to one type: it matches '
                            'keys as DataValues, so `t1.a INT = t2.c BIGINT` finds no partner for equal numbers while the nested-loop join '
                            '(the `=` kernel) does - the result depends on which join the optimizer picks')
    ctx.floor(R8, n_keys, 8, 'key lists handed to DataValue-keyed join executors')
    outer_sides_are_read(ctx, prog)
    agg_combinators_cover_the_kernels(ctx, prog)
    first_last_agree(ctx, prog)


def outer_sides_are_read(ctx, prog):
    """C11-R9: whichever join type keeps the rows of a side reads that side, whatever the other side holds"""
    from tmpl import local_defs
    from mir import pl_fields
    R9 = 'C11-R9'
    ctx.rule(R9, 'a RIGHT or FULL outer join returns every right row, a LEFT or FULL outer join every left row, also when the other input is '
                 'empty. The hash and merge join executors are generic over the join type (`const T: JoinType`); with every test `T == <type>` '
                 'decided for a concrete T, no path from the entry to a successful end of the stream avoids polling the stream of a side that T '
                 'preserves (a fast path "the build side is empty, nothing can match" must exempt FULL as well as RIGHT)')
    KEEP = {'left': ('LeftOuter', 'FullOuter'), 'right': ('RightOuter', 'FullOuter')}
    n = 0
    for name in ('executor::hash_join::HashJoinExecutor::<T>::execute::{closure#0}', 'executor::merge_join::MergeJoinExecutor::<T>::execute::{closure#0}'):
        b = prog.body(name)
        if not ctx.anchor(R9, name, b is not None):
            continue
        ctx.functions_analysed.add(b.name)
        prom = b.rec.get('promoted') or []

        def const_of(op):
            """'T' for the generic parameter, a variant name for a JoinType constant"""
            if op['k'] == 'const':
                if str(op.get('v')) == 'T':
                    return 'T'
                m = re.match(r'promoted\[(\d+)\]', str(op.get('v', '')))
                if m and int(m.group(1)) < len(prom):
                    for st in prom[int(m.group(1))]:
                        rv = st.get('rv', {})
                        if rv.get('rv') == 'agg' and rv.get('adt', '').endswith('JoinType'):
                            return rv['variant']
                        if rv.get('rv') == 'use' and rv['op'].get('k') == 'const' and str(rv['op'].get('v')) == 'T':
                            return 'T'
                return None
            for _, kind, p_ in local_defs(b, op['pl']['l']):
                if kind == 'assign':
                    if p_.get('rv') == 'ref':
                        for __, k2, p2 in local_defs(b, p_['pl']['l']):
                            if k2 == 'assign' and p2.get('rv') == 'use':
                                r = const_of(p2['op'])
                                if r:
                                    return r
                    if p_.get('rv') == 'use':
                        r = const_of(p_['op'])
                        if r:
                            return r
            return None
        # switches decided by T
        decided = {}
        for c in b.calls:
            if re.search(r'JoinType as std::cmp::PartialEq>::(eq|ne)$', c.res or '') and len(c.args) == 2:
                vals = [const_of(a) for a in c.args]
                if 'T' in vals and any(v not in (None, 'T') for v in vals):
                    variant = next(v for v in vals if v not in (None, 'T'))
                    nxt = b.blocks[c.bb]['term'].get('t')
                    if nxt is not None and b.blocks[nxt]['term']['k'] == 'switch' and not b.blocks[nxt]['stmts']:
                        decided[nxt] = (variant, (c.res or '').endswith('::eq'))
        # .. also through a predicate on the join type (`T.keeps_unmatched_left()`, a `matches!` in a private fn): the predicate is evaluated
        # for the concrete T by abstract interpretation of its body (lib/absint.py); and a `match T { .. }` / `matches!(T, ..)` in the body itself
        import absint
        for c in b.calls:
            if c.target is None or (c.res or c.fn or '') not in prog.bodies or len(c.args) != 1 or const_of(c.args[0]) != 'T':
                continue
            cb = prog.bodies[c.res if c.res in prog.bodies else c.fn]
            if cb.rec.get('locals', ['?'])[0] != 'bool':
                continue
            nxt = c.target
            if b.blocks[nxt]['term']['k'] == 'switch' and not b.blocks[nxt]['stmts']:
                decided[nxt] = ('call', cb)
        for i, bl in enumerate(b.blocks):
            t = bl['term']
            if t['k'] == 'switch' and not bl['cleanup'] and (t.get('adt') or '').endswith('JoinType') and t.get('on') and i not in decided:
                if const_of({'k': 'copy', 'pl': {'l': t['on']['l'], 'p': []}}) == 'T':
                    decided[i] = ('match', None)
        JT = next((a_.get('ty') for c in b.calls for a_ in c.args if a_['k'] == 'const' and str(a_.get('v')) == 'T' and a_.get('ty')), None) \
            or next(((t.get('adt')) for bl in b.blocks for t in [bl['term']] if t['k'] == 'switch' and (t.get('adt') or '').endswith('JoinType')), None) \
            or 'executor::hash_join::JoinType'
        interp = absint.Interp(prog, JT, absint.variant_order(prog, JT))

        def truth_of(x, T):
            """True / False / None (both arms) for the decided switch x under the concrete join type T"""
            kind, info = decided[x]
            if kind == 'call':
                try:
                    outs = set(map(repr, interp.run(info, [absint.T(T)])))
                except absint.Abort:
                    return None
                return True if outs == {'True'} else False if outs == {'False'} else None
            return (T == kind) == info
        polls = {}
        for c in b.calls:
            if re.search(r'Stream::poll_next$|StreamExt::(next|try_next)$|TryStreamExt::try_next$', c.fn or '') and c.args and c.args[0]['k'] != 'const':
                for x in origin_locals(b, c.args[0]['pl']['l'], depth=12):
                    for _, kind, p_ in local_defs(b, x):
                        if kind == 'assign':
                            for pl in operand_places(p_):
                                nm = next((v['name'] for v in b.rec['vars'] if v['pl']['l'] == pl['l'] and v['pl']['p'] == pl['p'][:len(v['pl']['p'])] and v['pl']['p']), None)
                                if nm in ('left', 'right'):
                                    polls.setdefault(nm, set()).add(c.bb)
        if not ctx.anchor(R9, f'{name}: polls of the left and right input', set(polls) == {'left', 'right'}):
            continue
        if not ctx.anchor(R9, f'{name}: tests of T against a join type', decided):
            continue
        ends = [i for i, bl in enumerate(b.blocks) if not bl['cleanup'] and bl['term']['k'] == 'return'] or b.return_blocks()
        errs = b.error_exit_blocks()
        for side, types in KEEP.items():
            for T in types:
                n += 1
                # reachability with the T-decided switches pruned
                seen, todo = set(), [0]
                while todo:
                    x = todo.pop()
                    if x in seen or x in polls[side] or x in errs:
                        continue
                    seen.add(x)
                    t = b.blocks[x]['term']
                    if x in decided and t['k'] == 'switch' and decided[x][0] == 'match':
                        names = t.get('variants', {})
                        todo.append(next((tgt for v, tgt in t['targets'] if names.get(str(v)) == T), t['otherwise']))
                    elif x in decided and t['k'] == 'switch' and truth_of(x, T) is not None:
                        truth = truth_of(x, T)
                        nxt = next((tgt for v, tgt in t['targets'] if (v != '0') == truth), t['otherwise'])
                        todo.append(nxt)
                    else:
                        todo += b.succ(x)
                leak = [e for e in ends if e in seen and e not in errs]
                # an end that is only reached through an error exit does not count
                ctx.ob(R9, f'{b.root}·T={T}·reads-the-{side}-input', not leak,
                       f'{b.name} with T = {T}: ends of the stream reachable without polling the {side} input: {leak} (tests of T decided: {len(decided)})',
                       [site(b, e) for e in leak] or [b.loc],
                       what=f'{b.root.rsplit("::", 2)[-2]} as a {T} join can finish without ever reading its {side} input: when the other input is empty, '
                            f'the {side} rows - which a {T} join must return padded with NULLs - are dropped')
    ctx.floor(R9, n, 8, '(executor, preserved side, join type) combinations')


def agg_combinators_cover_the_kernels(ctx, prog):
    """C11-R10: what the chunk kernel of SUM can produce, the row-wise / cross-chunk combinator can add"""
    import absint
    from absint import T
    R10 = 'C11-R10'
    ctx.rule(R10, 'SUM is computed two ways: a chunk at a time by ArrayImpl::sum (simple aggregate) and value by value through `&DataValue + '
                  '&DataValue` (hash / sort aggregates; also the simple aggregate when it combines two chunks). Every array type the chunk kernel '
                  'sums must have a same-type arm in the DataValue addition that does not end in its `invalid operation` panic - otherwise the '
                  'result of an aggregate depends on which executor ran it and on how many chunks the input had')
    sb = prog.body('array::ops::<impl array::ArrayImpl>::sum')
    ab = prog.body('<&types::value::DataValue as std::ops::Add>::add')
    if not (ctx.anchor(R10, 'ArrayImpl::sum', sb is not None) and ctx.anchor(R10, '<&DataValue as Add>::add', ab is not None)):
        return
    ctx.functions_analysed.update([sb.name, ab.name])
    summed = set()
    for i, bl in enumerate(sb.blocks):
        t = bl['term']
        if t['k'] == 'switch' and (t.get('adt') or '').endswith('array::ArrayImpl') and not bl['cleanup']:
            for v, tgt in t['targets']:
                if not sb.diverges(tgt):
                    summed.add(t['variants'][str(v)])
    dorder = absint.variant_order(prog, 'types::value::DataValue')
    if not ctx.anchor(R10, 'array types summed by the kernel', len(summed) >= 3) or not ctx.anchor(R10, 'variants of DataValue', len(dorder) >= 8):
        return
    I = absint.Interp(prog, 'types::value::DataValue', dorder)
    # only types the planner lets SUM see (its predicate in analyze_type, by the same abstract interpretation as C14-R13)
    from rules.c14_types import arms as sw_arms, region as sw_region, TYPE_RULES, DT
    at = prog.body(TYPE_RULES)
    accepted = None
    if at is not None and sw_arms(at, 'planner::Expr'):
        sw = sw_arms(at, 'planner::Expr')
        if 'Sum' in sw[1]:
            reg = sw_region(at, sw[0], sw[1], 'Sum')
            cls = [st['rv']['def'] for bb, st in at.stmts() if bb in reg and st['s'] == 'assign' and st['rv'].get('rv') == 'agg'
                   and st['rv'].get('kind') == 'closure' and not st['rv']['def'].endswith('{closure#0}')]
            if cls:
                TI = absint.Interp(prog, DT, absint.variant_order(prog, DT))
                accepted = set()
                for v in absint.variant_order(prog, DT):
                    outs = TI.run(prog.body(cls[0]), [absint.UNK, ('ref', T(v))])
                    if any((isinstance(o, tuple) and o[0] == 'opt' and o[1] is True) or o is True for o in outs):
                        accepted.add(v)
    if not ctx.anchor(R10, 'type rule of Sum in analyze_type', accepted is not None):
        return
    for v in sorted(summed):
        if v not in dorder or v not in accepted:
            continue
        try:
            outs = I.run(ab, [('ref', T(v)), ('ref', T(v))])
        except absint.Abort:
            outs = [None]
        ctx.ob(R10, f'SUM·{v}·kernel-and-combinator', bool(outs),
               f'ArrayImpl::sum has an arm for {v}; `&{v} + &{v}` on DataValue ' + ('returns' if outs else 'only reaches its panic'), [ab.loc],
               what=f'SUM over a {v} column: the chunk kernel sums it, the value-wise addition panics (invalid operation: {v}(..) add {v}(..)): '
                    '`select sum(k) from s` works on one chunk, `select g, sum(k) .. group by g` and the same sum over two chunks fail')
    ctx.floor(R10, len(summed), 3, 'array types with a SUM kernel')


def first_last_agree(ctx, prog):
    """C11-R11: FIRST / LAST mean the same chunk by chunk and row by row"""
    R11 = 'C11-R11'
    ctx.rule(R11, 'first(x) / last(x) are computed three ways - by the chunk kernels ArrayImpl::first / last, by the chunk-wise combination in '
                  'Evaluator::eval_agg (simple aggregate) and by the row-wise transition in Evaluator::agg_append (hash / sort aggregates). Each '
                  'either takes the element whatever it is ("element": Option::flatten after next(), no `or` with the state) or the first / last '
                  'NON-NULL value ("non-null": Iterator::flatten before next(), an `or` with the state). For one aggregate all places must make '
                  'the same choice, otherwise the answer depends on the executor and on how the input is cut into chunks')

    def arm_has_or(body, variant):
        for i_, bl_ in enumerate(body.blocks):
            t_ = bl_['term']
            if t_['k'] == 'switch' and t_.get('adt') == 'planner::Expr' and not bl_['cleanup']:
                arms_ = {t_['variants'][str(v)]: tgt for v, tgt in t_['targets']}
                if variant in arms_:
                    others = {x for x in arms_.values() if x != arms_[variant]} | {i_}
                    reg = body.reachable_from([arms_[variant]], avoid=others)
                    return any(c.bb in reg and (c.fn or '').endswith('Ext::or') for c in body.calls), arms_[variant]
        return None, None
    ea = next((x for nme, x in prog.bodies.items() if nme.endswith("Evaluator::<'a>::eval_agg")), None)
    aa = next((x for nme, x in prog.bodies.items() if nme.endswith("Evaluator::<'a>::agg_append")), None)
    if not (ctx.anchor(R11, 'Evaluator::eval_agg', ea is not None) and ctx.anchor(R11, 'Evaluator::agg_append', aa is not None)):
        return
    n = 0
    for agg, fn_ in (('First', 'first'), ('Last', 'last')):
        b = prog.body(f'array::ops::<impl array::ArrayImpl>::{fn_}')
        if not ctx.anchor(R11, f'ArrayImpl::{fn_}', b is not None):
            continue
        it_flat = any(re.search(r'iter::Iterator::flatten$', c.fn or '') for c in b.calls)
        opt_flat = any(re.search(r'Option::<.*>::flatten$', c.name or '') for c in b.calls)
        if not ctx.anchor(R11, f'ArrayImpl::{fn_}: flatten', it_flat != opt_flat):
            continue
        styles = {'chunk kernel': 'non-null' if it_flat else 'element'}
        o1, _ = arm_has_or(ea, agg)
        o2, at = arm_has_or(aa, agg)
        if not ctx.anchor(R11, f'arms of {agg} in eval_agg / agg_append', o1 is not None and o2 is not None):
            continue
        styles['chunk-wise combination'] = 'non-null' if o1 else 'element'
        styles['row-wise transition'] = 'non-null' if o2 else 'element'
        n += 3
        ctx.functions_analysed.update([b.name, ea.name, aa.name])
        ctx.ob(R11, f'{agg}·one-meaning-in-all-three-places', len(set(styles.values())) == 1,
               f'{agg}: {styles}', [b.loc, site(aa, at)],
               what=f'{fn_}(x) does not mean the same everywhere ({styles}): the simple aggregate and the hash / sort aggregates answer differently '
                    'when the column holds NULLs, or when the input arrives in more than one chunk')
    ctx.floor(R11, n, 6, 'places that compute FIRST / LAST')
