"""C17 - every accepted query is planned into an executable plan.

Decides: (R1) producible subset of executable: every plan-node shape (operator x join type x residual-is-true) that a
rewrite rule's right-hand side or the binder can create lands in a non-diverging arm of the executor builder (and of
the executor it delegates the join type to); every operator a rule creates is known to the schema analysis;
(R2) right-hand-side well-formedness: for every well-formed instantiation of a rule, the right-hand side binds all its
variables, its key lists have equal length and every column an operator references is produced by its input.
Does not decide: whether extraction leaves an `apply` (cost dependent), termination."""
import os
import re

from rulesem import check as rc
from rulesem.alg import parse, is_var, Malformed
from rules.c01 import run_rules, UNOBSERVABLE, UNCLASSIFIED
from tmpl import site, origin_locals_indexed, flows_from, origin_locals
from mir import operand_places

BUILD = 'executor::Builder::<S>::build_id_subscriber'
JOIN_OPS = {'join': 'Join', 'hashjoin': 'HashJoin', 'mergejoin': 'MergeJoin'}
TYPE_NAMES = {'inner': 'Inner', 'left_outer': 'LeftOuter', 'right_outer': 'RightOuter', 'full_outer': 'FullOuter',
              'semi': 'Semi', 'anti': 'Anti'}
OP_VARIANT = {'scan': 'Scan', 'proj': 'Proj', 'filter': 'Filter', 'order': 'Order', 'limit': 'Limit', 'topn': 'TopN',
              'join': 'Join', 'hashjoin': 'HashJoin', 'mergejoin': 'MergeJoin', 'apply': 'Apply', 'agg': 'Agg',
              'hashagg': 'HashAgg', 'sortagg': 'SortAgg', 'window': 'Window', 'empty': 'Empty', 'index_scan': 'IndexScan',
              'values': 'Values'}
PLAN_OPS = set(OP_VARIANT)


def builder_support(prog):
    """from the MIR of the executor builder: executable operators, and per join operator the executable join types and
    whether the residual condition must be literally `true`"""
    b = prog.body(BUILD, raw=True)      # as compiled: the join helpers (build_hashjoin ..) are looked at one by one below
    if b is None:
        return None
    sw = [(i, bl['term']) for i, bl in enumerate(b.blocks) if bl['term']['k'] == 'switch' and bl['term'].get('adt') == 'planner::Expr']
    if not sw:
        return None
    oi, outer = max(sw, key=lambda x: len(x[1]['targets']))
    ops = {}
    for v, tgt in outer['targets']:
        name = outer['variants'].get(v, v)
        ops[name] = {'target': tgt, 'executable': not b.diverges(tgt)}
    other_targets = {t for _, t in outer['targets']}
    out = {'ops': ops, 'types': {}, 'needs_true': {}}
    for opname in JOIN_OPS.values():
        if opname not in ops:
            continue
        tgt = ops[opname]['target']
        region = b.reachable_from([tgt], avoid=(other_targets - {tgt}) | {oi})
        inner = [(i, t) for i, t in sw if i in region and i != oi and len(t['targets']) >= 2]
        if not inner:
            continue
        i, t = min(inner, key=lambda x: x[0])
        types = {}
        for v, tg in t['targets']:
            types[t['variants'].get(v, v)] = tg
        out['types'][opname] = {k: (not b.diverges(tg)) for k, tg in types.items()}
        # which helper builds each type, and does it assert cond == true ?
        for k, tg in types.items():
            callees = [c for c in b.calls if c.bb in b.reachable_from([tg], avoid={x for x in types.values() if x != tg} | {i})
                       and re.search(r'Builder::<S>::build_(hashjoin|mergejoin|hashsemijoin)$', c.fn or '')]
            need = False
            for c in callees:
                hb = prog.bodies.get((c.fn or '').replace('executor::Builder::<S>', 'executor::Builder::<S>'))
                for name in prog.callee_bodies(c):
                    hb = prog.bodies[name]
                    uses_true = any((x.fn or '').endswith('Expr::true_') for x in hb.calls)
                    asserts = bool(hb.panic_blocks())
                    branches = any(bl['term']['k'] == 'switch' and not hb.diverges(s) for bl in hb.blocks for s in [])
                    # assert_eq!(cond, true): a comparison with true_ whose failing side panics and no alternative executor
                    alt = sum(1 for _ in hb.aggregates()) if False else None
                    execs = {st['rv']['adt'] for _, st in hb.aggregates() if st['rv']['adt'].startswith('executor::')}
                    need = uses_true and asserts and len(execs) <= 1
            out['needs_true'][(opname, k)] = need
    return out


def executor_type_support(prog, root):
    """join types an executor accepts itself: `if !matches!(self.op, A | B) { todo!() }` at its entry.
    `matches!` lowers to a switch whose arms store a constant bool that a second switch tests."""
    res = None
    for g in prog.group(root):
        for i, bl in enumerate(g.blocks[:12]):
            t = bl['term']
            if t['k'] != 'switch' or t.get('adt') != 'planner::Expr':
                continue
            arms = [(t['variants'].get(v, v), tg) for v, tg in t['targets']] + [('*', t['otherwise'])]
            direct = {name for name, tg in arms if name != '*' and not g.diverges(tg)}
            if g.diverges(t['otherwise']) and direct:
                res = direct if res is None else res & direct
                continue
            # matches!-form: every arm assigns a constant bool to one local and joins
            vals = {}
            local = None
            join = None
            for name, tg in arms:
                cur = tg
                for _ in range(3):
                    st = [s_ for s_ in g.blocks[cur]['stmts'] if s_.get('rv', {}).get('rv') == 'use' and s_['rv']['op']['k'] == 'const'
                          and s_['rv']['op'].get('v', '').replace('const ', '') in ('true', 'false')]
                    if st:
                        vals[name] = st[-1]['rv']['op']['v'].replace('const ', '') == 'true'
                        local = st[-1]['lhs']['l']
                        join = g.succs[cur][0] if g.succs[cur] else None
                        break
                    if len(g.succs[cur]) != 1:
                        break
                    cur = g.succs[cur][0]
            if local is None or join is None or len(vals) != len(arms):
                continue
            # the test of that bool (possibly through Not)
            cur = join
            for _ in range(4):
                tt = g.blocks[cur]['term']
                if tt['k'] == 'switch' and tt['discr']['k'] != 'const':
                    neg = any(s_.get('rv', {}).get('rv') == 'unop' and s_['rv']['op'] == 'Not' for s_ in g.blocks[cur]['stmts'])
                    zero = next((tg for v, tg in tt['targets'] if v == '0'), None)
                    one = tt['otherwise']
                    # value of the switched operand for matches == True
                    def lands(matches_val):
                        x = (not matches_val) if neg else matches_val
                        return one if x else zero
                    ok_true = lands(True) is not None and not g.diverges(lands(True))
                    ok_false = lands(False) is not None and not g.diverges(lands(False))
                    sup = {n for n, v in vals.items() if n != '*' and (ok_true if v else ok_false)}
                    if not (ok_true if vals.get('*') else ok_false):
                        res = sup if res is None else res & sup
                    break
                if len(g.succs[cur]) != 1:
                    break
                cur = g.succs[cur][0]
    return res


def rhs_shapes(rule):
    """(op, type or '?var', cond_literal_true) of every join-like node a rule's right-hand side creates"""
    try:
        L, _ = parse(rule['lhs'])
        R, _ = parse(rule['rhs'].replace('[', '').replace(']', ''))
    except Malformed:
        return [], set()
    ops = set()
    shapes = []

    def lhs_types(var):
        # a ?type variable ranges over whatever join types the left-hand side's operator admits
        return sorted(TYPE_NAMES)

    def walk(t):
        if isinstance(t, tuple) and t:
            if isinstance(t[0], str) and t[0] in PLAN_OPS:
                ops.add(t[0])
            if t[0] in JOIN_OPS and len(t) >= 3:
                ty = t[1]
                cond = t[2]
                shapes.append((t[0], ty, cond == 'true', cond))
            for x in t[1:]:
                walk(x)
    walk(R)
    return shapes, ops


def lhs_binds_cond_of_same_op(rule, op, condvar):
    """the residual condition variable is inherited from a node of the same operator on the left-hand side"""
    try:
        L, _ = parse(rule['lhs'])
    except Malformed:
        return False
    found = []

    def walk(t):
        if isinstance(t, tuple) and t:
            if t[0] == op and len(t) >= 3 and t[2] == condvar:
                found.append(t)
            for x in t[1:]:
                walk(x)
    walk(L)
    return bool(found)


def run(ctx):
    prog = ctx.prog('lib')
    ctx.extra['facts_key'] = prog.key
    ctx.explanation = ('Two-sided table check: (Engine B) plan-node shapes the rewrite rules and the binder can create, and '
                       'well-formedness of every instantiated right-hand side in the reference algebra; (Engine A) the arms of the '
                       'executor builder and of the executors that receive a join type, with their panic exits.')
    ctx.trusted += ['rustc MIR facts', 'reference algebra (rulesem/alg.py) raises on dangling column references',
                    'rule extraction by lexer (engines/rl-rules)']
    R1, R2 = 'C17-R1', 'C17-R2'
    ctx.rule(R1, 'every plan-node shape a rule right-hand side or the binder can create is executable: the operator has a builder '
                 'arm and a schema arm; its join type is accepted by the builder and by the executor it is delegated to; where the '
                 'builder asserts `cond == true`, the rule writes the literal true (or inherits the condition from the same operator)')
    ctx.rule(R2, 'for every well-formed instantiation of a rule left-hand side, the right-hand side is well-formed: all variables '
                 'bound, key lists of equal length, every referenced column produced by the operator\'s input')
    sup = builder_support(prog)
    if not ctx.anchor(R1, BUILD + ': match on planner::Expr', sup is not None):
        return
    ctx.functions_analysed.add(BUILD)
    ctx.extra['builder'] = {'ops': {k: v['executable'] for k, v in sup['ops'].items()},
                            'types': sup['types'], 'needs_true': {f'{a}·{b}': v for (a, b), v in sup['needs_true'].items()}}
    nl = executor_type_support(prog, 'executor::nested_loop_join::NestedLoopJoinExecutor::execute')
    ctx.extra['nested_loop_types'] = sorted(nl) if nl is not None else None
    # schema analysis arms
    an = prog.body('planner::rules::schema::analyze_schema')
    schema_ops = set()
    if ctx.anchor(R1, 'planner::rules::schema::analyze_schema', an is not None):
        for bl in an.blocks:
            t = bl['term']
            if t['k'] == 'switch' and t.get('adt') == 'planner::Expr':
                schema_ops |= {t['variants'].get(v, v) for v, _ in t['targets']}
    rules, unparsed, _ = None, None, None
    rules, unparsed = rc.extract(os.environ.get('VERIF_REPO', '/repo'))
    ctx.floor(R1, len(rules), 142, 'rewrite rules extracted')
    n_shapes = 0
    created_ops = {}
    for rule in rules:
        if rule['file'].endswith('expr.rs'):
            continue
        shapes, ops = rhs_shapes(rule)
        for o in ops:
            created_ops.setdefault(o, rule['name'])
        loc = f'{rule["file"]}:{rule["line"]}'
        for op, ty, cond_true, cond in shapes:
            opname = JOIN_OPS[op]
            types = sup['types'].get(opname, {})
            if is_var(ty):
                cands = sorted(TYPE_NAMES)
                # narrowed by a side condition on the type variable
                if any(c['fn'] == 'is_merge_join_type' and ty in c['args'] for c in rule['conds']):
                    cands = ['inner', 'left_outer', 'right_outer', 'full_outer']
            else:
                cands = [ty]
            for c in cands:
                n_shapes += 1
                v = TYPE_NAMES.get(c)
                ok_type = v is not None and types.get(v, False)
                need_true = sup['needs_true'].get((opname, v), False)
                inherited = is_var(cond) and lhs_binds_cond_of_same_op(rule, op, cond)
                ok_cond = (not need_true) or cond_true or inherited
                ctx.ob(R1, f'rule={rule["name"]}·{op}·{c}', ok_type and ok_cond,
                       f'{rule["name"]} ({loc}) creates `{op} {c}` with residual `{cond}`: builder accepts the type: {ok_type}; '
                       f'builder requires a literal true residual: {need_true}', [loc],
                       what=f'rule `{rule["name"]}` can create a `{op}` node of type {c}'
                            + ('' if ok_type else ' that the executor builder rejects with a panic')
                            + ('' if ok_cond else ' with a residual condition the builder asserts to be `true`'))
    # every operator a rule creates is executable and has a schema arm
    for o, rname in sorted(created_ops.items()):
        v = OP_VARIANT.get(o, o)
        if o == 'apply':
            ctx.note('apply is created by the sub-query rules as an intermediate form; whether extraction leaves one is cost dependent (not decided)')
            continue
        has_arm = sup['ops'].get(v, {}).get('executable', False)
        has_schema = v in schema_ops
        ctx.ob(R1, f'op={o}', has_arm and has_schema,
               f'operator `{o}` (created e.g. by rule {rname}): builder arm: {has_arm}, schema-analysis arm: {has_schema}',
               what=f'the optimizer can create `{o}` nodes (rule {rname}) but the executor builder has no arm for them '
                    f'(and the schema analysis does not know them): the query panics in the builder')
    # binder-producible join types vs the fallback join executor
    bind_types = set()
    for b in prog.bodies.values():
        if b.name.startswith('binder::'):
            for bb, st in b.aggregates('planner::Expr'):
                if st['rv']['variant'] in TYPE_NAMES.values():
                    bind_types.add(st['rv']['variant'])
    if ctx.anchor(R1, 'binder constructs join types', bind_types) and ctx.anchor(R1, 'NestedLoopJoinExecutor type guard', nl is not None):
        join_types = sup['types'].get('Join', {})
        for ty in sorted(bind_types):
            if ty in ('Semi', 'Anti'):
                ok = join_types.get(ty, False)
            else:
                ok = join_types.get(ty, False) and ty in nl
            ctx.ob(R1, f'binder·Join·{ty}', ok,
                   f'the binder emits (join {ty} ..); without an equi-condition it stays a nested-loop join; builder arm: '
                   f'{join_types.get(ty, False)}, NestedLoopJoinExecutor accepts: {ty in nl or ty in ("Semi", "Anti")}',
                   what=f'a {ty} join without an equality condition has no executable plan: NestedLoopJoinExecutor only '
                        f'implements {sorted(nl)} (todo!() otherwise)')
    ctx.extra['shapes_checked'] = n_shapes

    # R2: right-hand-side well-formedness from the law check
    if ctx.thorough:
        saved = ctx.tier
    rules2, unparsed2, results = run_rules(ctx)
    for rule, res in results:
        if rule['file'].endswith('expr.rs'):
            continue
        name = rule['name']
        loc = f'{rule["file"]}:{rule["line"]}'
        st = res['status']
        if st in ('unsupported', 'unmodelled', 'malformed', 'crash', 'vacuous'):
            if name in UNCLASSIFIED:
                ctx.unclassified.append({'rule': name, 'reason': UNCLASSIFIED[name]})
                continue
            ctx.ob(R2, f'rule={name}·{st}', False, f'rule `{name}` ({loc}) cannot be decided: {st}: {res.get("why")}', [loc])
            continue
        bad = {k: c for k, c in (res.get('cex') or {}).items() if isinstance(c, dict) and
               str(c.get('problem', '')).startswith(('right-hand side', 'output columns differ'))} if st == 'violation' else {}
        ctx.evaluations += max(0, (res.get('evaluated', 1) or 1) - 1)
        if not bad:
            ctx.ob(R2, f'rule={name}', True, f'{name}: right-hand side well-formed on {res.get("evaluated")} instantiations x databases', [loc])
            continue
        for key, cex in sorted(bad.items()):
            why = UNOBSERVABLE.get((name, key)) or UNOBSERVABLE.get((name, '*'))
            if why:
                ctx.unclassified.append({'rule': name, 'variant': key, 'reason': 'unarmed observation: ' + why, 'counter_model': cex})
                continue
            ctx.ob(R2, f'rule={name}' + (f'·{key}' if key else ''), False, f'{name} ({loc}): {cex["problem"]} on {cex["inst"]}', [loc],
                   what=f'rule `{name}` builds an ill-formed plan: {cex["problem"][:160]}')
    subquery_clauses(ctx, prog)
    apply_price_rule(ctx, prog)
    optimizer_always_runs(ctx, prog)
    limit_is_constant(ctx, prog)
    subquery_positions(ctx, prog)
    scans_honour_their_column_list(ctx, prog)


def subquery_clauses(ctx, prog):
    """C17-R3: sub-query expressions never reach the executor"""
    R3 = 'C17-R3'
    ctx.rule(R3, 'bind_expr creates sub-query expression nodes (Max1Row, In, Exists) in any clause, and the executor can not evaluate them; '
                 'so in bind_select the expressions of every clause (select list, WHERE, GROUP BY, HAVING, ORDER BY, DISTINCT ON) either '
                 'go through plan_apply (which turns the sub-queries into Apply nodes for the optimizer to unnest) or through the '
                 'contains_subquery rejection before they are put into a plan node')
    b = next((x for n, x in prog.bodies.items() if n.endswith('::bind_select') and 'binder::select' in n), None)
    if not ctx.anchor(R3, 'binder::select::bind_select', b is not None):
        return
    ctx.functions_analysed.add(b.name)
    PRODUCERS = ('bind_projection', 'bind_where', 'bind_groupby', 'bind_having', 'bind_orderby', 'bind_exprs')
    prods = [c for c in b.calls if (c.fn or '').rsplit('::', 1)[-1] in PRODUCERS]
    guards = [c for c in b.calls if (c.fn or '').rsplit('::', 1)[-1] in ('plan_apply', 'contains_subquery')]
    # DELETE binds its WHERE clause too, and has no plan_apply: scalar sub-queries must be planned or rejected there as well
    bd = next((x for n, x in prog.bodies.items() if n.endswith('::bind_delete') and 'binder::delete' in n), None)
    if ctx.anchor(R3, 'binder::delete::bind_delete', bd is not None):
        ctx.functions_analysed.add(bd.name)
        wh = [c for c in bd.calls if (c.fn or '').rsplit('::', 1)[-1] == 'bind_where']
        gd = [c for c in bd.calls if (c.fn or '').rsplit('::', 1)[-1] in ('plan_apply', 'contains_subquery', 'contains_scalar_subquery')]
        cov = set()
        for g in gd:
            for a in g.args[1:2]:
                if a['k'] != 'const':
                    cov |= origin_locals_indexed(bd, a['pl']['l'], depth=20)
        if ctx.anchor(R3, 'bind_delete: bind_where', wh):
            ok = all(c.dest['l'] in cov for c in wh)
            ctx.ob(R3, 'bind_delete·bind_where·subqueries-handled', ok,
                   'the WHERE clause of DELETE ' + ('reaches plan_apply / a sub-query rejection' if ok else 'goes into the plan unchecked'),
                   [site(bd, c.bb) for c in wh],
                   what='a scalar sub-query in DELETE .. WHERE is accepted and reaches the executor builder, which panics '
                        '(`delete from t where a = (select max(x) from s)`: column $1.0 not found from input)')
    ctx.floor(R3, len(prods), 5, 'clause binders called by bind_select')
    covered = set()
    for g in guards:
        for a in g.args[1:2]:
            if a['k'] != 'const':
                covered |= origin_locals_indexed(b, a["pl"]["l"], depth=40)
    for c in prods:
        clause = c.fn.rsplit('::', 1)[-1]
        ok = c.dest['l'] in covered
        ctx.ob(R3, f'bind_select·{clause}·subqueries-handled', ok,
               f'the expressions bound by {clause} ' + ('reach plan_apply / contains_subquery' if ok else
                                                          'go into the plan without plan_apply or a rejection'), [site(b, c.bb)],
               what=f'a sub-query in the clause bound by {clause} is accepted and reaches the executor builder, which panics '
                    '(`select a, (select max(c) from u) from t`: column $1.0 not found from input)')


def apply_price_rule(ctx, prog):
    """C17-R4: what can not be executed must never be the cheapest form"""
    R4 = 'C17-R4'
    ctx.rule(R4, 'nothing forbids the extraction of an Apply, only its price does; so that price must not vanish with the row estimate: in '
                 'CostFn::cost the Apply arm must contain the cost of its right side in a term that is not multiplied by rows(..) '
                 '(an additive path from the result to `costs(right)`), otherwise an outer side estimated at 0 rows (empty disk table, '
                 'LIMIT 0, WHERE false) makes the un-executable plan the cheapest one')
    b = next((x for n, x in prog.bodies.items() if n.endswith('::cost') and 'planner::cost::CostFn' in n), None)
    if not ctx.anchor(R4, 'planner::cost::CostFn::cost', b is not None):
        return
    ctx.functions_analysed.add(b.name)
    sw = [(i, bl['term']) for i, bl in enumerate(b.blocks) if bl['term']['k'] == 'switch' and bl['term'].get('adt') == 'planner::Expr'
          and any(v == 'Apply' for v in (bl['term'].get('variants') or {}).values())]
    arm = None
    for i, t in sw:
        names = t.get('variants', {})
        for v, tgt in t['targets']:
            if names.get(str(v)) == 'Apply' and tgt != t.get('otherwise'):
                arm = tgt
    if not ctx.anchor(R4, 'CostFn::cost: Apply arm', arm is not None):
        return
    others = {tgt for i, t in sw for v, tgt in t['targets'] if (t.get('variants') or {}).get(str(v)) != 'Apply'}
    region = b.reachable_from([arm], avoid=others)
    # children of the Apply node: locals holding &enode.Apply.0[k]
    child = {}
    for i in region:
        for st in b.blocks[i]['stmts']:
            if st['s'] == 'assign' and st['rv'].get('rv') == 'ref' and 'as:Apply' in st['rv']['pl']['p']:
                m = [re.match(r'^\[(\d+)\]$', p) for p in st['rv']['pl']['p']]
                m = [x for x in m if x]
                if m:
                    child[st['lhs']['l']] = int(m[0].group(1))
    from tmpl import local_defs, origin_locals
    from mir import operand_places, pl_fields

    def callee_kind(c):
        # `costs` is the FnMut parameter of CostFn::cost (argument 3), reached through the local wrapper closure; `rows` is the
        # closure whose body reads ExprAnalysis data `rows`
        recv = c.args[0]['pl']['l'] if c.args and c.args[0]['k'] != 'const' else None
        if recv is None:
            return 'other'
        if 3 in origin_locals(b, recv, depth=6):
            return 'costs'
        for n in prog.callee_bodies(c):
            cb = prog.bodies.get(n)
            if cb is not None and any(f.endswith('::rows') for _, st in cb.stmts() for pl in operand_places(st) for f in pl_fields(pl)):
                return 'rows'
        return 'other'

    def which_child(c):
        out = set()
        for a in c.args[1:]:
            if a['k'] != 'const':
                out |= {child[l] for l in origin_locals(b, a['pl']['l'], depth=6) if l in child}
        return out

    def additive_leaves(l, depth=12):
        """calls reachable from local l through Add nodes only (within the arm)"""
        if depth < 0:
            return []
        out = []
        for bb, kind, payload in local_defs(b, l):
            if bb not in region:
                continue
            if kind == 'call':
                out.append(payload)
            elif payload.get('rv') == 'binop' and payload['op'].startswith('Add'):
                for pl in operand_places(payload):
                    out += additive_leaves(pl['l'], depth - 1)
            elif payload.get('rv') == 'use' and payload['op']['k'] != 'const':
                out += additive_leaves(payload['op']['pl']['l'], depth - 1)
        return out
    # the arm's result: the last f32 local assigned in the region that flows out (assigned from an Add at the end of the arm)
    ret_src = {st['rv']['op']['pl']['l'] for _, st in b.stmts() if st['s'] == 'assign' and st['lhs']['l'] == 0 and not st['lhs']['p']
               and st['rv'].get('rv') == 'use' and st['rv']['op']['k'] != 'const'}
    results = [st['lhs']['l'] for i in sorted(region) for st in b.blocks[i]['stmts'] if st['s'] == 'assign' and not st['lhs']['p']
               and st['lhs']['l'] in ret_src]
    if not ctx.anchor(R4, 'CostFn::cost: result of the Apply arm', results):
        return
    from mir import Call
    leaves = additive_leaves(results[-1])
    ok = False
    desc = []
    for t in leaves:
        c = next((x for x in b.calls if x.t is t), None)
        if c is None:
            continue
        k, ch = callee_kind(c), which_child(c)
        desc.append(f'{k}({sorted(ch)})')
        if k == 'costs' and 2 in ch:
            ok = True
    ctx.ob(R4, 'Apply·price-survives-zero-rows', ok,
           f'additive terms of the Apply arm: {desc}; the cost of the right side (child 2) appears only inside a product with rows(..)'
           if not ok else f'additive terms of the Apply arm: {desc}', [site(b, arm)],
           what='the cost of an Apply is `build + costs(left) + rows(left) * costs(right)`: with a left side estimated at 0 rows it is '
                'cheaper than every join, the optimizer keeps the Apply (or the Filter over Exists/In it came from, priced the same way) '
                'and the executor builder panics')


def optimizer_always_runs(ctx, prog):
    """C17-R5: no plan skips the rewrite stages"""
    R5 = 'C17-R5'
    ctx.rule(R5, 'only the rewrite stages make sub-queries, computed limits and the like executable, and a plan may be stored and built later '
                 '(CREATE VIEW keeps its body): Optimizer::optimize has no return that skips optimize_stage for some kind of statement')
    b = prog.body('planner::optimizer::Optimizer::optimize')
    if not ctx.anchor(R5, 'planner::optimizer::Optimizer::optimize', b is not None):
        return
    ctx.functions_analysed.add(b.name)
    st = {c.bb for c in b.calls if (c.fn or '').endswith('Optimizer::optimize_stage')}
    if ctx.anchor(R5, 'optimize: optimize_stage calls', st):
        early = sorted(set(b.return_blocks()) & b.reachable_from([0], avoid=st))
        ctx.ob(R5, 'optimize·every-return-after-the-stages', not early,
               f'optimize_stage at blocks {sorted(st)}; returns reachable without any stage: {early}', [site(b, x) for x in (early or sorted(st)[:1])],
               what='Optimizer::optimize returns some statements unoptimized: a CREATE VIEW body with a sub-query or a computed LIMIT is stored '
                    'as bound and every later statement over the view panics in the executor builder')


def limit_is_constant(ctx, prog):
    """C17-R6: what the planner unwraps, the binder has produced"""
    from tmpl import local_defs
    R6 = 'C17-R6'
    ctx.rule(R6, 'row estimation and the executor builder unwrap the LIMIT and OFFSET of a plan: `constant.expect("limit should be constant")`, '
                 '`.as_usize().unwrap()`, and `.unwrap()` again for the offset. So where the binder builds a Limit node, both operands are ids '
                 'returned by a function that (a) can fail the statement, (b) tests the folded value with DataValue::as_usize and (c) puts an '
                 'Expr::Constant into the plan - a constant expression that does not fold, a negative number or a NULL offset must not get through')
    hit = False
    for b in prog.bodies.values():
        if not re.match(r'^binder::', b.name):
            continue
        for bb, st in b.aggregates('planner::Expr', 'Limit'):
            hit = True
            ctx.functions_analysed.add(b.name)
            arr = st['rv']['ops'][0] if st['rv'].get('ops') else None
            ids = []
            if arr is not None and arr['k'] != 'const':
                for _, kind, payload in local_defs(b, arr['pl']['l']):
                    if kind == 'assign' and payload.get('rv') == 'agg':
                        ids = [o['pl']['l'] for o in payload.get('ops', [])[:2] if o['k'] != 'const']
            producers = {}
            for l in ids:
                good = []
                for x in origin_locals_indexed(b, l, depth=6):
                    for _, kind, payload in local_defs(b, x):
                        if kind != 'call':
                            continue
                        for cn in prog.callee_bodies(type('C', (), {'res': payload.get('res'), 'fn': payload.get('fn'), 't': payload})()):
                            cb = prog.bodies[cn]
                            grp = prog.group(cb.root)
                            checks = any((c.fn or '').endswith('DataValue::as_usize') for g in grp for c in g.calls)
                            builds = any(True for g in grp for _ in g.aggregates('planner::Expr', 'Constant'))
                            fails = any(g.error_exit_blocks() for g in grp)
                            if checks and builds and fails:
                                good.append(cb.root.rsplit('::', 1)[-1])
                producers[l] = sorted(set(good))
            ok = len(ids) == 2 and all(producers.get(l) for l in ids)
            ctx.ob(R6, f'{b.root}·limit-offset-checked-constant', ok,
                   f'{b.name}: Limit node built at block {bb}; its limit / offset operands come from {list(producers.values())}', [site(b, bb)],
                   what='the binder lets a LIMIT / OFFSET through that the planner cannot unwrap: `limit a` (a column), `limit -1`, `offset null`, '
                        '`limit (case when true then 1 else 2 end)` are accepted and panic in row estimation or in the executor builder - on the '
                        'caller\'s thread, outside any operator task')
    ctx.anchor(R6, 'binder: construction of a Limit node', hit)


def subquery_positions(ctx, prog):
    """C17-R7: IN / EXISTS only where the rules can unnest them"""
    R7 = 'C17-R7'
    ctx.rule(R7, 'the rules that turn IN / EXISTS into semi / anti joins match them as conjuncts of a filter only (`(filter (exists ..) ..)`, '
                 '`(filter (not (exists ..)) ..)`, after filter splitting); bind_expr creates them anywhere in an expression. So the WHERE / '
                 'HAVING condition must pass a position check before it becomes a Filter: a function that receives the condition, '
                 'distinguishes And / Or / Not from In / Exists, and can fail the statement')
    bs = next((x for n, x in prog.bodies.items() if n.endswith('::bind_select') and 'binder::select' in n), None)
    if not ctx.anchor(R7, 'binder::select::bind_select', bs is not None):
        return
    ctx.functions_analysed.add(bs.name)
    wh = [c for c in bs.calls if (c.fn or '').rsplit('::', 1)[-1] in ('bind_where', 'bind_having')]
    if not ctx.anchor(R7, 'bind_select: bind_where / bind_having', wh):
        return

    def is_position_check(name, depth=2, seen=None):
        seen = seen if seen is not None else set()
        if name in seen or depth < 0 or name not in prog.bodies:
            return False
        seen.add(name)
        for g in prog.group(prog.bodies[name].root):
            arms = set()
            for bl in g.blocks:
                t = bl['term']
                if t['k'] == 'switch' and t.get('adt') == 'planner::Expr':
                    nm = t.get('variants', {})
                    arms |= {nm.get(str(v)) for v, tgt in t['targets'] if tgt != t.get('otherwise')}
            # a focused function of the binder, not one of the big per-node tables (type analysis, Display, Hash ..)
            if {'In', 'Exists'} <= arms and ({'And', 'Or'} & arms) and g.name.startswith('binder::') and len(arms) <= 12:
                return True
            for c in g.calls:
                for n in prog.callee_bodies(c):
                    if is_position_check(n, depth - 1, seen):
                        return True
        return False
    checked = set()
    for c in bs.calls + [k for w in wh for n in prog.callee_bodies(w) for k in prog.bodies[n].calls]:
        if any(is_position_check(n) for n in prog.callee_bodies(c)):
            checked.add(c.bb)
    ctx.ob(R7, 'bind_select·in/exists-position-checked', bool(checked),
           f'calls from bind_select / bind_where / bind_having into a function that tells And/Or from In/Exists: {sorted(checked)}',
           [site(bs, c.bb) for c in wh],
           what='IN / EXISTS are accepted anywhere in WHERE but only unnested as conjuncts: `where a = 1 or exists (select ..)` panics the '
                'executor builder (column $1.1 not found from input)')


def scans_honour_their_column_list(ctx, prog):
    """C17-R8: the optimizer prunes the column list of every Scan node (column pruning), so a scan implementation
    must produce exactly the columns it was asked for."""
    R8 = 'C17-R8'
    ctx.rule(R8, 'column pruning rewrites the list of every Scan to the columns the query uses, so each implementation behind the '
                 'builder\'s Scan arm must BUILD its output from that list: the chunks a system table scan yields, the scan request of '
                 'a table scan and the projection over a view all derive from the `columns` they were given. A scan that only looks '
                 'at the length of the list (to assert that it is the full table) refuses every projected query')

    def field_local(body, name):
        for v in body.rec['vars']:
            if v['name'] == name:
                return v['pl']
        return None

    def reads_field(pl):
        return lambda kind, payload, bb: kind == 'assign' and any(
            q['l'] == pl['l'] and q['p'][:len(pl['p'])] == pl['p'] for q in operand_places(payload))

    n = 0
    SYS = 'executor::system_table_scan::SystemTableScan::<S>::execute::{closure#0}'
    b = prog.body(SYS)
    if ctx.anchor(R8, SYS, b is not None):
        pl = field_local(b, 'self__columns')
        if ctx.anchor(R8, SYS + ' captures self.columns', pl is not None):
            ys = [(i, bl['term']) for i, bl in enumerate(b.blocks) if not bl['cleanup'] and bl['term']['k'] == 'yield']
            good = [i for i, t in ys if any(flows_from(b, q['l'], reads_field(pl), depth=16) for q in operand_places(t['value']))]
            n += 1
            ctx.functions_analysed.add(b.name)
            ctx.ob(R8, 'SystemTableScan·output-built-from-columns', bool(good),
                   f'{len(ys)} yield points; deriving from self.columns: {good}', [site(b, i) for i, _ in ys][:3],
                   what='SystemTableScan ignores the column list of its Scan node (it only asserts that the list is the whole table): any '
                        'query that does not use every column of a system table - `select table_name from pg_catalog.pg_tables`, '
                        '`select count(*) from pg_catalog.pg_attribute` - is accepted, optimized (column pruning) and then dies in the executor')
    TS = 'executor::table_scan::TableScanExecutor::<S>::execute::{closure#0}'
    b = prog.body(TS)
    if ctx.anchor(R8, TS, b is not None):
        pl = field_local(b, 'self__columns')
        scans = [c for c in b.calls if re.search(r'Transaction::scan$', c.fn or '')]
        if ctx.anchor(R8, TS + ' scan request', pl is not None and bool(scans)):
            ok = all(any(a['k'] != 'const' and flows_from(b, a['pl']['l'], reads_field(pl), depth=16) for a in c.args) for c in scans)
            n += 1
            ctx.functions_analysed.add(b.name)
            ctx.ob(R8, 'TableScanExecutor·scan-request-built-from-columns', ok,
                   f'{len(scans)} Transaction::scan call(s); an argument derives from self.columns: {ok}', [site(b, c.bb) for c in scans],
                   what='TableScanExecutor requests columns from the storage that do not come from the column list of its Scan node')
    found = None
    for g in prog.bodies.values():
        if not g.name.startswith('executor::Builder::<S>::'):
            continue
        for c in g.calls:
            if not (c.fn or '').endswith('ProjectionExecutor::execute') or len(c.args) < 2 or c.args[1]['k'] == 'const':
                continue
            if not flows_from(g, c.args[1]['pl']['l'], lambda k, p_, bb: k == 'call' and (p_.get('fn') or '').endswith('StreamSubscriber::subscribe')):
                continue
            found = (g, c)
    if ctx.anchor(R8, 'Builder: ProjectionExecutor over a view subscriber', found is not None):
        g, c = found
        projs = origin_locals(g, c.args[0]['pl']['l'], depth=4)
        from_cols = lambda k, p_, bb: k == 'call' and re.search(r'::iter$|::into_iter$', p_.get('fn') or '') is not None \
            and 'ColumnRefId' in g.local_ty(p_['dest']['l'])
        adds = []
        for a_ in g.calls:
            if (a_.fn or '').endswith('RecExpr::<L>::add') and len(a_.args) == 2 and a_.args[0]['k'] != 'const' and a_.args[1]['k'] != 'const' \
                    and origin_locals(g, a_.args[0]['pl']['l'], depth=3) & projs:
                adds.append((a_.bb, flows_from(g, a_.args[1]['pl']['l'], from_cols, depth=10)))
        n += 1
        ctx.functions_analysed.add(g.name)
        ctx.ob(R8, 'view-scan·projection-built-from-columns', any(ok for _, ok in adds),
               f'{g.name}: nodes added to the projection over the view: {adds}', [site(g, c.bb)],
               what='the projection placed over a view does not build its expression list from the column list of the Scan node')
    ctx.floor(R8, n, 3, 'scan implementations behind the Scan arm')

