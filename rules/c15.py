"""C15 - a failing statement reports an error, never a partial answer.

Decides: (R1) no error value of the repository's error types is discarded on the statement path;
(R2) the operator task converts a panic into an Err item; (R3) INSERT/DELETE commit only after the
clean end of their input and every item passes `?`; (R4) the bootstrap receiver is deactivated before
the producer task is spawned; (R5) the crate keeps deny(unused_must_use).
Does not decide: that every operator *returns* an error for every bad input (value level)."""
import re

from mir import operand_places
from tmpl import fate, site, start_sites, done_sites, suffix, result_switch_fate

ERR_TYPES = ('storage::error::TracedStorageError', 'storage::error::StorageError', 'types::ConvertError',
             'executor::error::Error', 'catalog::CatalogError', 'std::io::Error', 'db::Error', 'csv::Error',
             'serde_json::Error', 'binder::error::BindError', 'tokio::task::JoinError',
             # decoding of stored bytes (after seed C03-e: a record cut off at a buffer end was skipped with `while let Ok(..)`)
             'prost::DecodeError', 'prost::EncodeError', 'std::string::FromUtf8Error', 'std::str::Utf8Error')
STATEMENT_PATH = re.compile(r'^<?(executor|storage|db|array|catalog)::')
# consumers that look at the error and turn it into control flow / propagate it
PROPAGATE = re.compile(r'(Try::branch|FromResidual::from_residual|Result::<[^>]*>::(map_err|map|and_then|or_else|unwrap|expect'
                       r'|unwrap_or_else|ok_or|context|inspect_err)|Result::<.*>::(unwrap|expect|map_err|map|and_then)'
                       r'|broadcast|Sender<.*>::send|std::convert::From::from|std::convert::Into::into'
                       r'|std::task::Poll::Ready|Option::<.*>::Some|unwrap_failed)')
SWALLOW = re.compile(r'Result::<.*>::(ok|err|unwrap_or|unwrap_or_default|iter|map_or|map_or_else|unwrap_or_else)$')
# named exceptions (one symbol, one reason)
EXEMPT = {
    'storage::secondary::compactor::Compactor::run':
        'background compactor loop logs a failed pass with warn! and retries; not on the statement path',
}


CHANNEL_ERR = re.compile(r', ((async_broadcast|tokio::sync::[a-z_:]+)::(Try)?SendError<.*>)>$')


def err_type(dest_ty):
    if not dest_ty.startswith('std::result::Result<'):
        return None
    for e in ERR_TYPES:
        if dest_ty.endswith(', ' + e + '>'):
            return e
    m = CHANNEL_ERR.search(dest_ty)
    if m:
        return m.group(1)   # a failed hand-over of an item (possibly an Err item) to the consumer
    return None


def result_fates(prog, path_re):
    """(body, call, error type, bad fates, good fates, awaited?) for every Result<_, E> produced on the given path"""
    out = []
    for b in prog.bodies.values():
        if not path_re.search(b.name):
            continue
        if b.rec.get('derived'):
            continue
        for c in b.calls:
            dt = c.t.get('dest_ty', '')
            et = err_type(dt)
            awaited = False
            if not et and dt.startswith('std::task::Poll<std::result::Result<'):
                et = err_type(dt[len('std::task::Poll<'):-1])
                awaited = True
            item = False
            if not et and dt.startswith('std::task::Poll<std::option::Option<std::result::Result<'):
                # an item of a child stream (`for_await`, `stream.next().await`): Poll::Ready(Some(Result<chunk, E>))
                et = err_type(dt[len('std::task::Poll<std::option::Option<'):-2])
                awaited = item = True
            if not et:
                continue
            d = c.dest
            if d['p']:
                continue
            if awaited:
                # `x.await`: the Result is moved out of Poll::Ready(..); judge the fate of that payload
                payloads = [st['lhs']['l'] for _, st in b.stmts() if st.get('rv', {}).get('rv') == 'use'
                            and st['rv']['op']['k'] in ('move', 'copy') and st['rv']['op']['pl']['l'] == d['l']
                            and any(p.startswith('as:Ready') for p in st['rv']['op']['pl']['p']) and not st['lhs']['p']
                            and not item]
                if item:
                    # the Option<Result<..>> may be moved around before it is matched: follow plain moves of it
                    opts, todo = {d['l']}, [d['l']]
                    while todo:
                        x = todo.pop()
                        for _, st in b.stmts():
                            rv = st.get('rv', {}) if st['s'] == 'assign' else {}
                            if rv.get('rv') == 'use' and rv['op']['k'] in ('move', 'copy') and rv['op']['pl']['l'] == x and not st['lhs']['p'] \
                                    and not any(p in ('as:Some', 'as:Ok', 'as:Err') for p in rv['op']['pl']['p']) and st['lhs']['l'] not in opts:
                                opts.add(st['lhs']['l'])
                                todo.append(st['lhs']['l'])
                    payloads = [st['lhs']['l'] for _, st in b.stmts() if st['s'] == 'assign' and st.get('rv', {}).get('rv') == 'use'
                                and st['rv']['op']['k'] in ('move', 'copy') and st['rv']['op']['pl']['l'] in opts and not st['lhs']['p']
                                and 'as:Some' in st['rv']['op']['pl']['p'] and not any(p in ('as:Ok', 'as:Err') for p in st['rv']['op']['pl']['p'])]
                    # ... or matched in place: `while let Some(Ok(chunk)) = s.next().await`
                    for i_, bl_ in enumerate(b.blocks):
                        t_ = bl_['term']
                        if t_['k'] == 'switch' and (t_.get('adt') or '').startswith('std::result::Result') and t_.get('on') \
                                and t_['on']['l'] in opts and 'as:Some' in t_['on']['p']:
                            payloads.append(('switch', i_, t_))
                fs = set()
                for pl_ in payloads:
                    if isinstance(pl_, tuple):
                        fs.add(result_switch_fate(b, pl_[1], pl_[2]))
                    else:
                        fs |= fate(b, pl_, classify, classify_switch=result_switch_fate)
                if not payloads:
                    fs = {'propagated'}   # the poll result is handed on as a whole
                bad = sorted(f for f in fs if f == 'dropped' or f.startswith('swallowed'))
                good = fs - set(bad)
            else:
                fs = fate(b, d['l'], classify, classify_switch=result_switch_fate)
                bad = sorted(f for f in fs if f == 'dropped' or f.startswith('swallowed'))
                good = fs - set(bad)
            out.append((b, c, et, bad, good, awaited))
    return out


def classify(t, argidx):
    names = [n for n in (t.get('res'), t.get('fn')) if n]
    for n in names:
        if SWALLOW.search(n):
            return 'swallowed:' + n.rsplit('::', 1)[-1]
    for n in names:
        if n.endswith('Try::branch') or n.endswith('from_residual'):
            return 'propagated'
        if re.search(r'::(map_err|map|and_then|or_else|inspect_err|context|with_context|is_ok|is_err|is_ok_and|is_err_and)$', n):
            return 'follow'  # is_ok()/is_err(): the bool is followed; a branch on it counts as matched
        if re.search(r'::(unwrap|expect|unwrap_unchecked|expect_err|unwrap_err)$', n):
            return 'propagated'  # a panic, handled by R2
        if re.search(r'(convert::From::from|convert::Into::into|Pin::<.*>::new|std::task::Poll|IntoFuture::into_future)', n):
            return 'follow'
    # handed to some other function (channel send, broadcast, a helper taking the Result): not lost here
    return 'propagated'


def run(ctx):
    prog = ctx.prog('all' if ctx.thorough else 'lib')
    ctx.extra['facts_key'] = prog.key
    ctx.explanation = ('Forward def-use of every Result<_, E> produced on the statement path (E in the repository\'s error '
                       'types): a value that is only dropped, or handed to .ok()/.is_err()/.unwrap_or*(), is an error '
                       'discarded silently. Plus T-order rules on the operator task (spawn) and on INSERT/DELETE commit.')
    ctx.trusted += ['rustc MIR facts', 'list of error types and of swallowing combinators in rules/c15.py']
    ctx.assumptions += ['a Result passed to another function, stored in a field, matched or returned counts as handled']
    R1 = 'C15-R1'
    ctx.rule(R1, 'no Result<_, E> with E in {ExecutorError, TracedStorageError, StorageError, ConvertError, CatalogError, '
                 'io::Error, csv::Error, db::Error} produced in executor::/storage::/db::/array:: is dropped unread or '
                 'discarded with ok()/is_ok()/is_err()/unwrap_or*()')
    n_results = 0
    for b, c, et, bad, good, awaited in result_fates(prog, STATEMENT_PATH):
        n_results += 1
        ctx.functions_analysed.add(b.name)
        exempt = EXEMPT.get(b.root)
        if bad and not good and not exempt:
            if awaited:
                ctx.ob(R1, f'{b.root}·await·{"/".join(bad)}', False,
                       f'the awaited result of `{c.name}` in {b.name} is {", ".join(bad)}', [site(b, c.bb)])
            else:
                ctx.ob(R1, f'{b.root}·{short(c.name)}·{"/".join(bad)}', False,
                       f'the {et} result of `{c.name}` in {b.name} is {", ".join(bad)}: the error never reaches the caller',
                       [site(b, c.bb)])
        else:
            ctx.evaluations += 1
            if bad and exempt:
                ctx.note(f'{R1}: exempt {b.root}: {exempt}')
    # self-test on the positive examples (tests/fixture, compiled through the same driver)
    try:
        import mir
        fx = mir.load_fixture()
        flagged = {b.root for b, c, et, bad, good, aw in result_fates(fx, re.compile(r'^executor::')) if bad and not good}
        want = {'executor::dropped', 'executor::swallowed', 'executor::defaulted', 'executor::if_let_ok'}
        clean = {'executor::propagated', 'executor::matched', 'executor::tested', 'executor::loop_matched'}
        ctx.ob(R1, 'self-test·fixture', flagged >= want and not (flagged & clean),
               f'positive examples flagged: {sorted(flagged)}; expected {sorted(want)} and none of {sorted(clean)}')
    except SystemExit as e:
        ctx.ob(R1, 'self-test·fixture', False, f'fixture crate could not be analysed: {e}')
    ctx.nontrivial.add((R1, f'results:{n_results}'))
    ctx.floor(R1, n_results, 300, 'Result-producing call sites examined')
    ctx.extra['results_examined'] = n_results

    # R2 ----------------------------------------------------------------------------------------------
    R2 = 'C15-R2'
    ctx.rule(R2, 'the task spawned by Builder::spawn turns a panic of the operator stream into an Err item '
                 '(catch_unwind in the producer, or the subscriber observes the JoinHandle)')
    spawn = [b for b in prog.find(r'^executor::Builder::<S>::spawn$')]
    if ctx.anchor(R2, 'executor::Builder::<S>::spawn', spawn):
        grp = prog.group(spawn[0].root) + prog.group('executor::StreamSubscriber::subscribe') \
            + prog.group('executor::StreamSubscriber::subscribe::to_stream')
        found = [c for g in grp for c in g.calls if re.search(r'catch_unwind|JoinHandle<.*>\s*as\s.*Future>::poll|'
                                                              r'JoinHandle::<.*>::(is_finished|poll)', c.name or '')]
        ctx.ob(R2, 'Builder::spawn·panic→Err', bool(found),
               'operator task: ' + ('panics are caught: ' + found[0].name if found else
                                    'no catch_unwind / JoinHandle observation: a panic closes the channel and the '
                                    'consumer sees a normal end of stream'),
               [site(spawn[0], 0)],
               what='a panic inside an operator task ends the stream silently: the statement returns Ok with rows missing')
    # the same for the part of a statement that runs on the caller's task: bind + optimize + build
    from tmpl import origin_locals, local_defs
    TARGET = re.compile(r'planner::optimizer::Optimizer::optimize$|^executor::build$|^binder::Binder::bind$')

    def caught_closures(parent):
        out = set()
        for k in parent.calls:
            if re.search(r'panic::catch_unwind$', k.fn or '') and k.args and k.args[0]['k'] != 'const':
                for x in origin_locals(parent, k.args[0]['pl']['l'], depth=6):
                    for _, kind, payload in local_defs(parent, x):
                        if kind == 'assign' and payload.get('rv') == 'agg' and payload.get('kind') == 'closure':
                            out.add(payload['def'])
        return out
    start = [g for g in prog.bodies.values() if g.name == 'db::Database::run' or g.name == 'db::Database::run::{closure#0}']
    planners, seen, todo = [], set(), [(g, False) for g in start]
    while todo:
        g, prot = todo.pop()
        if (g.name, prot) in seen:
            continue
        seen.add((g.name, prot))
        caught = caught_closures(g)
        for _, child in g.closure_sites():
            if child in prog.bodies:
                todo.append((prog.bodies[child], prot or child in caught))
        for c in g.calls:
            if TARGET.search(c.fn or ''):
                planners.append((g, c, prot))
            for cn in prog.callee_bodies(c):
                if cn.startswith('db::') and len(seen) < 60:
                    todo.append((prog.bodies[cn], prot))
    if ctx.anchor(R2, 'Database::run: calls of Binder::bind / Optimizer::optimize / executor::build', len(planners) >= 3):
        bad = [(g, c) for g, c, prot in planners if not prot]
        ctx.functions_analysed.update(g.name for g, _, _ in planners)
        ctx.ob(R2, 'Database::run·planner-panic→Err', not bad,
               f'{len(planners)} calls of bind / optimize / build reachable from Database::run; not under a closure handed to catch_unwind: '
               f'{[(g.name.split("::", 2)[-1], c.fn.rsplit("::", 1)[-1]) for g, c in bad]}',
               [site(g, c.bb) for g, c in (bad or [(g, c) for g, c, _ in planners])][:3],
               what='Database::run calls the binder / the optimizer / the executor builder unprotected: a plan shape they do not handle (an Apply that '
                    'survived, a column the builder cannot resolve, an unsupported literal ..) panics on the caller\'s task instead of failing the statement')

    # R3 ----------------------------------------------------------------------------------------------
    R3 = 'C15-R3'
    ctx.rule(R3, 'INSERT/DELETE: Transaction::commit is reached only from the None (end of input) exit of the child '
                 'stream loop, and no error exit (from_residual) leads to commit')
    for name in ('executor::insert::InsertExecutor::<S>::execute::{closure#0}',
                 'executor::delete::DeleteExecutor::<S>::execute::{closure#0}'):
        b = prog.body(name)
        if not ctx.anchor(R3, name, b is not None):
            continue
        ctx.functions_analysed.add(name)
        commits = start_sites(prog, b, 'storage::Transaction::commit')
        polls = [c.bb for c in b.calls if (c.fn or '').endswith('Stream::poll_next')]
        if not ctx.anchor(R3, name + ':commit', commits) or not ctx.anchor(R3, name + ':poll_next', polls):
            continue
        # the None arm of Option inside Poll::Ready
        none_targets = []
        for i, bl in enumerate(b.blocks):
            t = bl['term']
            if t['k'] == 'switch' and t.get('adt') == 'std::option::Option' and t.get('on') and \
                    any(p.startswith('as:Ready') for p in t['on']['p']):
                for v, tgt in t['targets']:
                    if t.get('variants', {}).get(v) == 'None':
                        none_targets.append(tgt)
        ok1 = bool(none_targets) and all(b.dominated_by_any(set(none_targets), cbb) for cbb in commits)
        ctx.ob(R3, f'{b.root}·commit-after-end-of-input', ok1,
               f'commit (blocks {commits}) must be dominated by the end-of-input exit of the child stream (blocks {none_targets})',
               [site(b, x) for x in commits])
        errs = b.error_exit_blocks()
        reach = b.reachable_from(list(errs))
        ok2 = not (set(commits) & reach)
        ctx.ob(R3, f'{b.root}·no-commit-after-error', ok2,
               'no path from an error exit (`?`) may reach Transaction::commit', [site(b, x) for x in commits])
        # every item of the child stream passes `?` before it is used
        items_checked = False
        for c in b.calls:
            if (c.fn or '').endswith('Try::branch') and c.args and c.args[0]['k'] != 'const':
                ty = b.local_ty(c.args[0]['pl']['l'])
                if 'DataChunk' in ty and 'executor::error::Error' in ty:
                    items_checked = True
        ctx.ob(R3, f'{b.root}·items-pass-try', items_checked,
               'every chunk taken from the child stream must go through `?` (Try::branch on Result<DataChunk, Error>)')
        # appends / deletes are awaited with `?` : covered by R1 (their Result must not be dropped)

    # R4 ----------------------------------------------------------------------------------------------
    R4 = 'C15-R4'
    ctx.rule(R4, 'Builder::spawn: the bootstrap receiver is deactivated before the producer task is spawned; otherwise '
                 'chunks broadcast in between are dropped with that receiver')
    if spawn:
        b = spawn[0]
        ctx.functions_analysed.add(b.name)
        de = [c.bb for c in b.calls if re.search(r'async_broadcast::Receiver::<.*>::deactivate$|Receiver::<T>::deactivate$', c.name or '')]
        sp = [c.bb for c in b.calls if re.search(r'tokio::task::Builder::<\'a>::spawn$|tokio::task::Builder::.*::spawn$|tokio::spawn$|tokio::task::spawn$', c.name or '')]
        if ctx.anchor(R4, 'spawn:Receiver::deactivate', de) and ctx.anchor(R4, 'spawn:tokio spawn', sp):
            ok = all(b.dominated_by_any(set(de), s) for s in sp)
            ctx.ob(R4, 'Builder::spawn·deactivate≺spawn', ok,
                   f'Receiver::deactivate (blocks {de}) must dominate the task spawn (blocks {sp})',
                   [site(b, x) for x in de + sp],
                   what='the operator task is spawned while the bootstrap receiver is still active: on a multi-thread '
                        'runtime chunks broadcast before rx.deactivate() are lost (statement returns fewer rows / 0 rows)')

    # R5 ----------------------------------------------------------------------------------------------
    R5 = 'C15-R5'
    ctx.rule(R5, 'crate root keeps #![deny(unused_must_use)]')
    lvl = prog.lints.get('unused_must_use')
    ctx.ob(R5, 'crate·unused_must_use', lvl in ('Deny', 'Forbid'), f'lint level at crate root: {lvl}')

    # R6 ----------------------------------------------------------------------------------------------
    R6 = 'C15-R6'
    ctx.rule(R6, 'a statement that fails leaves nothing behind because its storage transaction is dropped uncommitted: the only '
                 'ways to publish are Transaction::commit (memory: InMemoryTableInner::append/delete; disk: '
                 'VersionManager::commit_changes from commit_inner), nobody else mutates the published state, and no Drop impl '
                 'of a transaction publishes')
    MEM_PUB = re.compile(r'^storage::memory::table::InMemoryTableInner::(append|delete)$')
    mem_commit = '<storage::memory::transaction::InMemoryTransaction as storage::Transaction>::commit'
    calls = [c for c in prog.calls_matching_all(MEM_PUB)]
    ctx.floor(R6, len(calls), 2, 'call sites of InMemoryTableInner::append/delete')
    for c in calls:
        ctx.ob(R6, f'memory·{short(c.name).rsplit("::", 1)[-1]}·from·{c.body.root}', c.body.root == mem_commit,
               f'{c.name} is called from {c.body.name}; only InMemoryTransaction::commit may publish (a write from append()/delete() '
               f'would survive a failing statement)', [site(c.body, c.bb)],
               what=f'the in-memory table is mutated outside commit ({c.body.root}): rows of a failing statement stay visible')
    # nobody but InMemoryTableInner's own methods takes a mutable path to its fields
    INNER = 'storage::memory::table::InMemoryTableInner'
    n_w = 0
    for b in prog.bodies.values():
        muts = []
        for i, st in b.stmts():
            if st['s'] != 'assign':
                continue
            lhs_f = [f for f in (x[2:] for x in st['lhs']['p'] if x.startswith('f:')) if f.startswith(INNER + '::')]
            rv = st['rv']
            ref_f = []
            if rv.get('rv') == 'ref' and rv.get('mut'):
                ref_f = [f for f in (x[2:] for x in rv['pl']['p'] if x.startswith('f:')) if f.startswith(INNER + '::')]
            if lhs_f or ref_f:
                muts.append((i, (lhs_f or ref_f)[0]))
        if not muts:
            continue
        n_w += 1
        own = b.root.startswith(INNER + '::')
        ctx.ob(R6, f'memory·field-writer·{b.root}', own,
               f'{b.name} writes {sorted({m[1] for m in muts})}: only InMemoryTableInner\'s own methods may', [site(b, muts[0][0])])
    ctx.floor(R6, n_w, 2, 'functions that mutate InMemoryTableInner fields')
    committers_rule(ctx, prog, R6)
    ci = prog.calls_matching_all(re.compile(r'SecondaryTransaction::commit_inner$'))
    for c in ci:
        ok = c.body.root == '<storage::secondary::transaction::SecondaryTransaction as storage::Transaction>::commit'
        ctx.ob(R6, f'disk·commit_inner·from·{c.body.root}', ok, f'commit_inner called from {c.body.name}', [site(c.body, c.bb)])
    ctx.anchor(R6, 'SecondaryTransaction::commit_inner callers', ci)
    # a Drop impl on a transaction type must not publish
    for i in prog.impls:
        if i.get('trait') == 'std::ops::Drop' and re.search(r'storage::(memory|secondary)::transaction::', i.get('self_adt') or ''):
            pub = False
            for m in i['items']:
                if m in prog.bodies:
                    pub = pub or prog.group_reaches_call(prog.bodies[m].root, re.compile(r'commit_changes$|InMemoryTableInner::(append|delete)$|commit_inner$'), 6)
            ctx.ob(R6, f'drop·{i["self_adt"]}', not pub, f'Drop for {i["self_adt"]} must not publish', [i['loc']])

    # R7 ----------------------------------------------------------------------------------------------
    R7 = 'C15-R7'
    ctx.rule(R7, 'the items of an operator stream are Results: a combinator that consumes such a stream without ever showing its items to the '
                 'caller (StreamExt::count / skip / last / nth / for_each over the raw items) drops an Err item as if it were a chunk; a '
                 'stream of Result<_, E> may only be drained item by item (poll_next / next with the item checked, R1) or through the '
                 'Try* combinators')
    DISCARD = re.compile(r'futures(::stream)?::StreamExt::(count|skip|skip_while|last|nth|for_each|for_each_concurrent|fold|any|all)$')
    n_comb = 0
    for b in prog.bodies.values():
        if not STATEMENT_PATH.search(b.name) or b.rec.get('derived'):
            continue
        for c in b.calls:
            if re.search(r'futures(::stream)?::(StreamExt|TryStreamExt)::', c.fn or ''):
                n_comb += 1
            if not DISCARD.search(c.fn or ''):
                continue
            g = ' '.join(c.t.get('gargs', []))
            et = [e for e in ERR_TYPES if re.search(r'Item = std::result::Result<.*, ' + re.escape(e) + '>', g)]
            if et:
                ctx.functions_analysed.add(b.name)
                ctx.ob(R7, f'{b.root}·{c.fn.rsplit("::", 1)[-1]}·drops-stream-items', False,
                       f'{b.name}: {c.fn} over a stream of Result<_, {et[0]}> at block {c.bb}', [site(b, c.bb)],
                       what=f'{b.root} drains a stream of Result items with `{c.fn.rsplit("::", 1)[-1]}`: an Err item of a failed operator is '
                            'counted like a chunk and the statement reports success')
    ctx.ob(R7, 'stream-combinators·none-discards-results', True, f'{n_comb} Stream combinator calls on the statement path examined', nontrivial=False)
    ctx.floor(R7, n_comb, 5, 'StreamExt / TryStreamExt calls on the statement path')

    decode_errors_examined(ctx, prog, 'C15-R8', STATEMENT_PATH, 3)


def short(n):
    return re.sub(r'<[^<>]*>', '', n or '?')


def decode_errors_examined(ctx, prog, R8, path_re, floor):
    """C15-R8 = C03-R9: decode errors of stored bytes are looked at"""
    ctx.rule(R8, 'a failure to decode stored bytes (prost / serde_json / csv / utf-8) is looked at: the Result of a decoding call on the '
                 'storage and statement paths is either propagated (`?`, map_err, unwrap ..) or, if it is matched, some code reads the error '
                 'value. `while let Ok(x) = decode(..)` / `if let Ok(..)` with an Err arm that goes on to a successful return treats a corrupt or '
                 'truncated record as the end of the data: the rest of the file is dropped without a word')
    DECODE_ERR = ('prost::DecodeError', 'serde_json::Error', 'csv::Error', 'std::string::FromUtf8Error', 'std::str::Utf8Error')
    n_dec = 0
    for b in prog.bodies.values():
        if not path_re.search(b.name) or b.rec.get('derived'):
            continue
        for c in b.calls:
            dt = c.t.get('dest_ty', '')
            if not (dt.startswith('std::result::Result<') and any(dt.endswith(', ' + e + '>') for e in DECODE_ERR)) or c.dest['p']:
                continue
            n_dec += 1
            d = c.dest['l']
            switched = [i for i, bl in enumerate(b.blocks) if bl['term']['k'] == 'switch' and not bl['cleanup']
                        and (bl['term'].get('adt') or '').startswith('std::result::Result')
                        and bl['term'].get('on') and bl['term']['on']['l'] == d and not bl['term']['on']['p']]
            if not switched:
                continue
            reads_err = any(pl['l'] == d and pl['p'] and pl['p'][0] == 'as:Err' for _, st in b.stmts() for pl in operand_places(st)) or \
                any(a['k'] != 'const' and a['pl']['l'] == d and a['pl']['p'] and a['pl']['p'][0] == 'as:Err' for k in b.calls for a in k.args)
            ok_exit = any(b.reachable_from([tgt]) & set(b.return_blocks()) for i in switched
                          for v, tgt in b.blocks[i]['term']['targets'] if (b.blocks[i]['term'].get('variants') or {}).get(str(v)) == 'Err') or \
                any(b.reachable_from([b.blocks[i]['term']['otherwise']]) & set(b.return_blocks()) for i in switched)
            ctx.functions_analysed.add(b.name)
            ctx.ob(R8, f'{b.root}·{short(c.fn).rsplit("::", 1)[-1]}·decode-error-examined', reads_err or not ok_exit,
                   f'{b.name}: result of {c.fn} at block {c.bb} is matched at {switched}; error value read: {reads_err}; the Err arm can reach a return: {ok_exit}',
                   [site(b, c.bb)],
                   what=f'{b.root} matches the result of {short(c.fn).rsplit("::", 1)[-1]} and never looks at the error: a record that does not decode '
                        '(corrupt, or cut off at the end of a read buffer) ends the loop like the end of the data, and whatever follows it is lost')
    ctx.ob(R8, 'decoding-calls·errors-examined', True, f'{n_dec} decoding calls with a decode error type examined', nontrivial=False)
    ctx.floor(R8, n_dec, floor, 'calls returning Result<_, decode error> on the examined paths')


def committers_rule(ctx, prog, R6):
    """who may call VersionManager::commit_changes (shared with C09-R9)"""
    DISK_OK = {'storage::secondary::transaction::SecondaryTransaction::commit_inner',
               'storage::secondary::compactor::Compactor::compact_table',
               'storage::secondary::manifest::<impl storage::secondary::SecondaryStorage>::create_table_inner',
               'storage::secondary::manifest::<impl storage::secondary::SecondaryStorage>::drop_table_inner',
               'storage::secondary::storage::<impl storage::secondary::SecondaryStorage>::bootstrap'}
    cc = prog.calls_matching_all(re.compile(r'VersionManager::(commit_changes|rewrite_changes)$'))
    ctx.floor(R6, len(cc), 5, 'call sites of VersionManager::commit_changes / rewrite_changes')
    for c in cc:
        ctx.ob(R6, f'disk·commit_changes·from·{c.body.root}', c.body.root in DISK_OK,
               f'{c.name} called from {c.body.name}', [site(c.body, c.bb)])
