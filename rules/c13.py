"""C13 - a key-range scan returns exactly the rows in the range.

Decides: (R1) the identity of the range column reaches the storage filter (the ColumnRefId component of
the range condition is used between planner and storage); (R2) the key types the planner may push down
are the key types the storage seek handles; (R3) the pushed bound is typed as the column.
Does not decide: first-key index arithmetic, duplicates across block boundaries (value level)."""
import re

from mir import pl_fields, operand_places
from tmpl import site, suffix, flows_from, local_defs, origin_locals

BUILD = 'executor::Builder::<S>::build_id_subscriber'
START_ROWID = 'storage::secondary::rowset::disk_rowset::DiskRowset::start_rowid::{closure#0}'
IS_PK_RANGE = 'planner::rules::range::is_primary_key_range'
ANALYZE = 'planner::rules::range::analyze_range'
ORDERABLE = ['Bool', 'Int16', 'Int32', 'Int64', 'Float64', 'String', 'Decimal', 'Date', 'Timestamp', 'TimestampTz']


def run(ctx):
    prog = ctx.prog('all' if ctx.thorough else 'lib')
    ctx.extra['facts_key'] = prog.key
    ctx.explanation = ('T-use / T-cover rules across planner, executor builder and storage seek: is the range\'s column id consumed, '
                       'which DataValue variants does the seek handle, is the bound\'s type related to the column type.')
    ctx.trusted += ['rustc MIR facts']
    R1 = 'C13-R1'
    ctx.rule(R1, 'the ColumnRefId of a RangeCondition is read where the range is turned into a storage filter '
                 '(Builder::build_id_subscriber, Scan arm); otherwise the storage applies the range to whatever column is '
                 'scanned first')
    grp = prog.group(BUILD)
    if ctx.anchor(R1, BUILD, bool(grp)):
        TUP = '(catalog::ColumnRefId, storage::KeyRange)'
        seen_tuple, reads0, reads1 = False, [], []
        for g in grp:
            ctx.functions_analysed.add(g.name)
            for l, ty in enumerate(g.rec['locals']):
                if TUP in ty:
                    seen_tuple = True
            for i, bl in enumerate(g.blocks):
                if bl['cleanup']:
                    continue
                for p in operand_places(bl['stmts']) + operand_places(bl['term']):
                    ty = g.local_ty(p['l'])
                    if TUP in ty:
                        fs = [x for x in p['p'] if x in ('f:0', 'f:1')]
                        if fs and fs[-1] == 'f:0':
                            reads0.append((g, i))
                        if fs and fs[-1] == 'f:1':
                            reads1.append((g, i))
        if ctx.anchor(R1, 'range tuple (ColumnRefId, KeyRange) in the builder', seen_tuple):
            ctx.ob(R1, 'Builder·range-column-used', bool(reads0),
                   f'builder reads KeyRange component at {len(reads1)} place(s), ColumnRefId component at {len(reads0)} place(s)',
                   [site(g, i) for g, i in reads1[:2]],
                   what='the builder discards the column of the pushed-down range: the storage filters on the first scanned column, '
                        'so `select b, a from t where a > 1` (key not first in the select list) returns wrong rows')

    R2 = 'C13-R2'
    ctx.rule(R2, 'key types: every orderable DataValue variant the planner may push down (is_primary_key_range does not restrict '
                 'the type) has a non-diverging arm in DiskRowset::start_rowid')
    b = prog.inlined(START_ROWID)
    pk = prog.group(IS_PK_RANGE)
    if ctx.anchor(R2, START_ROWID, b is not None) and ctx.anchor(R2, IS_PK_RANGE, bool(pk)):
        ctx.functions_analysed.add(b.name)
        handled = set()
        for i, bl in enumerate(b.blocks):
            t = bl['term']
            if t['k'] == 'switch' and (t.get('adt') or '').endswith('types::value::DataValue'):
                for v, tgt in t['targets']:
                    if not b.diverges(tgt):
                        handled.add(t['variants'].get(v, v))
                if not b.diverges(t['otherwise']):
                    handled.add('*')
        restricts = any(c for g in pk + prog.group(ANALYZE) for c in g.calls
                        if re.search(r'::data_type$|DataType|::cast$', c.name or ''))
        required = ['Int32'] if restricts else ORDERABLE
        missing = [v for v in required if v not in handled and '*' not in handled]
        ctx.ob(R2, 'start_rowid·key-types', not missing,
               f'start_rowid handles {sorted(handled)}; planner restricts key type: {restricts}; unhandled pushable key types: {missing}',
               [b.loc],
               what='range push-down is enabled for primary keys of any type but DiskRowset::start_rowid only handles INT keys: '
                    'a BIGINT/VARCHAR/... key panics the scan')

    R3 = 'C13-R3'
    ctx.rule(R3, 'the bound of a pushed range is related to the declared type of the key column (cast or type check) before it '
                 'becomes a KeyRange; otherwise DataValue\'s cross-variant order decides (INT literal vs BIGINT key)')
    ar = prog.group(ANALYZE)
    if ctx.anchor(R3, ANALYZE, bool(ar)):
        typed = [c for g in ar + pk for c in g.calls if re.search(r'::data_type$|DataValue::cast$|ArrayImpl>::cast$', c.name or '')]
        ctx.ob(R3, 'range-bound·typed-as-column', bool(typed),
               f'type-relating calls on the range path: {[c.name for c in typed]}', [prog.bodies[ANALYZE].loc],
               what='a range bound keeps the literal\'s type: `bigint_key > 1` compares Int64 keys with an Int32 bound through the '
                    'derived cross-variant order, so every row (or none) passes')
    mask_rule(ctx, prog)
    bound_compare_rule(ctx, prog)
    from rules.c14_types import datavalue_order_users
    datavalue_order_users(ctx, prog, 'C13-R11')
    folded_filter_rule(ctx, prog)
    bound_arithmetic_rule(ctx, prog)
    conservative_seek_rule(ctx, prog)


def mask_rule(ctx, prog):
    """C13-R4: the per-row mask of a range scan applies BOTH bounds and tells Included from Excluded"""
    R4 = 'C13-R4'
    NB = 'storage::secondary::rowset::rowset_iterator::RowSetIterator::next_batch_inner::{closure#0}'
    ctx.rule(R4, 'RowSetIterator::next_batch_inner masks the rows of each batch with both bounds of the KeyRange: there is a match '
                 'on KeyRange::start and one on KeyRange::end, each with separate, non-diverging arms for Included / Excluded / '
                 'Unbounded, and both results flow into the visibility map handed to StorageChunk::construct (the seek to the '
                 'start row and the early stop are only optimisations on top of this mask)')
    b = prog.inlined(NB)
    if not ctx.anchor(R4, NB, b is not None):
        return
    ctx.functions_analysed.add(b.name)
    sw = {}
    for i, bl in enumerate(b.blocks):
        t = bl['term']
        if t['k'] != 'switch' or t.get('adt') != 'std::ops::Bound' or not t.get('on'):
            continue
        # which KeyRange field is matched?
        fields = set(pl_fields(t['on']))
        for bb, kind, payload in local_defs(b, t['on']['l']):
            if kind == 'assign':
                for pl in operand_places(payload):
                    fields |= set(pl_fields(pl))
        for side in ('start', 'end'):
            if any(f.endswith('KeyRange::' + side) for f in fields):
                sw.setdefault(side, []).append((i, t))
    for side in ('start', 'end'):
        if not ctx.anchor(R4, f'next_batch_inner: match on KeyRange::{side}', sw.get(side)):
            continue
        for i, t in sw[side]:
            names = t.get('variants', {})
            tg = {names.get(str(v)): x for v, x in t['targets']}
            for v in ('Included', 'Excluded', 'Unbounded'):
                if v not in tg and t.get('otherwise') is not None:
                    tg[v] = t['otherwise']
            # an or-pattern `Included(k) | Excluded(k)` still has one target per variant; what must differ is the code they run
            eff = {v: first_effect(b, tg[v]) for v in ('Included', 'Excluded', 'Unbounded') if tg.get(v) is not None}
            distinct = len(set(eff.values())) == 3
            alive = all(tg.get(v) is not None and not b.diverges(tg[v]) for v in ('Included', 'Excluded', 'Unbounded'))
            ctx.ob(R4, f'mask·{side}·arms', distinct and alive,
                   f'match on KeyRange::{side} (block {i}): arms {tg}; Included and Excluded must be told apart and none may diverge',
                   [site(b, i)])
    cons = [c for c in b.calls if (c.fn or '').endswith('StorageChunk::construct')]
    if ctx.anchor(R4, 'next_batch_inner: StorageChunk::construct', cons):
        for side in ('start', 'end'):
            def reads_bound(kind, payload, bb, side=side):
                return any(f.endswith('KeyRange::' + side) for pl in operand_places(payload) for f in pl_fields(pl))
            ok = all(c.args and c.args[0]['k'] != 'const' and flows_from(b, c.args[0]['pl']['l'], reads_bound, depth=40) for c in cons)
            ctx.ob(R4, f'mask·{side}·reaches-visibility-map', ok,
                   f'the visibility map given to StorageChunk::construct must derive from KeyRange::{side}',
                   [site(b, cons[0].bb)],
                   what=f'the {side} bound of a pushed key range is not applied to the rows of a batch: rows outside the range are returned')

    R9 = 'C13-R9'
    ctx.rule(R9, 'the mask is applied to EVERY batch: whether next_batch_inner evaluates the match on KeyRange::start / ::end does not depend '
                 'on state the iterator changes as it goes (a field of RowSetIterator that this function writes, e.g. a "first batch" flag). A '
                 'block of the key column is handed out in several batches, so rows below the lower bound can sit in any batch of the block '
                 'the scan was seeked to')
    ITER = 'storage::secondary::rowset::rowset_iterator::RowSetIterator::'
    written = set()
    for bb, st in b.stmts():
        if st['s'] != 'assign':
            continue
        written |= {f for f in pl_fields(st['lhs']) if f.startswith(ITER)}
        rv = st['rv']
        if rv.get('rv') == 'ref' and rv.get('mut'):
            fs = [f for f in pl_fields(rv['pl']) if f.startswith(ITER)]
            if fs:
                written.add(fs[-1])
    reads = [c.bb for c in b.calls if re.search(r'ColumnIterator.*::next_batch$|::next_batch$', c.fn or '') and 'rowset_iterator' not in (c.fn or '')]
    ctx.anchor(R9, 'next_batch_inner: reads of the column iterators', reads)
    for side in ('start', 'end'):
        for i, t in sw.get(side, []):
            gated = {}
            for s_i, bl in enumerate(b.blocks):
                ts = bl['term']
                if ts['k'] != 'switch' or bl['cleanup'] or s_i == i or ts['discr']['k'] == 'const' or not b.dominates(s_i, i):
                    continue
                succ = list(dict.fromkeys([x for _, x in ts['targets']] + [ts['otherwise']]))
                def gets_to(x, y):                  # within this pass: without coming through the test again
                    return x == y or y in b.reachable_from([x], avoid={s_i})
                if all(gets_to(x, i) for x in succ):
                    continue                        # the match runs whichever way this test goes
                # a test that also decides whether the batch is read at all (end of the scan, the loop over the columns) is not the
                # point: the mask must not be MORE conditional than the read of the key column
                if all(b.dominates(s_i, r) and not all(gets_to(x, r) for x in succ) for r in reads):
                    continue
                flds = set()
                for x in origin_locals(b, ts['discr']['pl']['l'], depth=6):
                    for _, kind, payload in local_defs(b, x):
                        if kind == 'assign':
                            flds |= {f for pl in operand_places(payload) + ([payload['pl']] if payload.get('rv') == 'ref' else [])
                                     for f in pl_fields(pl) if f.startswith(ITER)}
                        elif re.search(r'mem::(take|replace|swap)$|Option::<.*>::(take|replace|insert|get_or_insert)$|Cell::<.*>::(get|replace|take|set)$'
                                       r'|atomic::Atomic\w+::(load|swap|fetch_\w+|compare_exchange)$', payload.get('fn') or ''):
                            # the value was pulled out of a piece of state
                            for a_ in payload.get('args', []):
                                if a_['k'] != 'const':
                                    for y in origin_locals(b, a_['pl']['l'], depth=3):
                                        for __, k2, p2 in local_defs(b, y):
                                            if k2 == 'assign':
                                                flds |= {f for pl in operand_places(p2) + ([p2['pl']] if p2.get('rv') == 'ref' else [])
                                                         for f in pl_fields(pl) if f.startswith(ITER)}
                hit = flds & written
                if hit:
                    gated[s_i] = sorted(x.rsplit('::', 1)[-1] for x in hit)
            ctx.ob(R9, f'mask·{side}·applied-to-every-batch', not gated,
                   f'match on KeyRange::{side} (block {i}) is conditional on tests of iterator state written in this function: {gated}; '
                   f'fields written: {sorted(x.rsplit("::", 1)[-1] for x in written)}', [site(b, i)],
                   what=f'the {side} bound of a pushed key range is applied to some batches only (a flag of the iterator decides): a block is '
                        'handed out in several batches, so rows outside the range come back from the batches that skip the mask')


def first_effect(b, bb, limit=12):
    """first block, following plain gotos from bb, that ends in something other than a goto"""
    while limit and b.blocks[bb]['term']['k'] == 'goto':
        bb = b.blocks[bb]['term']['target'] if 'target' in b.blocks[bb]['term'] else b.succs[bb][0]
        limit -= 1
    return bb


def bound_compare_rule(ctx, prog):
    """C13-R5: range analysis never compares a value with a bound whose inclusivity it has thrown away"""
    R5 = 'C13-R5'
    ctx.rule(R5, 'in the planner\'s range analysis and the executor\'s KeyRange construction, a value taken out of a Bound through an arm '
                 'shared by Included and Excluded (`Included(x) | Excluded(x)`) is never an operand of an ordering comparison: whether '
                 '`v` lies inside a range depends on which of the two it was (`k = 5 AND k > 5` is empty, `k = 5 AND k >= 5` is not)')
    n_sw = [0]
    for b, c, hit in bound_compares(prog, n_sw):
        ctx.functions_analysed.add(b.name)
        ctx.ob(R5, f'{b.root}·compares-bound-without-inclusivity', not hit,
               f'{b.name}: {c.fn} at block {c.bb} compares a value taken from a merged Included|Excluded arm', [site(b, c.bb)],
               what=f'{b.root} compares a key with a range bound after discarding whether the bound is inclusive: a point on an '
                    'exclusive bound is treated as inside the range')
    ctx.floor(R5, n_sw[0], 4, 'matches on Bound in range analysis / KeyRange construction')
    try:
        import mir
        fx = mir.load_fixture()
        got = {b.root for b, c, hit in bound_compares(fx, [0]) if hit}
        ctx.ob(R5, 'self-test·fixture', got == {'planner::rules::range::covers_merged'},
               f'positive examples flagged: {sorted(got)}; expected exactly planner::rules::range::covers_merged')
    except SystemExit as e:
        ctx.ob(R5, 'self-test·fixture', False, f'fixture crate could not be analysed: {e}')


def bound_compares(prog, n_sw):
    """(body, comparison call, operands that come out of a merged Included|Excluded arm) in range analysis / KeyRange construction"""
    scope = [b for b in prog.bodies.values() if re.match(r'^planner::rules::range::', b.name) or b.root == BUILD]
    for b in scope:
        payload = {}
        for i, bl in enumerate(b.blocks):
            t = bl['term']
            if t['k'] != 'switch' or t.get('adt') != 'std::ops::Bound':
                continue
            n_sw[0] += 1
            names = t.get('variants', {})
            tg = {names.get(str(v)): x for v, x in t['targets']}
            if tg.get('Included') is None or tg.get('Excluded') is None:
                continue
            if first_effect(b, tg['Included']) != first_effect(b, tg['Excluded']):
                continue
            e = first_effect(b, tg['Included'])
            for arm in (tg['Included'], tg['Excluded']):
                chain, x, lim = [arm], arm, 12
                while x != e and lim and b.blocks[x]['term']['k'] == 'goto':
                    x = b.succs[x][0]
                    chain.append(x)
                    lim -= 1
                for x in chain:
                    for st in b.blocks[x]['stmts']:
                        if st['s'] == 'assign' and any(any(y in ('as:Included', 'as:Excluded') for y in pl['p']) for pl in operand_places(st['rv'])):
                            payload[st['lhs']['l']] = x
        if not payload:
            continue
        for c in b.calls:
            if not re.search(r'std::cmp::(PartialOrd::(lt|le|gt|ge|partial_cmp)|Ord::(cmp|max|min))$', c.fn or ''):
                continue
            hit = [a for a in c.args if a['k'] != 'const' and set(payload) & origin_locals(b, a['pl']['l'], depth=10)]
            yield b, c, hit


def folded_filter_rule(ctx, prog):
    """C13-R6: a scan filter that the optimizer folded to a constant is still enforced"""
    R6 = 'C13-R6'
    ctx.rule(R6, 'the executor builder turns a scan\'s filter expression into a KeyRange by re-analysing it; the optimizer may have '
                 'extracted a constant for it (`a > 5 and a < 3` is in one e-class with `false`), which has no range. So the Scan arm '
                 'must look at the filter node itself: `self.node(filter)` is matched against Constant and its value is inspected, '
                 'and the table scan is not built on the branch where the constant selects nothing')
    b = prog.inlined(BUILD)
    if not ctx.anchor(R6, BUILD, b is not None):
        return
    ctx.functions_analysed.add(b.name)
    # the filter child: local assigned from (enode as Scan).0[2]
    filt = [st['lhs']['l'] for _, st in b.stmts() if st['s'] == 'assign' and st['rv'].get('rv') == 'use' and st['rv']['op']['k'] != 'const'
            and 'as:Scan' in st['rv']['op']['pl']['p'] and '[2]' in st['rv']['op']['pl']['p']]
    if not ctx.anchor(R6, 'Builder: filter child of Scan', filt):
        return
    nodes = [c for c in b.calls if (c.fn or '').endswith('Builder::<S>::node') and len(c.args) > 1 and c.args[1]['k'] != 'const'
             and set(filt) & origin_locals(b, c.args[1]['pl']['l'], depth=4)]
    inspected = False
    for c in nodes:
        # a switch on the DataValue inside (node as Constant)
        for i, bl in enumerate(b.blocks):
            t = bl['term']
            if t['k'] == 'switch' and t.get('adt') == 'types::value::DataValue' and t.get('on') and 'as:Constant' in t['on']['p'] \
                    and c.dest['l'] in origin_locals(b, t['on']['l'], depth=4):
                inspected = True
    ctx.ob(R6, 'Builder·Scan·constant-filter-inspected', inspected,
           f'self.node(filter) calls in the Scan arm: {len(nodes)}; Constant value inspected: {inspected}',
           [site(b, c.bb) for c in nodes] or [b.loc],
           what='the Scan arm derives the storage filter only from the range analysis of the filter expression: a condition folded to '
                '`false` has no range and the whole table is returned (`select a from t where a > 5 and a < 3` on a primary key)')


def bound_arithmetic_rule(ctx, prog):
    """C13-R7: no saturating / wrapping arithmetic on a key bound"""
    R7 = 'C13-R7'
    ctx.rule(R7, 'a key-range bound is never recomputed with saturating or wrapping arithmetic: rewriting `key > k` as `key >= k + 1` is only '
                 'an identity while k + 1 does not saturate; at the type\'s limit the empty range becomes a point range')
    n = 0
    for b in prog.bodies.values():
        if not re.match(r'^<?(storage|planner::rules::range|executor)::', b.name):
            continue
        payload = set()
        for bb, st in b.stmts():
            if st['s'] == 'assign' and any(any(x in ('as:Included', 'as:Excluded') for x in pl['p']) for pl in operand_places(st['rv'])):
                payload.add(st['lhs']['l'])
        if not payload:
            continue
        n += 1
        for c in b.calls:
            if not re.search(r'::(saturating_add|saturating_sub|wrapping_add|wrapping_sub)$', c.fn or ''):
                continue
            hit = any(a['k'] != 'const' and payload & origin_locals(b, a['pl']['l'], depth=10) for a in c.args)
            if hit:
                ctx.functions_analysed.add(b.name)
                ctx.ob(R7, f'{b.root}·saturating-arithmetic-on-a-bound', False,
                       f'{b.name}: {c.fn} at block {c.bb} is applied to a value taken out of a Bound', [site(b, c.bb)],
                       what=f'{b.root} recomputes a range bound with {c.fn.rsplit("::", 1)[-1]}: at the limit of the key type the rewritten '
                            'range selects rows the predicate excludes (`a > 2147483647` returns the i32::MAX row)')
    ctx.ob(R7, 'bounds·no-saturating-arithmetic', True, f'{n} functions that take a value out of a Bound examined', nontrivial=False)
    ctx.floor(R7, n, 3, 'functions that take a value out of a Bound')


def conservative_seek_rule(ctx, prog):
    """C13-R8: the seek may start too early, never too late; C13-R10: no recorded first key, no seek"""
    R8 = 'C13-R8'
    ctx.rule(R8, 'the seek to the start row is only an optimisation on top of the mask, so it must be conservative also when equal keys '
                 'straddle a block boundary (uniqueness of a PRIMARY KEY is not enforced): DiskRowset::start_rowid stops at the first '
                 'block whose first key is >= the start key (non-strict), i.e. it starts from the last block that begins BELOW the key. '
                 'Decided by what happens when the two are EQUAL, not by how the comparison is spelled: in a loop, the branch taken on '
                 'equality must not record the block (no read of first_rowid before the next comparison); in an iterator chain, the '
                 'predicate of take_while / partition_point must answer false on equality (that of position / find: true)')
    b = prog.body(START_ROWID)
    if not ctx.anchor(R8, START_ROWID, b is not None):
        return
    ctx.functions_analysed.add(b.name)
    grp = prog.group(b.root)
    grp = [b] + [g for g in grp if g.name != b.name]
    key_b = {st['lhs']['l'] for _, st in b.stmts() if st['s'] == 'assign' and any('as:Int32' in pl['p'] for pl in operand_places(st['rv']))}

    def closure_site(g):
        """(body that builds closure g, local holding it, captured operands)"""
        for h in grp:
            for bb, st in h.stmts():
                rv = st.get('rv', {}) if st['s'] == 'assign' else {}
                if rv.get('rv') == 'agg' and rv.get('def') == g.name:
                    return h, st['lhs']['l'], rv.get('ops', [])
        return None, None, []

    def adaptor_of(h, cl):
        for c in h.calls:
            if any(a['k'] != 'const' and cl in origin_locals(h, a['pl']['l'], depth=3) for a in c.args[1:]) and re.search(r'Iterator::\w+$|slice::.*::partition_point$', c.fn or ''):
                return c
        return None

    cmps, decs_all, present = [], [], []
    for g in grp:
        decs = [c for c in g.calls if (c.fn or '').endswith('PrimitiveFixedWidthEncode::decode')]
        if not decs:
            continue
        decs_all += [(g, c) for c in decs]
        dec = {c.dest['l'] for c in decs}
        # the start key: in start_rowid itself the payload of DataValue::Int32; in a closure a captured variable that is fed from it
        if g is b:
            key = set(key_b)
        else:
            h, cl, ops = closure_site(g)
            key = set()
            for k, o in enumerate(ops):
                if o['k'] != 'const' and h is not None and key_b & origin_locals(h, o['pl']['l'], depth=10) and h is b:
                    for _, st in g.stmts():
                        if st['s'] == 'assign' and not st['lhs']['p']:
                            for pl in operand_places(st['rv']):
                                if pl['l'] == 1 and any(p_.startswith('f:') and p_[2:].rsplit('::', 1)[-1] == str(k) for p_ in pl['p']):
                                    key.add(st['lhs']['l'])
        for bb, st in g.stmts():
            rv = st.get('rv', {}) if st['s'] == 'assign' else {}
            if rv.get('rv') == 'binop' and rv['op'] in ('Lt', 'Le', 'Gt', 'Ge') and rv.get('ty') == 'i32':
                ops2 = operand_places(rv)
                if len(ops2) != 2:
                    continue
                l_first = bool(dec & origin_locals(g, ops2[0]['l'], depth=4))
                r_first = bool(dec & origin_locals(g, ops2[1]['l'], depth=4))
                l_key = bool(key & origin_locals(g, ops2[0]['l'], depth=4))
                r_key = bool(key & origin_locals(g, ops2[1]['l'], depth=4))
                if not ((l_first and r_key) or (l_key and r_first)):
                    continue
                true_on_eq = rv['op'] in ('Le', 'Ge')
                res = st['lhs']['l']
                verdict, how = None, ''
                # (a) the result decides a branch of a loop in g
                for i2, bl in enumerate(g.blocks):
                    t = bl['term']
                    if t['k'] == 'switch' and not bl['cleanup'] and t['discr']['k'] != 'const' and res in origin_locals(g, t['discr']['pl']['l'], depth=3):
                        neg = any(s2['s'] == 'assign' and s2['lhs']['l'] == t['discr']['pl']['l'] and s2['rv'].get('rv') == 'unop' and s2['rv'].get('op') == 'Not'
                                  for s2 in bl['stmts'])
                        val = true_on_eq != neg
                        zero = [tgt for v, tgt in t['targets'] if v == '0']
                        eq_succ = t['otherwise'] if val else (zero[0] if zero else None)
                        records = {bb2 for bb2, s2 in g.stmts() if s2['s'] == 'assign' and any(f.endswith('::first_rowid') for pl in operand_places(s2['rv'])
                                                                                                 for f in pl_fields(pl))}
                        if eq_succ is not None and records:
                            verdict = not (g.reachable_from([eq_succ], avoid={bb}) & records)
                            how = f'loop in {g.name}: on equality the branch to block {eq_succ} is taken; first_rowid is recorded at {sorted(records)}'
                # (b) the result is what a closure returns to an iterator adaptor
                if verdict is None and g is not b and (res in g.ret_locals() or any(
                        s2['s'] == 'assign' and s2['lhs']['l'] in g.ret_locals() and res in {pl['l'] for pl in operand_places(s2['rv'])} for _, s2 in g.stmts())):
                    neg = any(s2['s'] == 'assign' and s2['lhs']['l'] in g.ret_locals() and s2['rv'].get('rv') == 'unop' and s2['rv'].get('op') == 'Not'
                              for _, s2 in g.stmts())
                    val = true_on_eq != neg
                    h, cl, _ = closure_site(g)
                    ad = adaptor_of(h, cl) if h is not None else None
                    name = (ad.fn or '').rsplit('::', 1)[-1] if ad else None
                    if name in ('take_while', 'partition_point', 'map_while'):
                        verdict, how = (not val), f'predicate of {name} answers {val} on equality'
                    elif name in ('position', 'find', 'any', 'skip_while', 'find_map'):
                        verdict, how = val if name != 'skip_while' else (not val), f'predicate of {name} answers {val} on equality'
                    else:
                        how = f'closure result consumed by {name}: a form this rule does not know'
                cmps.append((g, bb, verdict, how))
        # R10: is the key known to be present where it is decoded?
        def presence_tests(body):
            tests = []
            for i2, bl in enumerate(body.blocks):
                t = bl['term']
                if t['k'] != 'switch' or bl['cleanup'] or t['discr']['k'] == 'const':
                    continue
                src = origin_locals(body, t['discr']['pl']['l'], depth=4)
                for c in body.calls:
                    if c.dest['l'] in src and re.search(r'::(is_empty|len)$', c.fn or '') and c.args and c.args[0]['k'] != 'const':
                        for x in origin_locals(body, c.args[0]['pl']['l'], depth=4):
                            for _, kind, payload in local_defs(body, x):
                                if kind == 'assign' and any(f.endswith('::first_key') for pl in operand_places(payload) + ([payload['pl']] if payload.get('rv') == 'ref' else [])
                                                            for f in pl_fields(pl)):
                                    tests.append(i2)
            return tests
        tests = presence_tests(g)
        ok = bool(tests) and all(g.dominated_by_any(set(tests), c.bb) for c in decs)
        why = f'{g.name}: first_key decoded at {[c.bb for c in decs]}; tests of its presence before: {sorted(set(tests))}'
        if not ok and g is not b:
            # `.take_while(|i| !i.first_key.is_empty()).take_while(|i| decode(..) < key)`: the test is the predicate of the adaptor upstream
            h, cl, _ = closure_site(g)
            ad = adaptor_of(h, cl) if h is not None else None
            if ad is not None and ad.args and ad.args[0]['k'] != 'const':
                up = origin_locals(h, ad.args[0]['pl']['l'], depth=6)
                for c in h.calls:
                    if c is not ad and c.dest['l'] in up and re.search(r'Iterator::(take_while|filter|map_while)$', c.fn or ''):
                        for g0 in grp:
                            h0, cl0, _ = closure_site(g0)
                            if h0 is h and cl0 is not None and any(a['k'] != 'const' and cl0 in origin_locals(h, a['pl']['l'], depth=3) for a in c.args[1:]):
                                t0 = [c0 for c0 in g0.calls if re.search(r'::(is_empty|len)$', c0.fn or '')]
                                reads = any(f.endswith('::first_key') for _, s2 in g0.stmts() for pl in operand_places(s2['rv']) + ([s2['rv']['pl']] if s2['rv'].get('rv') == 'ref' else [])
                                            for f in pl_fields(pl))
                                if t0 and reads:
                                    ok = True
                                    why += f'; upstream {(c.fn or "").rsplit("::", 1)[-1]} with the presence test in {g0.name}'
        present.append((g, decs, ok, why))

    R10 = 'C13-R10'
    ctx.rule(R10, 'the first key of a block is recorded only under the option record_first_key; without it the index entry carries an empty '
                  'key, so start_rowid decodes a first key only behind a test that it is there (is_empty / len, in the loop or as the predicate '
                  'of an upstream take_while / filter) - no recorded key, no seek, the mask does the filtering')
    if ctx.anchor(R10, 'start_rowid: decode of a block\'s first key', decs_all):
        for g, decs, ok, why in present:
            ctx.ob(R10, 'start_rowid·first-key-present-before-decode', ok, why, [site(g, c.bb) for c in decs],
                   what='start_rowid decodes the first key of every block although it is only recorded under record_first_key: with that option '
                        'off, any key range on the disk engine dies (advance out of bounds) where the in-memory engine answers')
    if ctx.anchor(R8, 'start_rowid: comparison of a block\'s first key with the start key', cmps):
        for g, bb, verdict, how in cmps:
            ctx.ob(R8, 'start_rowid·stops-at-first-key>=start', verdict is True,
                   f'block {bb} of {g.name}: {how or "the use of the comparison was not recognised"}',
                   [site(g, bb)],
                   what='start_rowid skips to the last block whose first key is <= the start key: when equal keys straddle a block boundary '
                        'the rows at the end of the previous block are lost (`a >= 27` returns 33 of 34 rows)')
