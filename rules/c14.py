"""C14 - vectorised expression evaluation equals scalar SQL semantics.

Decides: (R1) integer + - * and unary minus kernels cannot wrap/panic: no raw or overflow-asserting
integer arithmetic in the arithmetic closures (checked_* feeding an error is the only accepted
shape); (R2) every integer / and % kernel is reachable only through the zero guard safen_dividend;
(R3) constant folding and run-time evaluation share one implementation of the kernels;
(R4) new todo!/unimplemented! sites in evaluation entry points.
Does not decide: bitmap word-boundary behaviour, NULL-under-nonzero bits, per-row values."""
import re

from tmpl import site, suffix, done_sites, start_sites, origin_locals
from rules import c14_types

OPS = 'array::ops::<impl array::ArrayImpl>::'
INT = ('i8', 'i16', 'i32', 'i64', 'i128', 'isize')
ARITH = {'add': 'Add', 'sub': 'Sub', 'mul': 'Mul'}


def int_ops(prog, root, opnames):
    """(body, bb, description) of integer arithmetic of the given kinds in a function group"""
    out = []
    for b in prog.group(root):
        for bb, st in b.stmts():
            rv = st.get('rv', {})
            if rv.get('rv') == 'binop' and rv['ty'] in INT and any(rv['op'].startswith(o) for o in opnames):
                out.append((b, bb, f'{rv["op"]}<{rv["ty"]}>'))
            if rv.get('rv') == 'unop' and rv['ty'] in INT and rv['op'] in opnames:
                out.append((b, bb, f'{rv["op"]}<{rv["ty"]}>'))
        for c in b.calls:
            m = re.search(r'std::ops::(Add|Sub|Mul|Div|Rem|Neg)::', c.fn or '')
            if m and m.group(1) in opnames:
                g = [x.lstrip('&') for x in c.t.get('gargs', [])]
                if g and all(x in INT for x in g):
                    out.append((b, c.bb, f'{m.group(1)}::{g[0]}'))
    return out


def run(ctx):
    prog = ctx.prog('all' if ctx.thorough else 'lib')
    ctx.extra['facts_key'] = prog.key
    ctx.explanation = ('MIR-level inspection of the arithmetic kernels in array::ops: kinds of integer operations inside the '
                       'closures handed to binary_op/unary_op, call-graph guard of the division kernels, callee-set agreement '
                       'between constant folding and run-time evaluation.')
    ctx.trusted += ['rustc MIR facts (debug-profile MIR: `a + b` on integers is AddWithOverflow + Assert, i.e. a panic)']
    R1 = 'C14-R1'
    ctx.rule(R1, 'ArrayImpl::{add,sub,mul,neg}: integer kernels must report overflow as an error: no plain / overflow-'
                 'asserting integer Add/Sub/Mul/Neg (only checked_* whose None becomes Err)')
    total = 0
    for fn, op in list(ARITH.items()) + [('neg', 'Neg')]:
        root = OPS + fn
        if not ctx.anchor(R1, root, root in prog.bodies):
            continue
        for b in prog.group(root):
            ctx.functions_analysed.add(b.name)
        bad = int_ops(prog, root, [op])
        checked = [c for b in prog.group(root) for c in b.calls if re.search(r'::checked_(add|sub|mul|neg)$', c.fn or '')]
        total += len(bad) + len(checked)
        ctx.ob(R1, f'ArrayImpl::{fn}·unchecked-int', not bad,
               f'{root}: {len(bad)} unchecked integer `{op}` kernels ({sorted({d for _, _, d in bad})}), {len(checked)} checked',
               [site(b, bb) for b, bb, _ in bad[:4]],
               what=f'integer `{fn}` overflows are not reported as errors: the kernel panics inside the operator task '
                    f'(debug) or wraps (release)')
    ctx.floor(R1, total, 20, 'integer arithmetic kernels in add/sub/mul/neg')

    R2 = 'C14-R2'
    ctx.rule(R2, 'every function whose closures contain integer Div/Rem is called only from a function that passes the '
                 'divisor through safen_dividend first (x/0 and x%0 yield NULL, never a panic)')
    div_roots = []
    for b in prog.roots():
        if b.name.startswith(OPS) and int_ops(prog, b.name, ['Div', 'Rem']):
            div_roots.append(b.name)
    ctx.floor(R2, len(div_roots), 2, 'functions with integer Div/Rem kernels')
    for root in sorted(div_roots):
        fn = root.rsplit('::', 1)[-1]
        kernels = int_ops(prog, root, ['Div', 'Rem'])
        op = 'Rem' if any(d.startswith('Rem') for _, _, d in kernels) else 'Div'
        sym = '%' if op == 'Rem' else '/'
        for b in prog.group(root):
            ctx.functions_analysed.add(b.name)
        callers = [c for c in prog.calls_matching(suffix('ArrayImpl::' + fn)) if (c.name or '').endswith('::' + fn)
                   and c.body.root != root]
        # the guard may sit in the function itself or in a helper it calls first (`let divisor = Self::safe_divisor(..)?`)
        guarded_self = bool(prog.sites(prog.bodies[root], suffix('ops::safen_dividend'), depth=1))
        if not callers and not guarded_self:
            ctx.ob(R2, f'ArrayImpl::{fn}·zero-guard', False, f'{root} has integer {op} kernels and no caller guards it')
        for c in callers:
            g = prog.sites(c.body, suffix('ops::safen_dividend'), depth=1)
            ok = guarded_self or (bool(g) and c.body.dominated_by_any(set(g), c.bb))
            ctx.ob(R2, f'ArrayImpl::{fn}·zero-guard·{short(c.body.root)}', ok,
                   f'{c.body.name} calls {fn} (integer {op} kernels) ' + ('after' if ok else 'WITHOUT') + ' safen_dividend',
                   [site(c.body, c.bb)],
                   what=f'`{sym}` on integers bypasses the zero guard: x {sym} 0 panics instead of yielding NULL')
            ctx.functions_analysed.add(c.body.name)

    R3 = 'C14-R3'
    ctx.rule(R3, 'constant folding (eval_constant) reaches the array kernels only through the entry points the run-time '
                 'evaluator uses (ArrayImpl::binary_op / unary_op / cast): one implementation, so fold == eval')
    ec = prog.body('planner::rules::expr::eval_constant')
    # the run-time evaluator: eval and the methods of Evaluator it is split into
    ev = [g for r in sorted(prog.reach('executor::evaluator::Evaluator::<\'a>::eval', 2)) if r.startswith('executor::evaluator::Evaluator::')
          for g in prog.group(r)] if 'executor::evaluator::Evaluator::<\'a>::eval' in prog.bodies else []
    if ctx.anchor(R3, 'planner::rules::expr::eval_constant', ec is not None) and ctx.anchor(R3, 'Evaluator::eval', ev):
        def kernels(bodies):
            out = set()
            for b in bodies:
                for c in b.calls:
                    n = c.name or ''
                    if re.search(r'array::ops::<impl array::ArrayImpl>::|types::value::DataValue::cast$', n):
                        out.add(n.replace('types::value::DataValue::cast', OPS + 'cast'))
            return out
        kc = kernels(prog.group(ec.root))
        ke = kernels(ev)
        # DataValue::cast must itself delegate to ArrayImpl::cast
        dv = prog.body('types::value::DataValue::cast')
        deleg = dv is not None and any((c.name or '').endswith('ArrayImpl>::cast') for c in dv.calls)
        extra = sorted(kc - ke)
        ctx.ob(R3, 'eval_constant·kernels⊆Evaluator::eval', bool(kc) and not extra and deleg,
               f'fold-time kernels {sorted(short(k) for k in kc)}; not used at run time: {extra}; DataValue::cast delegates: {deleg}')
        ctx.functions_analysed.update(b.name for b in ev)

    # R9: a NULL short-cut in constant folding must not apply to AND / OR
    R9 = 'C14-R9'
    ctx.rule(R9, 'constant folding has no NULL semantics of its own for AND / OR: where eval_constant returns NULL for a binary '
                 'operator because an operand is NULL without calling the kernel, that short-cut is behind a dispatch on the operator '
                 'with separate AND and OR arms, and those arms inspect the other operand before they can yield NULL '
                 '(FALSE AND NULL = FALSE, TRUE OR NULL = TRUE; every other binary operator is strict)')
    if ctx.anchor(R9, 'planner::rules::expr::eval_constant', ec is not None):
        bsw = [(i, bl['term']) for i, bl in enumerate(ec.blocks) if bl['term']['k'] == 'switch' and bl['term'].get('adt') == 'std::option::Option'
               and any(c.dest['l'] == (bl['term'].get('on') or {}).get('l') for c in ec.calls if (c.fn or '').endswith('Expr::binary_op'))]
        kern = [c.bb for c in ec.calls if re.search(r'ArrayImpl>?::binary_op$', c.fn or '')]
        if ctx.anchor(R9, 'eval_constant: binary-operator arm', bsw and kern):
            i, t = bsw[0]
            names = t.get('variants', {})
            some_t = [tgt for v, tgt in t['targets'] if names.get(str(v)) == 'Some']
            none_t = [tgt for v, tgt in t['targets'] if names.get(str(v)) == 'None'] + ([t['otherwise']] if t.get('otherwise') is not None else [])
            region = ec.reachable_from(some_t, avoid=set(none_t) - set(some_t))
            nulls = sorted({bb for bb, st in ec.aggregates('types::value::DataValue', 'Null') if bb in region
                            and bb not in ec.reachable_from(kern)})
            opsw = {}
            for j, bl in enumerate(ec.blocks):
                tt = bl['term']
                if j in region and tt['k'] == 'switch' and tt.get('adt') == 'sqlparser::ast::BinaryOperator':
                    nm = tt.get('variants', {})
                    arms = {nm.get(str(v)): tgt for v, tgt in tt['targets']}
                    if 'And' in arms and 'Or' in arms and arms['And'] != arms['Or'] and tt.get('otherwise') not in (arms['And'], arms['Or']):
                        opsw[j] = arms
            if not nulls:
                ctx.ob(R9, 'eval_constant·no-null-shortcut', True, 'eval_constant has no NULL short-cut for binary operators: the kernels decide')
            else:
                undispatched = sorted(ec.reachable_from(some_t, avoid=set(opsw) | set(none_t)) & set(nulls))
                valsw = {j for j, bl in enumerate(ec.blocks) if bl['term']['k'] == 'switch' and bl['term'].get('adt') == 'types::value::DataValue'}
                blind = []
                for j, arms in opsw.items():
                    for v in ('And', 'Or'):
                        start = [arms[v]] if arms[v] not in valsw else []
                        if set(ec.reachable_from(start, avoid=valsw | set(none_t))) & set(nulls):
                            blind.append((v, j))
                ctx.ob(R9, 'eval_constant·null-shortcut-excludes-and/or', not undispatched and not blind and bool(opsw),
                       f'NULL short-cut blocks {nulls}; operator dispatches with AND/OR arms at {sorted(opsw)}; reachable without a dispatch: '
                       f'{undispatched}; AND/OR arms that yield NULL without looking at the other operand: {blind}',
                       [site(ec, b_) for b_ in nulls],
                       what='eval_constant folds `x AND NULL` / `x OR NULL` to NULL for every x: `select null and false` returns NULL '
                            '(SQL: false), `select null or true` returns NULL (SQL: true)')

    # R10: validity bitmaps are word-aligned
    aligned_bitmaps_rule(ctx, prog, 'C14-R10')

    # R11: aggregates are not constants
    R11 = 'C14-R11'
    AGGS = ('Max', 'Min', 'Avg', 'Sum', 'Count', 'CountDistinct', 'RowCount', 'First', 'Last', 'Over', 'RowNumber')
    ctx.rule(R11, 'constant folding never gives an aggregate a constant value: eval_constant has no arm for ' + ', '.join(AGGS) +
                  ' (max(c) over an empty input is NULL, not c; and a folded aggregate is no longer an aggregation for the executor)')
    if ctx.anchor(R11, 'planner::rules::expr::eval_constant', ec is not None):
        hit = set()
        for bl in ec.blocks:
            t = bl['term']
            if t['k'] == 'switch' and t.get('adt') == 'planner::Expr':
                names = t.get('variants', {})
                hit |= {names.get(str(v)) for v, tgt in t['targets'] if tgt != t.get('otherwise')}
        bad = sorted(set(AGGS) & hit)
        ctx.ob(R11, 'eval_constant·no-aggregate-arm', not bad, f'eval_constant matches on {sorted(x for x in hit if x)}; aggregates among them: {bad}',
               [ec.loc],
               what=f'eval_constant folds {bad} of a constant to that constant: `select max(1) from a where x > 100` should be NULL and '
                    'panics in the evaluator ("not aggregation: 1")')

    # R12: LIKE literal characters
    R12 = 'C14-R12'
    ctx.rule(R12, 'LIKE is evaluated through a regex: in the translation (like_to_regex) only `%` and `_` become regex syntax; every other '
                  'character of the pattern goes through regex::escape, never into the regex as it is (a raw `String::push` of a pattern '
                  'character makes `.`, `(`, `+`, `[` ... wildcards or a syntax error)')
    lk = [b_ for n, b_ in prog.bodies.items() if re.search(r'^array::.*::like_to_regex$', n)]      # nested in ArrayImpl::like, or at module level
    if ctx.anchor(R12, 'ArrayImpl::like::like_to_regex', lk):
        lb = lk[0]
        ctx.functions_analysed.add(lb.name)
        esc = [c for c in lb.calls if (c.fn or '').endswith('regex::escape')]
        raw = [c for c in lb.calls if re.search(r'String::push$', c.fn or '') and len(c.args) > 1 and c.args[1]['k'] != 'const']
        ctx.ob(R12, 'like_to_regex·literals-escaped', bool(esc) and not raw,
               f'regex::escape calls: {len(esc)}; raw pushes of a pattern character: {[c.bb for c in raw]}', [site(lb, c.bb) for c in (raw or esc)] or [lb.loc],
               what='LIKE copies the pattern\'s literal characters into the regex unescaped: `\'abc\' like \'a.c\'` is true and `like \'a(c\'` '
                    'panics on an invalid regex')

    R5 = 'C14-R5'
    ctx.rule(R5, 'ArrayImpl::cast: numeric narrowing never uses a truncating/saturating `as` cast (IntToInt to a narrower '
                 'type, FloatToInt); out-of-range values must go through a checked conversion that yields ConvertError::Overflow')
    WIDTH = {'bool': 1, 'u8': 8, 'i8': 8, 'i16': 16, 'u16': 16, 'i32': 32, 'u32': 32, 'i64': 64, 'u64': 64, 'i128': 128,
             'u128': 128, 'isize': 64, 'usize': 64}
    root = OPS + 'cast'
    if ctx.anchor(R5, root, root in prog.bodies):
        n_cast = 0
        bad = []
        for b in cast_family(prog):
            ctx.functions_analysed.add(b.name)
            for bb, st in b.stmts():
                rv = st.get('rv', {})
                if rv.get('rv') != 'cast' or rv['kind'] not in ('IntToInt', 'FloatToInt'):
                    continue
                src = b.local_ty(rv['op']['pl']['l']) if rv['op']['k'] != 'const' else rv['op'].get('ty')
                if rv['op']['k'] != 'const' and rv['op']['pl']['p']:
                    src = src.lstrip('&')
                dst = rv['ty']
                n_cast += 1
                narrowing = rv['kind'] == 'FloatToInt' or (src in WIDTH and dst in WIDTH and (
                    WIDTH[src] > WIDTH[dst] or (WIDTH[src] == WIDTH[dst] and src != dst)))
                if narrowing:
                    bad.append((b, bb, f'{src} as {dst}'))
        ctx.ob(R5, 'ArrayImpl::cast·no-truncating-as', not bad,
               f'{n_cast} numeric `as` casts in cast kernels; truncating/saturating ones: {[d for _, _, d in bad]}',
               [site(b, bb) for b, bb, _ in bad])
        ctx.floor(R5, n_cast, 6, 'numeric `as` casts in ArrayImpl::cast kernels')

    clear_null_rule(ctx, prog, 'C14-R6')
    c14_types.run(ctx, prog, 'C14-R13')
    c14_types.evaluator_passes_nothing_through(ctx, prog, 'C14-R14')
    c14_types.datavalue_order_users(ctx, prog, 'C14-R15')

    R7 = 'C14-R7'
    ctx.rule(R7, 'raw-slot kernels are infallible: a function that iterates raw slots (raw_iter) applies no fallible per-slot function '
                 '(no `?`, no collect into Result): a check that can fail must only see valid slots, otherwise whatever lies under '
                 'a NULL produces a spurious error')
    raw_groups = sorted({c.body.root for c in prog.calls_matching(re.compile(r'::raw_iter$'))
                         if c.body.name.startswith('array::')})
    ctx.floor(R7, len(raw_groups), 4, 'function groups iterating raw slots')
    for root in raw_groups:
        fall = []
        for g in prog.group(root):
            ctx.functions_analysed.add(g.name)
            for c in g.calls:
                n = c.name or ''
                if (c.fn or '').endswith('Try::branch') or (c.fn or '').endswith('FromResidual::from_residual'):
                    fall.append((g, c))
                elif re.search(r'Iterator::(collect|try_fold|try_for_each)$', c.fn or '') and 'std::result::Result<' in c.t.get('dest_ty', ''):
                    fall.append((g, c))
        ctx.ob(R7, f'{short(root)}', not fall,
               f'{root} iterates raw slots; fallible steps in it: {[short(c.name) for _, c in fall]}', [site(g, c.bb) for g, c in fall[:3]],
               what=f'{root.rsplit("::", 1)[-1]} applies a fallible conversion to raw slots: the value lying under a NULL can make the '
                    f'whole batch fail although the row is NULL')

    R8 = 'C14-R8'
    ctx.rule(R8, 'CASE/IF (select_op): the validity of the result depends on the selector\'s VALUE (which branch is taken), not only '
                 'on the selector\'s validity: the bitmap given to from_data derives from the selector\'s raw bits')
    so = prog.body('array::ops::select_op')
    if ctx.anchor(R8, 'array::ops::select_op', so is not None):
        ctx.functions_analysed.add(so.name)
        fd = [c for c in so.calls if (c.fn or '').endswith('from_data')]
        if ctx.anchor(R8, 'select_op: from_data', fd):
            c = fd[0]
            vloc = c.args[1]['pl']['l'] if len(c.args) > 1 and c.args[1]['k'] != 'const' else None
            # calls that produce the bitmap, plus the other operands of in-place updates of it (BitVecExt::or(&mut valid, x))
            srcs = set()
            chain = {vloc} if vloc is not None else set()
            grew = True
            while grew:
                grew = False
                for bb_, st in so.stmts():
                    rv = st.get('rv', {})
                    if st['lhs']['l'] in chain and not st['lhs']['p'] and rv.get('rv') in ('use', 'ref'):
                        p_ = rv.get('pl') or (rv['op'].get('pl') if rv['op']['k'] != 'const' else None)
                        if p_ and p_['l'] not in chain:
                            chain.add(p_['l'])
                            grew = True
                    # a reference to the bitmap: &mut valid
                    if rv.get('rv') == 'ref' and rv['pl']['l'] in chain and st['lhs']['l'] not in chain:
                        chain.add(st['lhs']['l'])
                        grew = True
            for c2 in so.calls:
                if c2 is c:
                    continue
                if c2.dest['l'] in chain or any(a_['k'] != 'const' and a_['pl']['l'] in chain for a_ in c2.args):
                    srcs.add(short(c2.name or ''))
                    for a_ in c2.args:
                        if a_['k'] != 'const' and a_['pl']['l'] not in chain:
                            for l in origin_locals(so, a_['pl']['l'], depth=12):
                                for c3 in so.calls:
                                    if c3.dest['l'] == l and c3 is not c:
                                        srcs.add(short(c3.name or ''))
            uses_value = any(re.search(r'to_raw_bitvec|true_array|raw_iter|from_bool_slice', x) for x in srcs)
            ctx.ob(R8, 'select_op·validity-from-selector-value', uses_value,
                   f'validity of the CASE result is computed from: {sorted(x.rsplit("::", 1)[-1] for x in srcs)}', [site(so, c.bb)],
                   what='select_op derives the result validity from the selector\'s validity only: CASE WHEN false THEN NULL ELSE x END '
                        'yields NULL instead of x')

    R4 = 'C14-R4'
    ctx.rule(R4, 'todo!/unimplemented! sites inside evaluation entry points (each is a panic inside an operator task); '
                 'armed only for sites that are not in the confirmed list')
    KNOWN_TODO = {OPS + 'extract': 'extract of other fields / from interval', OPS + 'cast': 'casts from Blob/Vector/Timestamp variants'}
    todo = []
    for b in prog.bodies.values():
        if not b.name.startswith('array::ops::') and not b.name.startswith('executor::evaluator::'):
            continue
        for c in b.calls:
            if c.target is None and re.search(r'panicking::panic_fmt|panicking::panic$|core::panicking::panic_', c.fn or ''):
                # todo!/unimplemented! show up as panic_fmt with "not yet implemented" / "not implemented" in a promoted const
                txt = ' '.join(str(s) for s in b.rec.get('promoted', []))
                if 'not yet implemented' in txt or 'not implemented' in txt:
                    todo.append((b, c))
    fam = {b.root for b in cast_family(prog)}
    roots = sorted({(OPS + 'cast') if b.root in fam else b.root for b, _ in todo})
    for r in roots:
        ctx.ob(R4, f'todo·{short(r)}', r in KNOWN_TODO, f'unimplemented arm(s) in {r}: {KNOWN_TODO.get(r, "NEW")}', nontrivial=False)
    ctx.extra['todo_sites'] = roots


def cast_family(prog):
    """ArrayImpl::cast with the helpers of the same impl it delegates to (cast -> cast_inner): the kernels may live in either"""
    root = OPS + 'cast'
    out = list(prog.group(root))
    seen = {root}
    for g in list(out):
        for c in g.calls:
            for n in prog.callee_bodies(c):
                r = prog.bodies[n].root
                if r.startswith(OPS + 'cast') and r not in seen:
                    seen.add(r)
                    out += prog.group(r)
    return out


def short(n):
    return re.sub(r'<[^<>]*>', '', n or '?')


def clear_null_rule(ctx, prog, R6):
    ctx.rule(R6, 'boolean results carry `false` under NULL slots: every BoolArray a kernel in array::ops builds with '
                 'unary_op/binary_op/ternary_op goes through clear_null before it becomes an ArrayImpl (filters and joins read the '
                 'raw bits through BoolArray::true_array; `and`/`or` maintain the invariant from their inputs)')
    from tmpl import local_defs
    consumers = [c for c in prog.calls_matching(re.compile(r'PrimitiveArray::<bool>::true_array$|::true_array$'))]
    if ctx.anchor(R6, 'BoolArray::true_array consumers (filter / join executors)', consumers):
        n6 = 0
        bad = {}
        for b in prog.bodies.values():
            if not b.name.startswith('array::ops::'):
                continue
            for c in b.calls:
                if not (c.name or '').endswith('::new_bool') or not c.args or c.args[0]['k'] == 'const':
                    continue
                for bb, kind, payload in local_defs(b, c.args[0]['pl']['l']):
                    if kind != 'call':
                        continue   # a value assembled by hand (and / or): its validity is patched explicitly
                    fn = payload.get('fn') or ''
                    n6 += 1
                    if re.search(r'array::ops::(unary_op|binary_op|ternary_op|try_unary_op|select_op)$', fn):
                        bad.setdefault(b.root, []).append((b, c.bb))
        ctx.floor(R6, n6, 10, 'boolean kernel results in array::ops')
        roots = sorted({b.root for b in prog.bodies.values() if b.name.startswith('array::ops::<impl array::ArrayImpl>::')
                        and any((c.name or '').endswith('::new_bool') for c in b.calls)})
        for r in roots:
            sites = bad.get(r, [])
            fn = r.rsplit('::', 1)[-1]
            ctx.ob(R6, f'ArrayImpl::{fn}·clear_null', not sites,
                   f'{r}: {len(sites)} boolean result(s) built by a kernel without clear_null', [site(b, bb) for b, bb in sites[:3]],
                   what=f'ArrayImpl::{fn} builds a boolean array whose raw bits under NULL are not cleared: WHERE / JOIN ON read the '
                        f'raw bit, so a NULL predicate counts as TRUE')


def aligned_bitmaps_rule(ctx, prog, R10):
    """C14-R10 = C02-R8: validity bitmaps are word-aligned"""
    ctx.rule(R10, 'validity bitmaps start at bit 0 of their first word: BitVecExt::and / or / not_then_and (and with them binary_op, '
                  'select_op, clear_null, the AND/OR kernels) combine bitmaps word by word through as_raw_slice; therefore no BitVec is '
                  'made by copying a sub-range of another one (BitSlice::to_bitvec / to_owned / BitVec::from_bitslice on `bits[a..b]`, '
                  '`bits[a..]`), which keeps the head offset of the source')
    raw = [c for b_ in prog.bodies.values() for c in b_.calls if re.search(r'BitVec::<.*>::as_raw_(mut_)?slice$', c.name or '')]
    if ctx.anchor(R10, 'raw-word bitmap kernels (as_raw_slice)', raw):
        ctx.floor(R10, len(raw), 6, 'as_raw_slice call sites')
        n_copy = 0
        for b_ in prog.bodies.values():
            for c in b_.calls:
                if not re.search(r'BitSlice::<.*>::to_bitvec$|BitVec::<.*>::from_bitslice$|ToOwned::to_owned$', c.name or ''):
                    continue
                if 'to_owned' in (c.name or '') and 'BitSlice' not in ' '.join(c.t.get('gargs', []) + [c.res or '']):
                    continue
                n_copy += 1
                if not (c.args and c.args[0]['k'] != 'const'):
                    continue
                o = origin_locals(b_, c.args[0]['pl']['l'], depth=8)
                sub = [x for x in b_.calls if re.search(r'ops::Index::index$|ops::IndexMut::index_mut$', x.fn or '') and x.dest['l'] in o
                       and len(x.args) > 1 and x.args[1]['k'] != 'const'
                       and re.search(r'^std::ops::(Range|RangeFrom|RangeInclusive)<', b_.local_ty(x.args[1]['pl']['l']))]
                ctx.ob(R10, f'{b_.root}·copies-a-sub-range-of-a-bitmap', not sub,
                       f'{b_.name}: {c.name} at block {c.bb} copies `bits[range]` with a start that need not be a multiple of the word size',
                       [site(b_, c.bb)],
                       what=f'{b_.root} builds a bitmap by copying a sub-range of another one: the copy keeps the source\'s bit offset, '
                            'and the word-wise validity kernels then shift every row\'s NULL flag')
        ctx.extra['bitmap_copy_sites'] = n_copy
