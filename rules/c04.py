"""C04 - a crash at any instant leaves a recoverable, atomic, durable database.

Decides (structural, necessary conditions): the write-ahead orderings that crash consistency rests
on, the torn-tail tolerance of manifest replay, single-write transaction records, and who may
mutate/unlink files. Does not decide: what recovery does with the bytes (value level)."""
import re
import inline

from tmpl import (order_before, follows, done_sites, start_sites, gate_false_targets, gate_true_targets, who, site, suffix,
                  flows_from, local_defs, origin_locals, pl_fields, region_callees, arg_indices, await_sites,
                  bool_call_true_targets)
from mir import operand_places

SEC = 'storage::secondary::'
COMMIT_INNER = SEC + 'transaction::SecondaryTransaction::commit_inner::{closure#0}'
FLUSH_ROWSET = SEC + 'transaction::SecondaryTransaction::flush_rowset::{closure#0}'
PIPE = SEC + 'rowset::rowset_writer::RowsetWriter::pipe_to_file::{closure#0}'
RW_FLUSH = SEC + 'rowset::rowset_writer::RowsetWriter::flush::{closure#0}'
SYNC_DIR = SEC + 'rowset::rowset_writer::RowsetWriter::sync_dir::{closure#0}'
APPEND = SEC + 'manifest::Manifest::append::{closure#0}'
REPLAY = SEC + 'manifest::Manifest::replay::{closure#0}'
COMPACT = SEC + 'compactor::Compactor::compact_table::{closure#0}'
REWRITE = SEC + 'version_manager::VersionManager::rewrite_changes::{closure#0}'
CCWCM = SEC + 'version_manager::VersionManager::commit_changes_with_custom_manifest::{closure#0}'
BOOTSTRAP = SEC + 'storage::<impl storage::secondary::SecondaryStorage>::bootstrap::{closure#0}'
EPOCHOP = SEC + 'version_manager::EpochOp'
IOBACKEND = SEC + 'options::IOBackend'


def file_write_sites(body):
    """blocks where bytes are written to a real file: polls / calls of write_all on a File writer"""
    out = []
    for c in body.calls:
        n = c.fn or ''
        g = ' '.join(c.t.get('gargs', []))
        if n.endswith('AsyncWriteExt::write_all') and 'tokio::fs::File' in g:
            out.append(c.bb)
        if n.endswith('DeleteVector::write_all') and 'tokio::fs::File' in g:
            out.append(c.bb)
    return out


def in_memory_arm_blocks(body):
    """blocks only reachable through the InMemory arm of a `match io_backend`"""
    out = set()
    for i, bl in enumerate(body.blocks):
        t = bl['term']
        if t['k'] == 'switch' and t.get('adt') == IOBACKEND:
            for v, b in t['targets']:
                if t.get('variants', {}).get(v) == 'InMemory':
                    out |= {x for x in range(len(body.blocks)) if body.dominates(b, x)}
    return out


def eval_bool(body, l, infeasible, depth=6):
    """possible values of bool local l on feasible blocks: subset of {True, False, '?'}"""
    vals = set()
    if depth < 0:
        return {'?'}
    defs = local_defs(body, l)
    if not defs:
        return {'?'}
    for bb, kind, payload in defs:
        if bb in infeasible:
            continue
        if kind == 'call':
            # `io_backend.is_in_memory()`: the symbolic value M; `!M` is "true exactly when files are real"
            vals.add('M' if (payload.get('fn') or '').endswith('IOBackend::is_in_memory') else '?')
            continue
        rv = payload
        if rv['rv'] == 'use':
            op = rv['op']
            if op['k'] == 'const':
                vals.add({'true': True, 'false': False}.get(op.get('v', '').replace('const ', ''), '?'))
            elif not op['pl']['p']:
                vals |= eval_bool(body, op['pl']['l'], infeasible, depth - 1)
            else:
                vals.add('?')
        elif rv['rv'] == 'unop' and rv['op'] == 'Not' and rv['a']['k'] != 'const' and not rv['a']['pl']['p']:
            inner = eval_bool(body, rv['a']['pl']['l'], infeasible, depth - 1)
            vals |= {(not v) if isinstance(v, bool) else {'M': 'notM', 'notM': 'M'}.get(v, v) for v in inner}
        else:
            vals.add('?')
    return vals


def run(ctx):
    prog = ctx.prog('all' if ctx.thorough else 'lib')
    ctx.extra['facts_key'] = prog.key
    ctx.explanation = (
        'Static T-order / T-who rules on the MIR (mir_promoted, structured async bodies) of the real build: '
        'write-ahead orderings (data+fsync before manifest record, manifest fsync before publish, tmp+rename), '
        'torn-tail tolerance of replay, single-write manifest records, owners of file mutation. '
        'Necessary conditions of crash consistency; the bytes recovery reads are not modelled.')
    ctx.trusted += ['rustc MIR (mir_promoted) of cargo +nightly check', 'resolved callees (Instance::try_resolve)',
                    'tokio::fs::File::sync_data is the durability primitive', 'error exits = from_residual / Result::Err']
    ctx.assumptions += ['path-insensitive: infeasible paths can only make order rules stricter',
                        'crash model as stated in the property: no parent-directory fsync requirement']
    R1 = 'C04-R1'
    ctx.rule(R1, 'write-ahead order: data files written and fsynced before the manifest record that references them; '
                 'manifest fsynced before the new snapshot is published; tmp file written before rename')
    n_inst = 0

    def body(name, rule=R1):
        b = prog.inlined(name)          # with the helpers only this function calls spliced in (lib/inline.py)
        ctx.anchor(rule, name, b is not None)
        return b

    # a. commit_inner: flush_rowset ≺ commit_changes ; DV file: write_all → sync_data
    b = body(COMMIT_INNER)
    if b:
        n_inst += order_before(ctx, prog, R1, b, 'SecondaryTransaction::flush_rowset', 'VersionManager::commit_changes',
                               'a:commit_inner:flush_rowset≺commit_changes') is not None
        def dv_writes(g):
            return [c.bb for c in g.calls if (c.fn or '').endswith('DeleteVector::write_all')
                    and 'tokio::fs::File' in ' '.join(c.t.get('gargs', []))]
        w = dv_writes(b)
        # the write may have been moved into a helper of the transaction (`Self::write_dv_file(..).await?`): then the helper must sync
        # before it returns, and commit_inner must have completed the helper before commit_changes
        helpers = []
        if not w:
            for c in b.calls:
                if (c.fn or '').endswith('Future::poll'):
                    continue
                for cn in prog.callee_bodies(c):
                    for g in prog.group(prog.bodies[cn].root):
                        if g.name.startswith(SEC) and dv_writes(g):
                            helpers.append((c, g))
        if ctx.anchor(R1, 'commit_inner:DeleteVector::write_all<File>', w or helpers):
            if w:
                follows(ctx, prog, R1, b, w, 'tokio::fs::File::sync_data', 'a:commit_inner:dv-write→sync_data≺commit_changes',
                        what='DeleteVector::write_all on the DV file',
                        until=start_sites(prog, b, 'VersionManager::commit_changes'))
            else:
                ok = True
                for c, g in helpers:
                    ok &= bool(follows(ctx, prog, R1, g, dv_writes(g), 'tokio::fs::File::sync_data',
                                       f'a:{g.root.rsplit("::", 1)[-1]}:dv-write→sync_data', what='DeleteVector::write_all on the DV file'))
                    hname = g.root.rsplit('::', 2)[-2] + '::' + g.root.rsplit('::', 1)[-1]
                    done = set(done_sites(prog, b, hname))
                    commits = set(start_sites(prog, b, 'VersionManager::commit_changes'))
                    pending = bool(b.reachable_from(b.succs[c.bb], avoid=done) & commits)
                    ctx.ob(R1, 'a:commit_inner:dv-write→sync_data≺commit_changes', bool(done) and not pending,
                           f'{b.name}: the helper {hname} (block {c.bb}) that writes and syncs the DV file completes at {sorted(done)} before '
                           f'commit_changes at {sorted(commits)}: {bool(done) and not pending}', [site(b, c.bb)])
            n_inst += 1
    # a'. flush_rowset: mem.flush (reaches RowsetWriter::flush) ≺ DiskRowset::open ≺ push
    b = body(FLUSH_ROWSET)
    if b:
        fl = [c.bb for c in b.calls if (c.fn or '').endswith('::flush') and
              any(prog.group_reaches_call(prog.bodies[n].root, suffix('RowsetWriter::flush'), 4)
                  for n in prog.callee_bodies(c))]
        ctx.anchor(R1, 'flush_rowset:mem.flush→RowsetWriter::flush', fl)
    # b, c. RowsetWriter::flush with its private helpers spliced in (pipe_to_file, sync_dir on today's tree - whatever they are called and
    #       however the function is cut): every write to a column / index file is followed by the sync of that file, and by the sync of
    #       the directory (a File opened with File::open) unless the backend is in-memory
    b = prog.inlined(RW_FLUSH, keep=None)
    ctx.anchor(R1, RW_FLUSH, b is not None)
    if b:
        w = file_write_sites(b)
        kinds = {'file': [], 'dir': []}
        for c in b.calls:
            if (c.fn or '').endswith('fs::File::sync_data') and c.args and c.args[0]['k'] != 'const':
                def opened(pat, c=c):
                    return flows_from(b, c.args[0]['pl']['l'], lambda k, p_, bb: k == 'call' and re.search(pat, p_.get('fn') or ''), depth=24)
                if opened(r'fs::OpenOptions::open$|fs::File::create$'):
                    kinds['file'] += await_sites(b, c)
                elif opened(r'fs::File::open$'):
                    kinds['dir'] += await_sites(b, c)
        if ctx.anchor(R1, 'RowsetWriter::flush:write_all<File>', w):
            follows(ctx, prog, R1, b, w, 'File::sync_data of the file written', 'b:RowsetWriter::flush:write_all→sync_data(file)',
                    b_sites=kinds['file'], what='write_all on the column/index file')
            n_inst += 1
            mem = sorted(in_memory_arm_blocks(b) | set(bool_call_true_targets(b, r'IOBackend::is_in_memory$')))
            follows(ctx, prog, R1, b, w, 'File::sync_data of the directory', 'c:RowsetWriter::flush:write→sync_data(directory)',
                    b_sites=kinds['dir'], allowed=mem, what='the writes of the column/index files')
            n_inst += 1
            ctx.ob(R1, 'c:RowsetWriter::flush:directory-sync-unless-in-memory', bool(kinds['dir']) and bool(mem),
                   f'the directory is fsynced (sites {sorted(set(kinds["dir"]))}) unless the backend is in-memory (arms {mem[:6]})',
                   [site(b, x) for x in kinds['dir']])
    # d. Manifest::append: write_all → sync_data unless gate enable_fsync; gate true for real files
    b = body(APPEND)
    if b:
        w = file_write_sites(b)
        gates = gate_false_targets(b, 'enable_fsync')
        if ctx.anchor(R1, 'Manifest::append:write_all<File>', w):
            follows(ctx, prog, R1, b, w, 'tokio::fs::File::sync_data', 'd:Manifest::append:write_all→sync_data',
                    allowed=gates, what='write_all of the transaction record')
            n_inst += 1
        ctx.extra['config_gates'] = {'Manifest::append': {'field': 'enable_fsync', 'false_targets': gates}}
    opens = prog.calls_matching_all(suffix('Manifest::open'))
    ctx.floor(R1 + 'd', len(opens), 2, 'Manifest::open call sites')
    for c in opens:
        a = c.args[1] if len(c.args) > 1 else None
        if a is None:
            ctx.ob(R1, f'd:Manifest::open@{c.body.root}:fsync-gate', False, 'Manifest::open lost its enable_fsync argument')
            continue
        if a['k'] == 'const':
            vals = {{'true': True, 'false': False}.get(a.get('v', '').replace('const ', ''), '?')}
        else:
            vals = eval_bool(c.body, a['pl']['l'], in_memory_arm_blocks(c.body))
        ctx.ob(R1, f'd:Manifest::open@{c.body.root}:fsync-gate', bool(vals) and vals <= {True, 'notM'},
               f'enable_fsync passed to Manifest::open in {c.body.name} must be true whenever the backend is not '
               f'in-memory; possible values on the file-backed paths: {sorted(map(str, vals))}', [site(c.body, c.bb)])
    # e. AddRowSet records are built only after the row-set files are flushed (bootstrap re-adds existing files)
    adders = []
    for bd in prog.bodies.values():
        for bb, st in bd.aggregates(EPOCHOP, 'AddRowSet'):
            adders.append((bd, bb))
    roots = sorted({bd.root for bd, _ in adders})
    ctx.floor(R1 + 'e', len(roots), 3, 'functions constructing EpochOp::AddRowSet')
    for bd, bb in adders:
        if prog.owned_by(bd.root, {BOOTSTRAP.rsplit('::{closure', 1)[0]}):      # bootstrap, or a helper only bootstrap calls
            ctx.sample({'rule': R1, 'instance': 'e:bootstrap re-adds row-sets already on disk (named exception)'})
            continue
        def lifted(bd_, bb_):
            """position of a block of a nested closure in the outermost coroutine body of its group"""
            top, pos = bd_, bb_
            while top.parent and top.parent in prog.bodies and prog.bodies[top.parent].root == top.root \
                    and top.name != top.root + '::{closure#0}':
                par = prog.bodies[top.parent]
                ps = [b_ for b_, ch in par.closure_sites() if ch == top.name]
                if not ps:
                    break
                top, pos = par, ps[0]
            return top, pos

        def flushed_before(bd_, bb_, depth=2):
            top, pos = lifted(bd_, bb_)
            fl = set(done_sites(prog, top, 'RowsetWriter::flush')) | set(done_sites(prog, top, 'SecondaryTransaction::flush_rowset'))
            if fl and top.dominated_by_any(fl, pos):
                return True
            if fl or depth == 0:
                return False
            # a helper that only builds the records (no flush of its own): every call of it must come after the flush
            cs = [c for c in prog.callers.get(bd_.root, []) if c.body.root != bd_.root]
            return bool(cs) and all(flushed_before(c.body, c.bb, depth - 1) for c in cs)
        top, pos = lifted(bd, bb)
        ok = flushed_before(bd, bb)
        ctx.ob(R1, f'e:{bd.root}:flush≺AddRowSet', ok,
               f'EpochOp::AddRowSet is constructed in {bd.name} (block {bb}) '
               + ('after' if ok else 'WITHOUT a dominating') + ' RowsetWriter::flush / flush_rowset', [site(top, pos)])
        n_inst += 1
    b = body(COMPACT)
    if b:
        order_before(ctx, prog, R1, b, 'RowsetWriter::flush', 'rowset::disk_rowset::DiskRowset::open',
                     'e:compact_table:flush≺open')
    # f. rewrite_changes: tmp manifest written ≺ rename ≺ reopen
    b = body(REWRITE)
    if b:
        order_before(ctx, prog, R1, b, 'VersionManager::commit_changes_with_custom_manifest', 'tokio::fs::rename',
                     'f:rewrite_changes:write-tmp≺rename')
        order_before(ctx, prog, R1, b, 'tokio::fs::rename', 'Manifest::reopen', 'f:rewrite_changes:rename≺reopen')
        n_inst += 1
        # the temp manifest must be opened with fsync enabled (checked by d) and must be the rename source
        # the live manifest is replaced in ONE step: it is only ever the destination of a rename, never renamed away, removed or
        # truncated (after seed C04-e: `rename(manifest, backup); rename(tmp, manifest)` leaves an instant without a manifest; a crash
        # there makes the next open start from an empty log and vacuum every row-set)
        R10 = 'C04-R10'
        ctx.rule(R10, 'there is no instant without a manifest: in rewrite_changes the path built from MANIFEST_FILE_NAME is only the '
                      'destination of tokio::fs::rename - it is never the source of a rename, nor given to remove_file / File::create / '
                      'OpenOptions with truncate; the replacement of the log is one atomic rename of the completed temp file')

        def live_path(l):
            for x in origin_locals(b, l, depth=8):
                for _, kind, p_ in local_defs(b, x):
                    if kind == 'call' and (p_.get('fn') or '').endswith('Path::join') and \
                            any(a_['k'] == 'const' and 'MANIFEST_FILE_NAME' in str(a_.get('v', '')) for a_ in p_.get('args', [])):
                        return True
            return False
        rn = [c for c in b.calls if (c.fn or '').endswith('tokio::fs::rename')]
        away = [c for c in rn if c.args and c.args[0]['k'] != 'const' and live_path(c.args[0]['pl']['l'])]
        gone = [c for c in b.calls if re.search(r'fs::(remove_file|remove_dir_all|File::create)$|OpenOptions::open$', c.fn or '')
                and c.args and any(a_['k'] != 'const' and live_path(a_['pl']['l']) for a_ in c.args)]
        into = [c for c in rn if len(c.args) > 1 and c.args[1]['k'] != 'const' and live_path(c.args[1]['pl']['l'])]
        if ctx.anchor(R10, 'rewrite_changes: rename onto the live manifest path', into):
            ctx.ob(R10, 'rewrite_changes·manifest-replaced-in-one-step', not away and not gone,
                   f'renames onto the live manifest: {[c.bb for c in into]}; renames of it away: {[c.bb for c in away]}; removals / truncations of it: {[c.bb for c in gone]}',
                   [site(b, c.bb) for c in (away + gone or into)],
                   what='rewrite_changes moves or removes the live manifest before the new one is in place: a crash in between leaves a store '
                        'without manifest.json; the next open creates an empty one, replays nothing and vacuums every row-set - all '
                        'acknowledged data is gone without an error')
    # g. publish after persist: epoch bump / status insert only after Manifest::append
    b = body(CCWCM)
    if b:
        A = set(done_sites(prog, b, 'Manifest::append'))
        pubs = []
        for bb, st in b.stmts():
            lhs = st['lhs']
            if st['s'] == 'assign' and any(f.endswith('VersionManagerInner::epoch') for f in
                                           [p[2:] for p in lhs['p'] if p.startswith('f:')]):
                pubs.append((bb, 'write epoch'))
            rv = st.get('rv', {})
            if rv.get('rv') == 'ref' and rv.get('mut') and any(
                    p.endswith('VersionManagerInner::status') for p in rv['pl']['p']):
                pubs.append((bb, '&mut status'))
        if ctx.anchor(R1, 'commit_changes_with_custom_manifest:publish(epoch/status)', pubs) and \
                ctx.anchor(R1, 'commit_changes_with_custom_manifest:Manifest::append', A):
            bad = [(bb, w) for bb, w in pubs if not b.dominated_by_any(A, bb)]
            ctx.ob(R1, 'g:commit_changes:append≺publish', not bad,
                   f'the new epoch/snapshot must be published only after Manifest::append completed; '
                   f'publishing blocks {pubs}, not dominated: {bad}', [site(b, bb) for bb, _ in (bad or pubs)])
            n_inst += 1
    ctx.floor(R1, n_inst, 7, 'write-ahead order instances')

    # R2 torn tail ---------------------------------------------------------------------------------
    R2 = 'C04-R2'
    ctx.rule(R2, 'Manifest::replay must classify a decode error of the stream (EOF of a torn last record) '
                 'instead of propagating it: a torn tail is a crash artefact, not corruption')
    b = body(REPLAY, R2)
    if b:
        grp = inline.group(prog, b)
        classify = [c for g in grp for c in g.calls if re.search(r'serde_json::(error::)?Error::(is_eof|classify)', c.name or '')]
        raw = []
        for g in grp:
            for c in g.calls:
                if (c.fn or '').endswith('Try::branch') and c.args and c.args[0]['k'] != 'const':
                    ty = g.local_ty(c.args[0]['pl']['l'])
                    if 'ManifestOperation' in ty and 'serde_json' in ty:
                        raw.append(c)
        ok = bool(classify) and not raw
        ctx.ob(R2, 'Manifest::replay·stream-item-error', ok,
               'decode errors of the manifest stream are ' + ('classified (is_eof/classify)' if classify else 'never classified')
               + (f' and {len(raw)} `?` propagates the raw item error' if raw else ''),
               [site(c.body, c.bb) for c in raw + classify],
               what='Manifest::replay propagates the EOF error of a torn last record (reopen fails after a crash '
                    'in the middle of a manifest append)')
        # nothing may reject the file before the record-wise parser sees it: a tail torn inside a multi-byte character is still a torn tail
        whole = [c for g in grp for c in g.calls if re.search(r'read_to_string$|String::from_utf8$|str::from_utf8$', c.fn or '')]
        ctx.ob(R2, 'Manifest::replay·bytes-reach-the-record-parser', not whole,
               'the manifest is ' + ('validated as UTF-8 as a whole before parsing: ' + str([c.fn.rsplit('::', 1)[-1] for c in whole]) if whole else
                                     'handed to the JSON stream as bytes'), [site(c.body, c.bb) for c in whole] or [b.loc],
               what='Manifest::replay reads the whole file with read_to_string: an append torn inside a multi-byte UTF-8 character (a table or column '
                    'name with a non-ASCII letter) fails the read itself, before the parser that tolerates a torn tail runs - the database cannot '
                    'be opened after such a crash')

    # R3 single write per transaction record ---------------------------------------------------------
    R3 = 'C04-R3'
    ctx.rule(R3, 'Manifest::append emits Begin..End with exactly one write_all, after End was serialised')
    b = body(APPEND, R3)
    if b:
        w = file_write_sites(b)
        # poll sites of write_all are not in file_write_sites (only the call creating the future)
        ctx.ob(R3, 'Manifest::append·one-write', len(w) == 1, f'{len(w)} write_all call(s) on the manifest file',
               [site(b, x) for x in w])
        def bracket_sites(g, variant):
            out = []
            for c in g.calls:
                if (c.fn or '').endswith('serde_json::to_writer') and len(c.args) > 1 and c.args[1]['k'] != 'const':
                    if flows_from(g, c.args[1]['pl']['l'], lambda k, p, bb: k == 'assign' and p.get('rv') == 'use'
                                  and p['op']['k'] == 'const' and is_promoted_variant(g, p['op'].get('v', ''), variant)):
                        out.append(c.bb)
            return out
        # the bracket is serialised in append itself or in a helper it calls (`Self::encode_transaction(entries)?`)
        enc, via = b, None
        if not bracket_sites(b, 'End'):
            for c in b.calls:
                for cn in prog.callee_bodies(c):
                    g = prog.bodies[cn]
                    if g.name.startswith(SEC) and bracket_sites(g, 'End'):
                        enc, via = g, c
        ends, begins = bracket_sites(enc, 'End'), bracket_sites(enc, 'Begin')
        # the bracket as the two ends of one iterator: `once(&Begin).chain(entries).chain(once(&End))`, serialised by ONE to_writer in a
        # loop over it. Then what counts is the order inside the chain (Begin first, End last, once each), that the loop is the only
        # consumer, and that the write comes after the loop (it is dominated by the `next` that ends it).
        chained = None
        if via is None:
            def promoted_variant(g, l):
                for var in ('Begin', 'End'):
                    if flows_from(g, l, lambda k, p_, bb, var=var: k == 'assign' and p_.get('rv') == 'use' and p_['op']['k'] == 'const'
                                  and is_promoted_variant(g, p_['op'].get('v', ''), var), depth=6):
                        return var
                return None
            once = {c.dest['l']: promoted_variant(b, c.args[0]['pl']['l']) for c in b.calls
                    if (c.fn or '').endswith('iter::once') and c.args and c.args[0]['k'] != 'const' and not c.dest['p']}
            chains = {c.dest['l']: c for c in b.calls if (c.fn or '').endswith('Iterator::chain') and len(c.args) == 2 and not c.dest['p']}

            def seq_of(l, depth=6):
                org = origin_locals(b, l, depth=3)
                for x in org:
                    if x in chains and depth > 0:
                        c = chains[x]
                        return sum((seq_of(a['pl']['l'], depth - 1) if a['k'] != 'const' else ['?'] for a in c.args), [])
                for x in org:
                    if x in once:
                        return [once[x] or '?']
                return ['entries']
            tops = [l for l in chains if not any(a['k'] != 'const' and l in origin_locals(b, a['pl']['l'], depth=3) for c in chains.values() for a in c.args)]
            for top in tops:
                sq = seq_of(top)
                nexts = [c for c in b.calls if (c.fn or '').endswith('Iterator::next') and c.args and c.args[0]['k'] != 'const'
                         and top in origin_locals(b, c.args[0]['pl']['l'], depth=6)]
                tw = [c for c in b.calls if (c.fn or '').endswith('serde_json::to_writer') and len(c.args) > 1 and c.args[1]['k'] != 'const'
                      and any(n.dest['l'] in origin_locals(b, c.args[1]['pl']['l'], depth=8) for n in nexts)]
                if sq and sq[0] == 'Begin' and sq[-1] == 'End' and sq.count('Begin') == 1 and sq.count('End') == 1 and '?' not in sq \
                        and len(nexts) == 1 and len(tw) == 1:
                    chained = (sq, nexts[0], tw[0])
        if chained is not None and not (ends and begins and ends != begins):
            sq, nx, tw = chained
            others = [c.bb for c in b.calls if (c.fn or '').endswith('serde_json::to_writer') and c is not tw]
            ok_dom = all(b.dominates(nx.bb, x) for x in w) and not others
            ctx.ob(R3, 'Manifest::append·End≺write', ok_dom and bool(w),
                   f'the records are serialised from one iterator {sq} by the to_writer at block {tw.bb}; the loop (next at block {nx.bb}) '
                   f'comes before the single write at {w}; other to_writer calls: {others}', [site(b, tw.bb)] + [site(b, x) for x in w])
            looped_w = [x for x in w if b.reachable_from(b.succs[x]) & {x}]
            ctx.ob(R3, 'Manifest::append·one-bracket-per-call', not looped_w and not (b.reachable_from(b.succs[nx.bb]) & {c.bb for c in b.calls if c.dest['l'] in chains}),
                   f'one chain {sq} per call, built outside the loop; write at {w}, inside a loop: {looped_w}', [site(b, tw.bb)],
                   what='Manifest::append writes one changeset as several Begin..End brackets (or in several writes): replay commits every closed '
                        'bracket, so a crash in the middle of the append leaves a statement with many entries (a large INSERT, DELETE, DROP TABLE) '
                        'half applied after recovery')
            ends = begins = None
        if ends is not None and ctx.anchor(R3, 'Manifest::append:serialize(End)', ends) and w:
            if via is None:
                ok_dom = all(b.dominated_by_any(set(ends), x) for x in w)
            else:   # End dominates every successful return of the encoder, and the encoder call dominates the write
                rets = [r for r in enc.return_blocks() if r not in enc.error_exit_blocks()]
                ok_dom = all(enc.dominated_by_any(set(ends), r) or not (enc.reachable_from([0], avoid=set(ends) | enc.error_exit_blocks()) & {r}) for r in rets) \
                    and all(b.dominates(via.bb, x) for x in w)
            ctx.ob(R3, 'Manifest::append·End≺write', ok_dom,
                   'the single write must be dominated by the serialisation of ManifestOperation::End'
                   + (f' (in {enc.name.rsplit("::", 1)[-1]}, called at block {via.bb})' if via is not None else ''),
                   [site(enc, x) for x in ends] + [site(b, x) for x in w])
        # one transaction = one bracket = one write: neither the write nor the serialisation of Begin / End is repeated (after seed C04-f:
        # a changeset written in batches, each with a bracket of its own, is no longer atomic for replay)
        looped = [x for x in (ends or []) + (begins or []) if enc.reachable_from(enc.succs[x]) & {x}] + [x for x in w if b.reachable_from(b.succs[x]) & {x}]
        if via is not None and b.reachable_from(b.succs[via.bb]) & {via.bb}:
            looped.append(via.bb)
        if begins is not None and ctx.anchor(R3, 'Manifest::append:serialize(Begin)', begins):
            ctx.ob(R3, 'Manifest::append·one-bracket-per-call', not looped and len(begins) == 1 and len(ends) == 1,
                   f'Begin serialised at {begins}, End at {ends}' + (f' (in {enc.name.rsplit("::", 1)[-1]})' if via is not None else '')
                   + f', write at {w}; of these inside a loop: {looped}',
                   [site(enc, x) for x in (begins + ends)],
                   what='Manifest::append writes one changeset as several Begin..End brackets (or in several writes): replay commits every closed '
                        'bracket, so a crash in the middle of the append leaves a statement with many entries (a large INSERT, DELETE, DROP TABLE) '
                        'half applied after recovery')

    # R4 who mutates files ---------------------------------------------------------------------------
    R4 = 'C04-R4'
    ctx.rule(R4, 'only the version manager (vacuum, manifest rewrite) and bootstrap remove/rename/truncate files; '
                 'data files are created with create_new')
    OWN = {
        'remove_dir_all': {SEC + 'version_manager::VersionManager::do_vacuum',
                           SEC + 'storage::<impl storage::secondary::SecondaryStorage>::bootstrap'},
        'remove_file': {SEC + 'storage::<impl storage::secondary::SecondaryStorage>::bootstrap'},   # boot vacuum of unlisted DV files (R7)
        'rename': {SEC + 'version_manager::VersionManager::rewrite_changes'},
        'truncate': {SEC + 'version_manager::VersionManager::rewrite_changes'},
    }
    destructive = re.compile(r'(?:tokio|std)::fs::(remove_dir_all|remove_dir|remove_file|rename|hard_link|copy)$'
                             r'|fs::OpenOptions::(truncate)$|(?:tokio|std)::fs::File::(set_len)$')
    n = 0
    for c in prog.calls_matching_all(destructive):
        m = destructive.search(c.fn or c.name)
        kind = next(g for g in m.groups() if g)
        ok = prog.owned_by(c.body.root, OWN.get(kind, set()))     # an owner, or a helper only owners call
        n += 1
        ctx.ob(R4, f'{c.body.root}→{kind}', ok, f'`{c.fn}` called from {c.body.name}'
               + ('' if ok else ' which is not an owner of file removal/rename/truncation'), [site(c.body, c.bb)])
    ctx.floor(R4, n, 4, 'destructive file operations (2 remove_dir_all, rename, truncate)')
    # data files: creation inside storage::secondary must not truncate an existing file
    creators = prog.calls_matching_all(re.compile(r'fs::OpenOptions::(create|create_new)$|fs::File::create$'))
    for c in creators:
        if not c.body.name.startswith(SEC):
            continue
        kind = (c.fn or '').rsplit('::', 1)[-1]
        root = c.body.root
        ok = kind == 'create_new' or (kind == 'create' and root in {
            SEC + 'manifest::Manifest::open', SEC + 'manifest::Manifest::reopen',
            SEC + 'version_manager::VersionManager::rewrite_changes'})
        ctx.ob(R4, f'{root}→{kind}', ok, f'file creation `{c.fn}` in {c.body.name}: data files (column, index, DV) must be '
               f'create_new; only the manifest may be opened with create', [site(c.body, c.bb)])
    rule_r5(ctx, prog)


def is_promoted_variant(body, v, variant):
    m = re.match(r'promoted\[(\d+)\]', v or '')
    if not m:
        return False
    i = int(m.group(1))
    pr = body.rec.get('promoted', [])
    if i >= len(pr):
        return False
    return any(s['rv'].get('rv') == 'agg' and s['rv'].get('variant') == variant for s in pr[i])


def rule_r5(ctx, prog):
    """orphan vacuum at boot"""
    # R6 ----------------------------------------------------------------------------------------------
    R6 = 'C04-R6'
    ctx.rule(R6, 'a torn last manifest record is tolerated by replay (R2) only because the torn bytes are gone before the next '
                 'append: every successful path of bootstrap after Manifest::replay completes VersionManager::rewrite_changes '
                 '(tmp file + rename, R1.f) -- or replay itself truncates the file (set_len)')
    b = prog.body(BOOTSTRAP)
    rp = prog.inlined(REPLAY)
    if ctx.anchor(R6, BOOTSTRAP, b is not None) and ctx.anchor(R6, REPLAY, rp is not None):
        truncates = [c for g in inline.group(prog, rp) for c in g.calls if re.search(r'fs::File::set_len$', c.fn or '')]
        a = done_sites(prog, b, 'Manifest::replay')
        if ctx.anchor(R6, 'bootstrap:Manifest::replay', a):
            if truncates:
                ctx.ob(R6, 'replay·truncates-torn-tail', True, 'Manifest::replay truncates the file itself (set_len)',
                       [site(truncates[0].body, truncates[0].bb)])
            else:
                mock = gate_true_targets(b, 'disable_all_disk_operation')   # mock manifest: there is no file to tear
                follows(ctx, prog, R6, b, a, 'VersionManager::rewrite_changes', 'bootstrap:replay→rewrite_changes',
                        what='Manifest::replay (which may have skipped a torn tail)', allowed=mock)
        rw = prog.inlined(REWRITE)
        if ctx.anchor(R6, REWRITE, rw is not None):
            rn = [c for g in inline.group(prog, rw) for c in g.calls if re.search(r'tokio::fs::rename$', c.fn or '')]
            ro = [c for g in inline.group(prog, rw) for c in g.calls if (c.fn or '').endswith('Manifest::reopen')]
            ctx.ob(R6, 'rewrite_changes·replaces-file', bool(rn) and bool(ro),
                   f'rewrite_changes must replace the manifest file (rename: {len(rn)} site(s)) and reopen it (reopen: {len(ro)} site(s)), '
                   'so that later appends go to the clean file', [site(rw, 0)])

    R5 = 'C04-R5'
    ctx.rule(R5, 'bootstrap discovers orphan row-set directories (left by a crash before the manifest append) by enumerating '
                 'the storage directory: the path it unlinks derives from a DirEntry, under a membership test against the '
                 'row-sets the manifest lists; a manifest-driven vacuum can never see an orphan')
    b = prog.body(BOOTSTRAP)
    if not ctx.anchor(R5, BOOTSTRAP, b is not None):
        return
    # the boot vacuum may sit in bootstrap itself or in helpers only bootstrap calls: (body, call in bootstrap that enters it | None)
    boot_root = BOOTSTRAP.rsplit('::{closure', 1)[0]
    boot_bodies = [(b, None)] + [(hb, c) for c, hb in region_callees(prog, b, None, depth=2)
                                 if hb.root != boot_root and prog.owned_by(hb.root, {boot_root})
                                 and hb.root not in getattr(b, 'inlined_from', [])]      # (already part of b when spliced in)
    rms = [(hb, c) for hb, _ in boot_bodies for c in hb.calls if (c.fn or '').endswith('fs::remove_dir_all')]
    if not ctx.anchor(R5, 'bootstrap:remove_dir_all', rms):
        return
    for hb, c in rms:
        rd = done_sites(prog, hb, 'tokio::fs::read_dir')
        ne = done_sites(prog, hb, 'tokio::fs::ReadDir::next_entry')
        ctx.ob(R5, 'bootstrap·enumerates-directory', bool(rd) and bool(ne),
               f'bootstrap must list the storage directory (in {hb.name}: read_dir blocks {rd}, next_entry blocks {ne})')

        def from_entry(kind, payload, bb):
            return kind == 'call' and (payload.get('fn') or '').endswith('tokio::fs::DirEntry::path')
        ok = c.args and c.args[0]['k'] != 'const' and flows_from(hb, c.args[0]['pl']['l'], from_entry, depth=6)
        ctx.ob(R5, 'bootstrap·unlinks-enumerated-entry', bool(ok),
               'the directory removed at boot must be one found by enumeration (DirEntry::path), so that orphans are seen',
               [site(hb, c.bb)])
        ck = [x.bb for x in hb.calls if re.search(r'(Hash|BTree)Map::<.*>::contains_key$', x.name or '')]
        ctx.ob(R5, 'bootstrap·membership-test≺unlink', bool(ck) and hb.dominated_by_any(set(ck), c.bb),
               f'removal (block {c.bb}) must be dominated by a contains_key test on the row-sets to open (blocks {ck})',
               [site(hb, c.bb)])

    # R7 ----------------------------------------------------------------------------------------------
    R7 = 'C04-R7'
    ctx.rule(R7, 'no stale file can collide with a re-issued id: the row-set and DV id generators restart from the live manifest '
                 'entries (C03-R3), so at boot every delete-vector file that no live AddDV entry names is unlinked -- bootstrap lists the '
                 'dv directory (a second read_dir), and removes a file found there (path from DirEntry::path) under a membership '
                 'test against the very map the AddDV arm of the replay fills')
    MANOP_ = 'storage::secondary::manifest::ManifestOperation'
    rf = [(hb, via, c) for hb, via in boot_bodies for c in hb.calls if re.search(r'fs::remove_file$', c.fn or '')]
    rd = [(hb.name, x) for hb, _ in boot_bodies for x in done_sites(prog, hb, 'tokio::fs::read_dir')]
    ctx.ob(R7, 'bootstrap·lists-dv-directory', len(rd) >= 2, f'read_dir sites in bootstrap and its helpers: {rd} (row-set directory and dv directory)')
    sw = [(i, bl['term']) for i, bl in enumerate(b.blocks) if bl['term']['k'] == 'switch' and bl['term'].get('adt') == MANOP_]
    dv_map = set()
    if sw:
        i, t = sw[0]
        arms = {t['variants'][v]: tgt for v, tgt in t['targets'] if v in t.get('variants', {})}
        if 'AddDV' in arms:
            others = {tgt for vv, tgt in arms.items() if vv != 'AddDV'} | {i}
            region = b.reachable_from([arms['AddDV']], avoid=others)
            for c in b.calls:
                if c.bb in region and re.search(r'(Hash|BTree)Map::<.*>::insert$', c.name or '') and c.args and c.args[0]['k'] != 'const':
                    dv_map |= {l for l in origin_locals(b, c.args[0]['pl']['l'], depth=4) if re.search(r'(Hash|BTree)Map', b.local_ty(l)) and not b.local_ty(l).startswith('&')}
    if ctx.anchor(R7, 'bootstrap: map filled by the AddDV arm', dv_map):
        if not rf:
            ctx.ob(R7, 'bootstrap·unlinks-unlisted-dv-files', False, 'bootstrap never removes a file: stale DV files survive every reopen',
                   [site(b, 0)],
                   what='delete-vector files that the manifest no longer mentions survive a reopen while their ids are handed out again: '
                        'a later DELETE fails with AlreadyExists')
        for hb, via, c in rf:
            def from_entry(kind, payload, bb):
                return kind == 'call' and (payload.get('fn') or '').endswith('tokio::fs::DirEntry::path')
            enumerated = bool(c.args and c.args[0]['k'] != 'const' and flows_from(hb, c.args[0]['pl']['l'], from_entry, depth=6))

            def on_dv_map(x):
                """is the receiver of this contains_key the map the AddDV arm fills (directly, or handed to the helper)?"""
                if not (x.args and x.args[0]['k'] != 'const'):
                    return False
                if via is None:
                    return bool(dv_map & origin_locals(hb, x.args[0]['pl']['l'], depth=10))
                handed = {k for k, a in enumerate(via.args) if a['k'] != 'const' and dv_map & origin_locals(b, a['pl']['l'], depth=6)}
                return bool(handed & arg_indices(prog, hb, x.args[0]['pl']['l']))
            ck = [x for x in hb.calls if re.search(r'(Hash|BTree)Map::<.*>::contains_key$', x.name or '') and on_dv_map(x)]
            member = bool(ck) and hb.dominated_by_any({x.bb for x in ck}, c.bb)
            ctx.ob(R7, 'bootstrap·unlinks-unlisted-dv-files', enumerated and member,
                   f'remove_file in {hb.name} at block {c.bb}: path from DirEntry::path: {enumerated}; dominated by contains_key on the AddDV map '
                   f'(blocks {[x.bb for x in ck]}): {member}', [site(hb, c.bb)],
                   what='delete-vector files that the manifest no longer mentions survive a reopen while their ids are handed out again: '
                        'a later DELETE fails with AlreadyExists')

    # R8 ----------------------------------------------------------------------------------------------
    R8 = 'C04-R8'
    ctx.rule(R8, 'Begin..End brackets make a multi-record transaction atomic: in Manifest::replay the vector that is returned receives '
                 'records only in the End arm (from a staging buffer), or it is cut back to the last End (truncate) before it is '
                 'returned; a record pushed straight into the result under Begin is applied even when its End never reached the disk')
    rp = prog.inlined(REPLAY)
    if ctx.anchor(R8, REPLAY, rp is not None):
        ctx.functions_analysed.add(rp.name)
        MANOP__ = 'storage::secondary::manifest::ManifestOperation'
        sw = [(i, bl['term']) for i, bl in enumerate(rp.blocks) if bl['term']['k'] == 'switch' and bl['term'].get('adt') == MANOP__]
        # the returned vector: operand of the Ok(..) aggregate assigned to _0
        ret = set()
        for bb, st in rp.stmts():
            if st['s'] == 'assign' and st['lhs']['l'] in rp.ret_locals() and st['rv'].get('rv') == 'agg' and st['rv'].get('variant') == 'Ok':
                for o in st['rv'].get('ops', []):
                    if o['k'] != 'const' and 'Vec<' in rp.local_ty(o['pl']['l']) and 'ManifestOperation' in rp.local_ty(o['pl']['l']):
                        ret |= {l for l in origin_locals(rp, o['pl']['l'], depth=3) if rp.local_ty(l) == rp.local_ty(o['pl']['l'])}
        if ctx.anchor(R8, 'replay: match on ManifestOperation', sw) and ctx.anchor(R8, 'replay: returned vector', ret):
            i, t = sw[0]
            arms = {t['variants'][v]: tgt for v, tgt in t['targets'] if v in t.get('variants', {})}
            others = {tgt for vv, tgt in arms.items() if vv != 'End'} | ({t['otherwise']} if t.get('otherwise') is not None else set())
            end_region = rp.reachable_from([arms['End']], avoid=others | {i}) if 'End' in arms else set()
            muts = []
            for c in rp.calls:
                if re.search(r'Vec::<.*>::(push|append|extend|extend_from_slice|insert)$|Extend::extend$', c.name or '') and c.args and c.args[0]['k'] != 'const' \
                        and ret & origin_locals(rp, c.args[0]['pl']['l'], depth=3):
                    muts.append(c)
            cut = [c for c in rp.calls if re.search(r'Vec::<.*>::(truncate|drain|split_off)$', c.name or '') and c.args and c.args[0]['k'] != 'const'
                   and ret & origin_locals(rp, c.args[0]['pl']['l'], depth=3)]
            outside = [c for c in muts if c.bb not in end_region]
            if ctx.anchor(R8, 'replay: writes into the returned vector', muts):
                ctx.ob(R8, 'replay·unterminated-txn-dropped', not outside or bool(cut),
                       f'writes into the returned vector: {[(c.bb, (c.fn or "").rsplit("::", 1)[-1]) for c in muts]}; End arm blocks '
                       f'{sorted(end_region)[:6]}; outside the End arm: {[c.bb for c in outside]}; cut back before return: {[c.bb for c in cut]}',
                       [site(rp, c.bb) for c in (outside or muts)],
                       what='Manifest::replay returns the records of a transaction whose End was never written: a crash in the middle of a '
                            'multi-record append (DELETE over two row-sets, DROP TABLE) is recovered half-applied')
    boot_vacuum_always(ctx, prog, 'C04-R9')


def boot_vacuum_always(ctx, prog, rid):
    """shared with C03: the boot vacuum is unconditional on a real store"""
    ctx.rule(rid, 'orphans are not only made by Delete* records: a transaction dropped after it flushed a row-set leaves a directory the '
                  'manifest never heard of, and its id is handed out again after the next boot. So the boot vacuum runs on every boot '
                  'of a real store: every successful path of bootstrap after Manifest::replay lists the storage directory (read_dir), '
                  'the mock-manifest arm being the only accepted way around it')
    b = prog.body(BOOTSTRAP)
    if not ctx.anchor(rid, BOOTSTRAP, b is not None):
        return
    a = done_sites(prog, b, 'Manifest::replay')
    if ctx.anchor(rid, 'bootstrap:Manifest::replay', a):
        # `if !options.disable_all_disk_operation { vacuum }`: the arm taken when the flag is set skips the vacuum legitimately
        mock = gate_true_targets(b, 'disable_all_disk_operation')
        neg = []
        for i, bl in enumerate(b.blocks):
            t = bl['term']
            if t['k'] != 'switch' or t['discr']['k'] == 'const':
                continue
            d = [st for st in bl['stmts'] if st['s'] == 'assign' and st['lhs']['l'] == t['discr']['pl']['l']]
            if d and d[-1]['rv'].get('rv') == 'unop' and d[-1]['rv'].get('op') == 'Not':
                src = [st for st in bl['stmts'] if st['s'] == 'assign' and st['lhs']['l'] in {p['l'] for p in operand_places(d[-1]['rv'])}]
                if src and any(f.endswith('::disable_all_disk_operation') for p in operand_places(src[-1]['rv']) for f in pl_fields(p)):
                    # `!flag`: the 0 target is the flag-is-set side, and nothing else may be tested in this block
                    neg += [tgt for v, tgt in t['targets'] if v == '0']
        follows(ctx, prog, rid, b, a, 'tokio::fs::read_dir', 'bootstrap:replay→read_dir', b_depth=1,
                what='Manifest::replay', allowed=list(mock) + neg)
