#!/usr/bin/env python3
"""sync_manifest.py: refresh level_claimed.text of the Engine-A checks in MANIFEST.json from the clause column of DESIGN.md §0,
then validate MANIFEST.json against the schema."""
import json, re, subprocess
D = open('/verif/DESIGN.md').read()
rows = {}
for l in D.splitlines():
    m = re.match(r'\| (C\d\d) \| (.*?) \| (A|B|A\+B) \| (.*) \|$', l)
    if m:
        rows[m.group(1)] = (m.group(2), m.group(3))
M = json.load(open('/verif/MANIFEST.json'))
PRE = ("Static analysis of the type-checked program: structural necessary conditions of the property decided on every run from "
       "/repo's current MIR (")
POST = ("). A green run means none of the structural ways this property is known to break is present; it is not a proof of the "
        "behavioural property.")
for c in M['checks']:
    pid = c['property_id']
    if pid in rows and rows[pid][1] == 'A':
        clause = re.sub(r'\*\*|`', '', rows[pid][0])
        c['level_claimed']['text'] = PRE + clause + POST
json.dump(M, open('/verif/MANIFEST.json', 'w'), indent=1, ensure_ascii=False)
r = subprocess.run(['python3-vt', '-c', '''
import json, jsonschema
jsonschema.validate(json.load(open("/verif/MANIFEST.json")), json.load(open("/root/.vp/MANIFEST.schema.json")))
print("MANIFEST valid")'''], capture_output=True, text=True)
print(r.stdout, r.stderr[-500:])
