#!/usr/bin/env python3
"""lint_rules.py: catch the Python trap that bit this project repeatedly - a function-local `from x import y` makes `y` a local of the
WHOLE function, so every earlier use of the module-level `y` in that function raises at run time (only on the path that reaches it)."""
import ast, glob, sys
bad = 0
for f in sorted(glob.glob('/verif/rules/*.py') + glob.glob('/verif/lib/*.py')):
    t = ast.parse(open(f).read())
    top = set()
    for n in t.body:
        if isinstance(n, (ast.Import, ast.ImportFrom)):
            top |= {a.asname or a.name.split('.')[0] for a in n.names}
    for fn in [n for n in ast.walk(t) if isinstance(n, ast.FunctionDef)]:
        local_imports = {}
        for n in ast.walk(fn):
            if isinstance(n, (ast.Import, ast.ImportFrom)):
                for a in n.names:
                    local_imports[a.asname or a.name.split('.')[0]] = n.lineno
        for name, ln in local_imports.items():
            # used before the import line inside the same function?
            uses = [n.lineno for n in ast.walk(fn) if isinstance(n, ast.Name) and n.id == name and n.lineno < ln]
            if name in top and uses:
                print(f'{f}:{ln}: local import of `{name}` in {fn.name}() shadows the module-level import used at line {uses[0]}')
                bad += 1
# the same trap with plain assignments: `X = ..` inside a function makes the module-level X a local of the whole function
for f in sorted(glob.glob('/verif/rules/*.py') + glob.glob('/verif/lib/*.py')):
    t = ast.parse(open(f).read())
    consts = {tg.id for n in t.body if isinstance(n, ast.Assign) for tg in n.targets if isinstance(tg, ast.Name)}
    for fn in [n for n in ast.walk(t) if isinstance(n, ast.FunctionDef)]:
        assigned = {}
        for n in ast.walk(fn):
            if isinstance(n, ast.Assign):
                for tg in n.targets:
                    if isinstance(tg, ast.Name) and tg.id in consts:
                        assigned.setdefault(tg.id, n.lineno)
        for name, ln in assigned.items():
            uses = [n.lineno for n in ast.walk(fn) if isinstance(n, ast.Name) and n.id == name and isinstance(n.ctx, ast.Load) and n.lineno < ln]
            if uses:
                print(f'{f}:{ln}: `{name}` is assigned in {fn.name}() after the module-level `{name}` is read at line {uses[0]}')
                bad += 1
print('lint_rules:', 'ok' if not bad else f'{bad} problem(s)')
sys.exit(1 if bad else 0)
