#!/usr/bin/env python3
"""Print the prompt handed to a fresh sub-agent asked to seed a property-breaking change.
The agent gets the property text and its own worktree; nothing from /verif."""
import json, sys
pid, wt = sys.argv[1], sys.argv[2]
extra = sys.argv[3] if len(sys.argv) > 3 else ""
p = next(json.loads(l) for l in open('/verif/properties.jsonl') if json.loads(l)['id'] == pid)
prop = json.dumps({k: p[k] for k in ('id','title','statement','quantifier','why_tests_cant','anchors')}, indent=1)
print(f"""You are a careful Rust engineer working in a scratch git worktree of the risinglight database
(an educational OLAP SQL database in Rust) at {wt}. Work ONLY inside {wt}; never read or write /repo, /verif
or any other worktree. The sandbox has no network; build with `cargo ... --offline`. The worktree already has a
warm `target/` directory, so builds are incremental.

Here is a semantic property that risinglight is supposed to satisfy:

{prop}

YOUR TASK: produce ONE change to risinglight's source (under {wt}/src) that BREAKS this property while
  (a) still compiling,
  (b) still passing the entire existing test suite, unedited
      (`cd {wt} && cargo nextest run --workspace --no-fail-fast --offline --test-threads 6`; about 5-8 minutes;
       the one test `primitive_column_factory::tests::test_scan_dict_i32` fails on the unchanged tree too - ignore it), and
  (c) looking like a realistic regression a developer could introduce (a refactor, an optimisation, a cleanup, a
      "simplification", a reordering, a new fast path) - not sabotage with obvious markers, and with no comments that
      reveal it.
The change must need something SPECIFIC to manifest - a particular interleaving, a crash or fault at a particular point,
a multi-step sequence of operations, an unusual input, or two cooperating sites that each look fine alone - and must NOT be
something ordinary use (or the existing tests) would expose at once. Prefer changes in the mechanisms the property's anchors
name. Keep the change small (typically 1-30 lines). {extra}

Also produce a DEMONSTRATION: a new test file or small program (NOT part of the change itself) that FAILS with the change
applied and PASSES without it, deterministically (run it 3 times each way). Good forms: a new integration test file under
{wt}/tests/ (add a `[[test]]` entry to Cargo.toml only if needed - keep that out of patch.diff), a `#[tokio::test]` using
`risinglight::Database` / `risinglight::storage::*` public API, or a `.slt` script. Note that on the unchanged tree the
multi-threaded CLI binary is unreliable, so drive the library API from a test (tokio current-thread runtime) rather than the CLI.
If the breakage needs a crash/fault/interleaving, simulate it in the demo (e.g. truncate/corrupt files between close and reopen,
run operations in a scripted order, use tokio::join!/yield points) - whatever shows the behavioural violation of the property.

DELIVERABLES, all under {wt}/_out/ :
  patch.diff   - `git diff` of the source change ONLY (src/..., nothing from tests/ or Cargo.toml, nothing under _out)
  demo/        - the demonstration files plus `run.sh` that, executed from the worktree root, builds and runs the demo and exits 0
                 when the property holds (unchanged tree) and non-zero when the violation shows (changed tree)
  meta.json    - {{"property": "{pid}", "summary": "...what was changed and why it breaks the property...",
                  "needs_to_manifest": "...the specific input/schedule/crash point/sequence...",
                  "files_touched": [...], "ran": ["...commands you ran and their outcomes (test-suite pass counts, demo results both ways)..."]}}

Verify everything yourself before finishing: with the patch applied - cargo build ok, FULL existing test suite passes
(report the pass count), demo fails; with the patch reverted (`git stash` / `git apply -R`) - demo passes.
Leave the worktree with the patch APPLIED and the demo files in place. In your final message, report: the diff, what it needs to
manifest, and the exact outcomes of the runs. If after serious effort you cannot find a change meeting all constraints, say so
plainly and explain what you tried - do not hand in a change that fails the existing suite or a demo that does not discriminate.""")
