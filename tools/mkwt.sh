#!/bin/bash
# mkwt.sh <name> : scratch worktree of /repo at /tmp/wt/<name> with a warm copy of the dependency build output
set -euo pipefail
n=$1
mkdir -p /tmp/wt
git -C /repo worktree add --detach /tmp/wt/$n HEAD >/dev/null
mkdir -p /tmp/wt/$n/target
cp -r /repo/target/debug /tmp/wt/$n/target/debug
cp /repo/target/CACHEDIR.TAG /tmp/wt/$n/target/ 2>/dev/null || true
echo /tmp/wt/$n
