#!/bin/bash
# rmwt.sh <name> : remove scratch worktree and its build output
set -euo pipefail
git -C /repo worktree remove --force /tmp/wt/$1 2>/dev/null || rm -rf /tmp/wt/$1
git -C /repo worktree prune
