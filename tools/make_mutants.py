#!/usr/bin/env python3
"""Generate tests/mutants/*.diff: one broken instance per rule, each a small edit of /repo that still compiles.
Run with /repo clean. Each mutant is (name, property, expected violation-key substring, file, old, new)."""
import json
import os
import subprocess
import sys

REPO = '/repo'
OUT = '/verif/tests/mutants'
M = [
    # --- C04
    ('c04_no_manifest_fsync', 'C04', 'd:Manifest::append:write_all→sync_data', 'src/storage/secondary/manifest.rs',
     '''        if self.enable_fsync {
            file.sync_data().await?;
        }
''', ''),
    ('c04_rename_before_write', 'C04', 'f:rewrite_changes:write-tmp≺rename', 'src/storage/secondary/version_manager.rs',
     '''        // Write to tempfile
        let epoch = {
            let mut temp_manifest = Manifest::open(&temp_manifest_path, true).await?;
            self.commit_changes_with_custom_manifest(ops, &mut temp_manifest)
                .await?
        };
        // Rename this tempfile to manifest
        let manifest_path = manifest_dir_path.join(MANIFEST_FILE_NAME);
        tokio::fs::rename(&temp_manifest_path, &manifest_path).await?;
''', '''        // Rename this tempfile to manifest
        let manifest_path = manifest_dir_path.join(MANIFEST_FILE_NAME);
        tokio::fs::rename(&temp_manifest_path, &manifest_path).await?;
        // Write to the manifest
        let epoch = {
            let mut temp_manifest = Manifest::open(&manifest_path, true).await?;
            self.commit_changes_with_custom_manifest(ops, &mut temp_manifest)
                .await?
        };
'''),
    ('c04_tmp_manifest_without_fsync', 'C04', 'rewrite_changes:fsync-gate', 'src/storage/secondary/version_manager.rs',
     'Manifest::open(&temp_manifest_path, true)', 'Manifest::open(&temp_manifest_path, false)'),
    ('c04_publish_before_persist', 'C04', 'g:commit_changes:append≺publish', 'src/storage/secondary/version_manager.rs',
     '''        // Persist the change onto the disk.
        manifest.append(&entries).await?;

        // Add epoch number and make the modified snapshot available.
        let mut inner = self.inner.lock();
        assert_eq!(inner.epoch, current_epoch);
        inner.epoch += 1;
        let epoch = inner.epoch;
        inner.status.insert(epoch, Arc::new(snapshot));
        inner
            .rowset_deletion_to_apply
            .insert(epoch, rowset_deletion_to_apply);
        inner.dropped_tables.extend(dropped_tables);

        Ok(epoch)''', '''        // Add epoch number and make the modified snapshot available.
        let epoch = {
            let mut inner = self.inner.lock();
            assert_eq!(inner.epoch, current_epoch);
            inner.epoch += 1;
            let epoch = inner.epoch;
            inner.status.insert(epoch, Arc::new(snapshot));
            inner
                .rowset_deletion_to_apply
                .insert(epoch, rowset_deletion_to_apply);
            inner.dropped_tables.extend(dropped_tables);
            epoch
        };

        // Persist the change onto the disk.
        manifest.append(&entries).await?;

        Ok(epoch)'''),
    ('c04_dv_without_fsync', 'C04', 'a:commit_inner:dv-write→sync_data', 'src/storage/secondary/transaction.rs',
     '''                    DeleteVector::write_all(&mut file, &deletes).await?;
                    file.sync_data().await?;''', '''                    DeleteVector::write_all(&mut file, &deletes).await?;'''),
    ('c04_column_file_without_fsync', 'C04', 'b:RowsetWriter::flush:write_all→sync_data(file)', 'src/storage/secondary/rowset/rowset_writer.rs',
     '''                let file = writer.into_inner();
                file.sync_data().await?;''', '''                let _file = writer.into_inner();'''),
    ('c04_directory_not_synced', 'C04', 'c:RowsetWriter::flush:write→sync_data(directory)', 'src/storage/secondary/rowset/rowset_writer.rs',
     '''        Self::sync_dir(&self.io_backend, &self.directory).await?;
''', '''        if rowset.size == 0 {
            Self::sync_dir(&self.io_backend, &self.directory).await?;
        }
'''),
    ('c04_torn_tail_again', 'C04', 'Manifest::replay·stream-item-error', 'src/storage/secondary/manifest.rs',
     '''            let value = match value {
                Ok(value) => value,
                // A crash in the middle of an append leaves a torn record at the end of the file.
                // It belongs to a transaction that was never acknowledged: stop replaying here.
                // (The manifest is rewritten on boot, which drops the torn bytes.)
                Err(e) if e.is_eof() => {
                    warn!("manifest: find torn record at the end of file");
                    break;
                }
                Err(e) => return Err(e.into()),
            };''', '''            let value = value?;'''),
    # --- C03
    ('c03_compaction_keeps_dvs', 'C03', 'C03-R4·storage::secondary::compactor::Compactor::compact_table', 'src/storage/secondary/compactor.rs',
     '''        for rowset in &selected_rowsets {
            if let Some(dvs) = snapshot.get_dvs_of(table.table_id(), rowset.rowset_id()) {
                changes.extend(dvs.iter().map(|dv_id| {
                    EpochOp::DeleteDV(DeleteDVEntry {
                        table_id: table.table_ref_id,
                        dv_id: *dv_id,
                        rowset_id: rowset.rowset_id(),
                    })
                }));
            }
        }
''', ''),
    # --- C06
    ('c06_big_endian_decode', 'C06', 'i32·mirror', 'src/storage/secondary/encode.rs',
     '''        buffer.get_i32_le()
    }
}

impl PrimitiveFixedWidthEncode for i64''', '''        buffer.get_i32()
    }
}

impl PrimitiveFixedWidthEncode for i64'''),
    # --- C07
    ('c07_compaction_ignores_dvs', 'C07', 'compact_table·dvs←get_dvs_of', 'src/storage/secondary/compactor.rs',
     '''                    .iter(column_refs.clone(), dvs, ColumnSeekPosition::start(), None)''',
     '''                    .iter(column_refs.clone(), vec![], ColumnSeekPosition::start(), None)'''),
    # --- C08
    ('c08_drop_table_unlinks', 'C08', 'who:', 'src/storage/secondary/manifest.rs',
     '''        let entry = DropTableEntry { table_id };

        // contrary to create table, we first modify the catalog
        self.apply_drop_table(&entry)?;
''', '''        let entry = DropTableEntry { table_id };

        // contrary to create table, we first modify the catalog
        self.apply_drop_table(&entry)?;
        let pin_version = self.version.pin();
        if let Some(rowsets) = pin_version.snapshot.get_rowsets_of(table_id.table_id) {
            for rowset_id in rowsets {
                let path = self.options.path.join(format!("{}_{}", table_id.table_id, rowset_id));
                tokio::fs::remove_dir_all(path).await?;
            }
        }
'''),
    # --- C09
    ('c09_pin_before_lock_again', 'C09', 'SecondaryTransaction::start·lock≺pin', 'src/storage/secondary/transaction.rs',
     '''        let delete_lock = if update {
            Some(table.lock_for_deletion().await)
        } else {
            None
        };
        // pin a snapshot at version manager
        let pin_version = table.version.pin();''', '''        // pin a snapshot at version manager
        let pin_version = table.version.pin();
        let delete_lock = if update {
            Some(table.lock_for_deletion().await)
        } else {
            None
        };'''),
    # --- C14
    ('c14_truncating_cast', 'C14', 'ArrayImpl::cast·no-truncating-as', 'src/array/ops.rs',
     '''                Type::Int16 => Self::new_int16(try_unary_op(a.as_ref(), |&b| {
                    b.to_i16()
                        .ok_or(ConvertError::Overflow(DataValue::Int32(b), Type::Int16))
                })?),''', '''                Type::Int16 => Self::new_int16(unary_op(a.as_ref(), |&b| b as i16)),'''),
    ('c14_rem_unguarded_again', 'C14', 'zero-guard', 'src/array/ops.rs',
     '''        let valid_rhs = other.get_valid_bitmap();
        let other = safen_dividend(other, valid_rhs).ok_or(ConvertError::NoBinaryOp(
            "rem".into(),
            self.type_string(),
            other.type_string(),
        ))?;

        self.unchecked_rem(&other)''', '''        self.unchecked_rem(other)'''),
    # --- C15
    ('c15_append_error_dropped', 'C15', 'C15-R1·executor::insert::InsertExecutor', 'src/executor/insert.rs',
     '            txn.append(chunk).await?;', '            let _ = txn.append(chunk).await;'),
    ('c15_spawn_before_deactivate_again', 'C15', 'Builder::spawn·deactivate≺spawn', 'src/executor/mod.rs',
     [('''        let rx = rx.deactivate();
        let handle''', '''        let handle'''),
      ('''        StreamSubscriber {
            rx,
            handle''', '''        let rx = rx.deactivate();
        StreamSubscriber {
            rx,
            handle''')], None),
    # --- C16
    ('c16_no_not_null_check', 'C16', 'INSERT·not-null-enforced', 'src/executor/insert.rs',
     '''            for (col, array) in columns.iter().zip(chunk.arrays()) {
                if !col.is_nullable() && array.count() != array.len() {
                    Err(ExecutorError::not_nullable())?;
                }
            }
''', ''),
    # --- C18
    ('c18_index_not_verified', 'C18', 'ColumnIndex::from_bytes·verify≺decode', 'src/storage/secondary/index.rs',
     '        verify_checksum(checksum_type, index_data, checksum)?;\n', '        let _ = (checksum_type, checksum);\n'),
    # --- C20
    ('c20_reader_ignores_quote', 'C20', 'builder·quote', 'src/executor/copy_from_file.rs',
     '                .quote(quote as u8)\n                .escape(escape.map(|c| c as u8))', '                .escape(escape.map(|c| c as u8))'),
    # --- C11
    ('c11_topn_ignores_desc', 'C11', 'TopN·comparator', 'src/executor/top_n.rs',
     '            o if *desc => return o.reverse(),\n            o => return o,', '            o => { let _ = desc; return o }'),
    # --- C02
    ('c02_sum_raw_again', 'C02', 'C02-R1', 'src/array/ops.rs',
     'Self::Int32(a) => DataValue::Int32(a.nonnull_iter().sum()),', 'Self::Int32(a) => DataValue::Int32(a.raw_iter().sum()),'),
    # --- C01 (rule table)
    ('c01_not_gt_wrong', 'C01', 'rule=not-gt', 'src/planner/rules/expr.rs',
     'rw!("not-gt";    "(not (>  ?a ?b))" => "(<= ?a ?b)"),', 'rw!("not-gt";    "(not (>  ?a ?b))" => "(<  ?a ?b)"),'),
    ('c01_left_outer_filter_pushdown_unguarded', 'C01', 'rule=pushdown-filter-left-outer-join', 'src/planner/rules/plan.rs',
     '''        "(join left_outer ?on (filter ?cond ?left) ?right)"
        if not_depend_on("?cond", "?right")''', '''        "(join left_outer ?on (filter ?cond ?left) ?right)"'''),
    ('c01_hash_join_one_eq_1_any_type', 'C01', 'rule=hash-join-on-one-eq-1', 'src/planner/rules/plan.rs',
     '''        "(join inner (and (= ?l1 ?r1) ?cond) ?left ?right)" =>
        "(filter ?cond (hashjoin inner true (list ?l1) (list ?r1) ?left ?right))"''',
     '''        "(join ?type (and (= ?l1 ?r1) ?cond) ?left ?right)" =>
        "(filter ?cond (hashjoin ?type true (list ?l1) (list ?r1) ?left ?right))"'''),
    # --- C17
    ('c17_merge_join_any_type_again', 'C17', 'rule=merge-join·mergejoin·semi', 'src/planner/rules/order.rs',
     '        if is_merge_join_type("?type")\n', ''),
    # --- C10 / C03
    ('c10_ids_non_atomic', 'C10', 'atomic-rmw', 'src/storage/secondary/table.rs',
     '''        self.next_id
            .0
            .fetch_add(1, std::sync::atomic::Ordering::SeqCst)''', '''        let id = self.next_id.0.load(std::sync::atomic::Ordering::SeqCst);
        self.next_id
            .0
            .store(id + 1, std::sync::atomic::Ordering::SeqCst);
        id'''),
    ('c14_case_validity_again', 'C14', 'select_op·validity-from-selector-value', 'src/array/ops.rs',
     'let mut valid = s_true.and(a.get_valid_bitmap());\n    valid.or(&s_true.not_then_and(b.get_valid_bitmap()));',
     'let mut valid = s.get_valid_bitmap().and(a.get_valid_bitmap());\n    valid.or(&s.get_valid_bitmap().not_then_and(b.get_valid_bitmap()));'),
    ('c14_cast_bool_keeps_raw_bits', 'C14', 'clear_null', 'src/array/ops.rs',
     'Type::Bool => Self::new_bool(clear_null(unary_op(a.as_ref(), |&f| f != 0.0))),', 'Type::Bool => Self::new_bool(unary_op(a.as_ref(), |&f| f != 0.0)),'),
    ('c12_limit_counter_skipped', 'C12', 'LimitExecutor·counter-advances', 'src/executor/limit.rs',
     '''            processed += cardinality;
            if start >= end {
                continue;
            }''', '''            if start >= end {
                continue;
            }
            processed += cardinality;'''),
    # --- C05
    ('c05_memory_claims_range_scan', 'C05', 'InMemoryStorage·support_range_filter_scan', 'src/storage/mod.rs',
     '''            Self::SecondaryStorage(_) => true,
            Self::InMemoryStorage(_) => false,
        }
    }

    /// Returns true if scanned table is sorted by primary key.''', '''            Self::SecondaryStorage(_) => true,
            Self::InMemoryStorage(_) => true,
        }
    }

    /// Returns true if scanned table is sorted by primary key.'''),
    # --- C15-R6
    ('c15_memory_append_publishes', 'C15', 'memory·append·from', 'src/storage/memory/transaction.rs',
     '''    async fn append(&mut self, columns: DataChunk) -> StorageResult<()> {
        self.buffer.push(columns);
        Ok(())
    }''', '''    async fn append(&mut self, columns: DataChunk) -> StorageResult<()> {
        self.table.write().unwrap().append(columns)?;
        Ok(())
    }'''),
    # --- C13-R4
    ('c13_end_bound_arms_merged', 'C13', 'mask·end·arms', 'src/storage/secondary/rowset/rowset_iterator.rs',
     '''                    Bound::Included(key) => (0..array.len()).position(|idx| &array.get(idx) > key),
                    Bound::Excluded(key) => (0..array.len()).position(|idx| &array.get(idx) >= key),
                    Bound::Unbounded => None,''', '''                    Bound::Included(key) | Bound::Excluded(key) => {
                        (0..array.len()).position(|idx| &array.get(idx) > key)
                    }
                    Bound::Unbounded => None,'''),
    ('c13_start_bound_not_masked', 'C13', 'mask·start', 'src/storage/secondary/rowset/rowset_iterator.rs',
     '''                let start_row_id = match &range.start {
                    Bound::Included(key) => (0..array.len()).position(|idx| &array.get(idx) >= key),
                    Bound::Excluded(key) => (0..array.len()).position(|idx| &array.get(idx) > key),
                    Bound::Unbounded => Some(0),
                }
                .unwrap_or(len);''', '''                // the iterator was positioned at the start key when it was created
                let start_row_id = 0;'''),
    # --- C07-R4
    ('c07_delete_count_skipped', 'C07', 'C07-R4', 'src/executor/delete.rs',
     '''            cnt += chunk.cardinality();
        }
        txn.commit().await?;''', '''            if chunk.cardinality() == 0 {
                continue;
            }
            cnt += 1;
        }
        txn.commit().await?;'''),
    # --- C01-R3 (model assumptions)
    ('c01_all_depend_on_weakened', 'C01', 'all_depend_on·shape', 'src/planner/rules/plan.rs',
     'used.is_subset(&produced)', '!used.is_disjoint(&produced)'),
    ('c01_is_orderby_swapped', 'C01', 'is_orderby·shape', 'src/planner/rules/order.rs',
     'plan_keys.starts_with(keys)', 'keys.starts_with(plan_keys)'),
    ('c01_is_less_than_is_le', 'C01', 'is_less_than·is·lt', 'src/planner/rules/expr.rs',
     'value_cmp(var1, var2, |d1, d2| d1.lt(d2))', 'value_cmp(var1, var2, |d1, d2| d1.le(d2))'),
    # --- C20-R5
    ('c20_export_not_truncated', 'C20', 'writer·target-truncated', 'src/executor/copy_to_file.rs',
     'let file = File::create(path)?;', 'let file = File::options().write(true).create(true).open(path)?;'),
    # --- C04-R8 / C03-R8 / C08-R6 / C06-R7 / C16-R6 (one own mutant each, different from the seeds)
    ('c04_replay_pushes_into_result', 'C04', 'replay·unterminated-txn-dropped', 'src/storage/secondary/manifest.rs',
     '                        buffered_ops.push(op);', '                        ops.push(op);'),
    ('c08_commit_evicts_rowset', 'C08', 'evicts·rowsets', 'src/storage/secondary/version_manager.rs',
     '                        rowset_deletion_to_apply.push((entry.table_id.table_id, entry.rowset_id));',
     '                        rowset_deletion_to_apply.push((entry.table_id.table_id, entry.rowset_id));\n                        inner.rowsets.remove(&(entry.table_id.table_id, entry.rowset_id));'),
    # --- rules written after the batch-9/10 observations: the pre-fix shape of each repair
    ('c11_join_keys_uncast', 'C11', 'one-type-per-key-pair', 'src/executor/mod.rs',
     '''        assert_eq!(self.node(cond), &Expr::true_());
        let (left_keys, right_keys) = self.resolve_join_keys(lkeys, rkeys, left, right);
        HashJoinExecutor::<T> {''', '''        assert_eq!(self.node(cond), &Expr::true_());
        let left_keys = self.resolve_column_index(lkeys, left);
        let right_keys = self.resolve_column_index(rkeys, right);
        HashJoinExecutor::<T> {'''),
    ('c10_commit_into_dropped_table', 'C10', 'refuses-objects-of-a-dropped-table', 'src/storage/secondary/version_manager.rs',
     '                    return Err(TracedStorageError::not_found("table", table_id));',
     '                    warn!("commit into the dropped table {}", table_id);'),
    ('c16_insert_surplus_only', 'C16', 'source-width-equals-target-columns', 'src/binder/insert.rs',
     '        if expected != actual {', '        if expected < actual {'),
    ('c05_empty_chunk_opens_rowset', 'C05', 'no-row-set-for-an-empty-chunk', 'src/storage/secondary/transaction.rs',
     '''        if columns.cardinality() == 0 {
            return Ok(());
        }
''', ''),
    ('c09_delete_of_dead_row', 'C09', 'victims-alive-in-own-snapshot', 'src/storage/secondary/transaction.rs',
     '''        if deleted {
            return Err(TracedStorageError::not_found("row", id.row_id()));
        }
''', '''        let _ = deleted;
'''),
    ('c17_systable_ignores_columns', 'C17', 'output-built-from-columns', 'src/executor/system_table_scan.rs',
     '''        yield if self.columns.is_empty() {
            DataChunk::no_column(chunk.cardinality())
        } else {
            (self.columns.iter())
                .map(|c| chunk.array_at(c.column_id as usize).clone())
                .collect()
        };''', '''        let _ = self.columns.len();
        yield chunk;'''),
    ('c15_binder_unprotected', 'C15', 'planner-panic', 'src/db.rs',
     '''            let bound = std::panic::catch_unwind(std::panic::AssertUnwindSafe(|| {
                binder.bind(stmt.clone())
            }));''', '''            let bound: std::thread::Result<_> = Ok(binder.bind(stmt.clone()));'''),
]


def main():
    os.makedirs(OUT, exist_ok=True)
    assert subprocess.run(['git', '-C', REPO, 'status', '--porcelain', '--untracked-files=no'], capture_output=True, text=True).stdout.strip() == '', 'repo dirty'
    index = []
    for name, prop, expect, file, old, new in M:
        p = os.path.join(REPO, file)
        s = open(p).read()
        pairs = old if isinstance(old, list) else [(old, new)]
        if any(o not in s for o, _ in pairs):
            print('ANCHOR TEXT NOT FOUND (mutant generator is stale):', name)
            continue
        for o, n_ in pairs:
            s = s.replace(o, n_, 1)
        open(p, 'w').write(s)
        d = subprocess.run(['git', '-C', REPO, 'diff'], capture_output=True, text=True).stdout
        open(os.path.join(OUT, name + '.diff'), 'w').write(d)
        subprocess.run(['git', '-C', REPO, 'checkout', '--', '.'])
        index.append({'name': name, 'property': prop, 'expect': expect})
    json.dump(index, open(os.path.join(OUT, 'index.json'), 'w'), indent=1)
    print(len(index), 'mutants written')


if __name__ == '__main__':
    main()
