#!/usr/bin/env python3
"""tools/mkmeta.py <seed> [made_against]: (re)write seeded/<seed>/meta.json from meta.agent.json, confirm.json, detection.json"""
import json
import os
import sys

V = os.path.dirname(os.path.dirname(os.path.abspath(__file__)))
seed = sys.argv[1]
d = os.path.join(V, 'seeded', seed)
old = {}
if os.path.exists(os.path.join(d, 'meta.json')):
    old = json.load(open(os.path.join(d, 'meta.json')))
made = sys.argv[2] if len(sys.argv) > 2 else old.get('made_against', '')
ag = json.load(open(os.path.join(d, 'meta.agent.json')))
cf = json.load(open(os.path.join(d, 'confirm.json')))
det = json.load(open(os.path.join(d, 'detection.json'))) if os.path.exists(os.path.join(d, 'detection.json')) else None
m = {
    'seed': seed, 'property': ag.get('property', seed.split('-')[0]),
    'origin': 'fresh sub-agent given only the property text and a scratch worktree (tools/agent_prompt.py); nothing from /verif',
    'summary': ag.get('summary'), 'needs_to_manifest': ag.get('needs_to_manifest'), 'files_touched': ag.get('files_touched'),
    'made_against': made,
    'confirmed_by_me': {
        'how': 'tools/confirm_seed.sh in the agent\'s worktree: clean tree -> demo passes; patch applied -> demo fails; '
               'full existing suite (cargo nextest, 211 tests) with the patch',
        'demo_exit_without_patch': cf['demo_exit_without_patch'], 'demo_exit_with_patch': cf['demo_exit_with_patch'],
        'suite_with_patch': cf['suite_summary'].strip(), 'confirmed': cf['confirmed']},
    'rebased_patch': os.path.exists(os.path.join(d, 'patch.rebased.diff')),
    'detection': det,
}
if old.get('notes'):
    m['notes'] = old['notes']
json.dump(m, open(os.path.join(d, 'meta.json'), 'w'), indent=1)
print('wrote', os.path.join(d, 'meta.json'))
