#!/usr/bin/env python3
import sys; sys.path.insert(0,'/verif/lib'); sys.path.insert(0,'/verif')
import vf, importlib
pid=sys.argv[1].upper(); tier=sys.argv[2] if len(sys.argv)>2 else 'quick'
ctx=vf.Ctx(pid,tier,0)
importlib.import_module('rules.'+pid.lower()).run(ctx)
for o in ctx.obligations: print('OK ' if o['ok'] else 'BAD', o['rule'], o['instance'], '|', o['detail'][:230])
for v in ctx.violations: print('VIOL', v['key'])
print(ctx.floors)
