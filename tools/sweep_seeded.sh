#!/bin/bash
# sweep_seeded.sh : run every seeded change through its property's quick check (needs /repo idle); prints one line per seed
cd /verif
for d in seeded/*/; do
  s=$(basename $d)
  out=$(tools/run_seeded.py $s 2>&1 | grep -E "^C[0-9]+ exit" | tr '\n' ' ')
  echo "$s: $out"
done
