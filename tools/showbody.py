#!/usr/bin/env python3
"""Print the CFG of bodies matching a regex (rule-authoring aid)."""
import sys, os, re, json
sys.path.insert(0, os.path.join(os.path.dirname(os.path.abspath(__file__)), '..', 'lib'))
import mir
prog = mir.load(os.environ.get('SCOPE','lib'))
pat = re.compile(sys.argv[1])
full = '-v' in sys.argv
def op(o):
    if o['k']=='const': return o.get('fn') or ('c:'+o.get('v','?'))
    return ('mv ' if o['k']=='move' else '')+pl(o['pl'])
def pl(p): return '_%d'%p['l']+''.join('.'+x.split('::')[-1] if x.startswith('f:') else '('+x+')' for x in p['p'])
for b in prog.find(pat):
    print('==', b.name, b.kind, b.loc, 'root=',b.root)
    if full: print('  locals:', {i:t for i,t in enumerate(b.rec['locals'])})
    print('  vars:', {pl(v['pl']):v['name'] for v in b.rec['vars']})
    for i, bl in enumerate(b.blocks):
        if bl['cleanup'] and not full: continue
        t = bl['term']
        for st in bl['stmts']:
            if st['s']=='assign':
                rv=st['rv']; k=rv['rv']
                if k in('agg',): print(f'   bb{i}   {pl(st["lhs"])} = agg {rv.get("adt") or rv.get("def") or rv["kind"]}::{rv.get("variant","")} ({", ".join(op(o) for o in rv["ops"])})')
                elif k=='discr': print(f'   bb{i}   {pl(st["lhs"])} = discr({pl(rv["pl"])}) {rv["adt"]}')
                elif k=='binop': print(f'   bb{i}   {pl(st["lhs"])} = {rv["op"]}<{rv["ty"]}>({op(rv["a"])}, {op(rv["b"])})')
                elif full or k in ('use','ref','cast','unop'):
                    if k=='use': print(f'   bb{i}   {pl(st["lhs"])} = {op(rv["op"])}')
                    elif k=='ref': print(f'   bb{i}   {pl(st["lhs"])} = &{"mut " if rv["mut"] else ""}{pl(rv["pl"])}')
                    elif k=='cast': print(f'   bb{i}   {pl(st["lhs"])} = cast<{rv["kind"]}>({op(rv["op"])}) as {rv["ty"]}')
                    elif k=='unop': print(f'   bb{i}   {pl(st["lhs"])} = {rv["op"]}({op(rv["a"])})')
                    else: print(f'   bb{i}   {pl(st["lhs"])} = {json.dumps(rv)[:100]}')
        k = t['k']
        if k == 'call':
            print(f'  bb{i}: {pl(t["dest"])} = call {t.get("fn") or t.get("fnty")} -> [{t.get("res")}] ({", ".join(op(a) for a in t["args"])}) => bb{t["t"]} unwind {t.get("unwind")} @{t["rspan"]}{" EXP" if t["exp"] else ""}')
        elif k == 'switch':
            print(f'  bb{i}: switch {op(t["discr"])} adt={t.get("adt")} on={pl(t["on"]) if t.get("on") else None} {[(t.get("variants",{}).get(v,v),b) for v,b in t["targets"]]} else bb{t["otherwise"]}')
        elif k == 'drop':
            print(f'  bb{i}: drop {pl(t["pl"])} => bb{t["t"]}')
        elif k == 'yield':
            print(f'  bb{i}: yield {op(t["value"])} => bb{t["t"]} drop {t["drop"]} @{t["rspan"]}')
        elif k == 'assert':
            print(f'  bb{i}: assert {t["msg"]} => bb{t["t"]}')
        else:
            print(f'  bb{i}: {k} {t.get("t","")}')
