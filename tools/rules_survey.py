#!/usr/bin/env python3
import sys, json, time
sys.path.insert(0,'/verif')
from rulesem import check
rules, unparsed = check.extract()
print(len(rules), 'rules', len(unparsed), 'unparsed')
t0=time.time()
for r in rules:
    if r['fn'] in check.SCALAR_SETS and r['file'].endswith('expr.rs'):
        if r['name'] in check.AXIOMS: print('AXIOM', r['name']); continue
        res = check.check_scalar(r)
        if res['status'] != 'ok': print('SCALAR', r['name'], res)
    else:
        res = check.check_plan(r, 0, int(sys.argv[1]) if len(sys.argv)>1 else 300, int(sys.argv[2]) if len(sys.argv)>2 else 40)
        line = f"PLAN {r['name']:36s} {res['status']:11s} insts={res.get('instantiations')} eval={res.get('evaluated')} skip={res.get('skipped_illformed')}"
        if res['status'] in ('violation',):
            for k,c in res['cex'].items(): line += f"\n       [{k}] {c['problem'][:150]} | {c['inst'][:150]}"
        elif res['status'] not in ('ok',): line += ' ' + str(res.get('why'))
        print(line)
print('time', round(time.time()-t0,1))
