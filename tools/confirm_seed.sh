#!/bin/bash
# confirm_seed.sh <wt-name> <seed-id>
# Independently confirm a sub-agent's seeded change inside its scratch worktree:
#   patch applies to a clean tree, tree builds, existing suite passes with it, demo fails with it, demo passes without it.
# Then store patch + demo + meta under /verif/seeded/<seed-id>/ with confirm.json.
set -uo pipefail
n=$1; id=$2
wt=/tmp/wt/$n
out=$wt/_out
dst=/verif/seeded/$id
cd $wt || exit 2
log=$wt/_confirm.log; : > $log
# 1. clean source tree, keep demo files aside
git checkout -q -- src; git clean -fdq src
git apply --check $out/patch.diff >>$log 2>&1 || { echo "patch does not apply" | tee -a $log; exit 3; }
# demo test files that the agent left in tests/: move them out for the suite run
# 2. demo WITHOUT patch
echo "== demo without patch" >>$log
bash $out/demo/run.sh >>$log 2>&1; rc_clean=$?
# 3. apply patch, demo WITH patch
git apply $out/patch.diff
echo "== demo with patch" >>$log
bash $out/demo/run.sh >>$log 2>&1; rc_patched=$?
# 4. full suite with patch, demo files moved aside (untracked files under tests/ and Cargo.toml edits)
untracked=$(git ls-files --others --exclude-standard tests | grep -v '^tests/sql/' ; git ls-files --others --exclude-standard tests/sql)
mkdir -p _demo_aside; for f in $untracked; do mkdir -p _demo_aside/$(dirname $f); mv $f _demo_aside/$f; done
git diff --quiet Cargo.toml || { cp Cargo.toml _demo_aside/Cargo.toml.demo; git checkout -q Cargo.toml; }
echo "== suite with patch" >>$log
cargo nextest run --workspace --no-fail-fast --offline --test-threads 6 --build-jobs 6 >$wt/_suite.log 2>&1; rc_suite=$?
summary=$(grep -E 'tests run:' $wt/_suite.log | tail -1)
failed=$(grep -E '^\s+(FAIL|SIGABRT|TIMEOUT)' $wt/_suite.log | sort -u | tr '\n' ';')
# restore demo files
for f in $untracked; do mv _demo_aside/$f $f; done
[ -f _demo_aside/Cargo.toml.demo ] && cp _demo_aside/Cargo.toml.demo Cargo.toml
mkdir -p $dst
cp $out/patch.diff $dst/patch.diff
rm -rf $dst/demo; cp -r $out/demo $dst/demo
cp $out/meta.json $dst/meta.agent.json 2>/dev/null
python3 - <<PY
import json
json.dump({"seed":"$id","worktree":"$wt","demo_exit_without_patch":$rc_clean,"demo_exit_with_patch":$rc_patched,
 "suite_exit_with_patch":$rc_suite,"suite_summary":"""$summary""","suite_failed":"""$failed""",
 "confirmed": ($rc_clean==0 and $rc_patched!=0)}, open("$dst/confirm.json","w"), indent=1)
PY
cat $dst/confirm.json
