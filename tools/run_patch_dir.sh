#!/bin/bash
# run_patch_dir.sh : AGN_DIR=<dir of *.diff> - apply each to /repo, run all 20 quick checks, revert (false-alarm testing; needs /repo idle)
cd /verif
for p in ${AGN_DIR:-/tmp/scratch/agn}/*.diff; do
  git -C /repo apply --check $p 2>/dev/null || { echo "STALE $p"; continue; }
  git -C /repo apply $p
  bad=0
  for i in $(seq -w 1 20); do
    out=$(./check C$i quick 2>&1 | tail -1)
    echo "$out" | grep -q " 0 new violations" || { echo "FALSE ALARM on $(basename $p): $out"; bad=1; }
  done
  git -C /repo checkout -- .
  echo "$(basename $p): $([ $bad = 0 ] && echo quiet || echo ALARMS)"
done
echo AGNDONE
