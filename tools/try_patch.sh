#!/bin/bash
# try_patch.sh <patch> <Cnn>... : apply a patch to /repo, run the named quick checks (all 20 if none), print new violations, revert
cd /verif
p=$1; shift
git -C /repo checkout -- . ; git -C /repo apply $p || exit 2
cs="$@"; [ -z "$cs" ] && cs=$(seq -f "C%02g" 1 20)
for c in $cs; do ./check $c quick 2>&1 | grep -v "^KNOWN" | grep -E "rule |quick:|Error|Trace|  File|line " | cut -c1-${W:-420}; done
[ -z "$KEEP" ] && git -C /repo checkout -- .
