#!/bin/bash
# run_patch_dir_copy.sh : AGN_DIR=<dir of *.diff> - the same against a scratch copy of the repository at /tmp/wt/r2 (tools/mkwt.sh r2; VERIF_REPO), so that it can run next to other work on /repo
cd /verif
R=/tmp/wt/r2
for p in ${AGN_DIR}/*.diff; do
  git -C $R checkout -- . ; git -C $R apply --check $p 2>/dev/null || { echo "STALE $p"; continue; }
  git -C $R apply $p
  bad=0
  for i in $(seq -w 1 20); do
    out=$(VERIF_REPO=$R ./check C$i quick 2>&1 | tail -1)
    echo "$out" | grep -q " 0 new violations" || { echo "FALSE ALARM on $(basename $p): $out"; bad=1; }
  done
  git -C $R checkout -- .
  echo "$(basename $p): $([ $bad = 0 ] && echo quiet || echo ALARMS)"
done
echo AGNDONE
