#!/usr/bin/env python3
"""run_mutants.py [name-substring]: apply each tests/mutants/*.diff to /repo, type-check it, run its property's quick check,
verify that the expected violation key is reported as NEW, undo. Writes tests/mutants/results.json."""
import json, os, subprocess, sys
D = '/verif/tests/mutants'
idx = json.load(open(f'{D}/index.json'))
sel = sys.argv[1] if len(sys.argv) > 1 else ''
res = []
for m in idx:
    if sel not in m['name']:
        continue
    assert subprocess.run(['git', '-C', '/repo', 'status', '--porcelain', '--untracked-files=no'], capture_output=True, text=True).stdout.strip() == '', 'repo dirty'
    a = subprocess.run(['git', '-C', '/repo', 'apply', f'{D}/{m["name"]}.diff'], capture_output=True, text=True)
    if a.returncode:
        print('APPLY-FAIL', m['name'], a.stderr[:200]); res.append({**m, 'status': 'apply-fail'}); continue
    try:
        c = subprocess.run(['./check', m['property'], 'quick'], cwd='/verif', capture_output=True, text=True)
        out = c.stdout + c.stderr
        compiles = 'failed on /repo' not in out
        keys = [l.strip() for l in c.stdout.splitlines() if l.startswith('  rule')]
        hit = [k for k in keys if m['expect'] in k]
        status = 'caught' if (c.returncode == 1 and hit) else ('no-compile' if not compiles else ('other-violation' if c.returncode == 1 else 'MISSED'))
        print(f'{status:16s} {m["name"]:42s} {m["property"]} expect~{m["expect"]}' + ('' if hit else '  got: ' + '; '.join(k[:120] for k in keys[:3])))
        res.append({**m, 'status': status, 'reported': [k[:200] for k in keys]})
    finally:
        subprocess.run(['git', '-C', '/repo', 'reset', '-q', '--hard', 'HEAD'])
if not sel:   # a filtered run must not overwrite the record of the full suite
    json.dump(res, open(f'{D}/results.json', 'w'), indent=1)
print(sum(r['status'] == 'caught' for r in res), 'of', len(res), 'caught')
