#!/usr/bin/env python3
"""Print the prompt handed to a fresh sub-agent asked for BEHAVIOUR-PRESERVING refactorings around the anchors of some properties
(false-alarm testing of the checks). The agent gets the property texts and its own worktree; nothing from /verif."""
import json, sys
pids, wt = sys.argv[1].split(','), sys.argv[2]
extra = sys.argv[3] if len(sys.argv) > 3 else ''
props = [json.loads(l) for l in open('/verif/properties.jsonl')]
sel = [{k: p[k] for k in ('id', 'title', 'statement', 'anchors')} for p in props if p['id'] in pids]
print(f"""You are a careful Rust engineer working in a scratch git worktree of the risinglight database
(an educational OLAP SQL database in Rust) at {wt}. Work ONLY inside {wt}; never read or write /repo, /verif
or any other worktree. The sandbox has no network; build with `cargo ... --offline`. The worktree already has a
warm `target/` directory, so builds are incremental.

Here are semantic properties that risinglight satisfies, with the code locations ("anchors") they depend on:

{json.dumps(sel, indent=1)}

YOUR TASK: produce SIX independent, BEHAVIOUR-PRESERVING refactorings of the code these properties are anchored in - the kind of
change a maintainer makes in a clean-up pull request, after which every property above holds exactly as before and no observable
behaviour differs. Spread them over the anchors of the different properties. Use a varied mix of techniques, for example:
  - extract part of a long function into a private helper (sync or async), or split a function into two or three;
  - inline a small helper into its only caller;
  - replace a loop by iterator adaptors or the reverse; replace `if let .. else return` by `let .. else`, `match` by `if let`, `?` by an
    explicit match that returns the same error, early returns by nested conditionals or the reverse;
  - reorder statements that do not depend on each other; hoist a repeated sub-expression into a local; rename locals, parameters,
    private functions or private fields; change a `Vec` that is only iterated into a slice parameter; move a private item to another
    place in the same file; replace `HashMap` by `BTreeMap` (or the reverse) for a private map where the iteration order is not observable;
  - move a check into a helper returning `Result`, called with `?`; wrap several arguments into a small private struct.
Each refactoring should touch 10-80 lines and must be a REAL structural change of the mechanism the property relies on (not comments,
not formatting, not a rename only - at most one of the six may be rename-only). It must NOT change behaviour in any way: same results,
same errors, same order of effects on disk (writes, fsyncs, renames, removals), same locking order and lock scopes, same panics.
Do not weaken or remove any check, ordering, sync, lock, or validation - if in doubt whether something preserves behaviour, choose
another refactoring. {extra}

Each refactoring is a separate patch against the UNCHANGED tree (HEAD): make it, verify it, save `git diff` as
{wt}/_out/n<k>.diff, then `git checkout -- src` before starting the next one. Verify each one:
  (a) `cargo build --offline` and `cargo clippy --offline --lib` produce no new warnings,
  (b) the tests of the touched area pass (`cargo nextest run --offline --test-threads 6 <filter>`), and for at least three of the six run
      the full suite (`cargo nextest run --workspace --no-fail-fast --offline --test-threads 6`, about 5-8 minutes; all tests pass on
      the unchanged tree).
DELIVERABLES under {wt}/_out/ : n1.diff .. n6.diff (src/ changes only) and notes.json =
  [{{"file": "n1.diff", "what": "...", "technique": "...", "properties_nearby": ["C.."], "verified": "...commands and outcomes..."}}, ...].
In your final message list the six refactorings in one line each and anything that made you hesitate about behaviour preservation.""")
