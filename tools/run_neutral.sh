#!/bin/bash
# run_neutral.sh : apply each behaviour-preserving edit in tests/neutral to /repo, run all 20 quick checks, revert. Every check must stay
# exactly as on HEAD (exit 0, no new violation). Needs /repo idle and clean.
cd /verif
rc=0
for p in tests/neutral/*.diff; do
  git -C /repo apply --check /verif/$p 2>/dev/null || { echo "STALE $p (does not apply to HEAD any more)"; continue; }
  git -C /repo apply /verif/$p
  bad=0
  for i in $(seq -w 1 20); do
    out=$(./check C$i quick 2>&1 | tail -1)
    echo "$out" | grep -q " 0 new violations" || { echo "FALSE ALARM on $(basename $p): $out"; bad=1; rc=1; }
  done
  git -C /repo checkout -- .
  echo "$(basename $p): $([ $bad = 0 ] && echo quiet || echo ALARMS)"
done
exit $rc
