#!/usr/bin/env python3
"""run_seeded.py <seed-id> [tier] : apply a seeded breaking change to /repo, run its property's check, undo the change.
Records what the check reported in seeded/<id>/detection.json."""
import json, os, subprocess, sys
seed = sys.argv[1]
tier = sys.argv[2] if len(sys.argv) > 2 else 'quick'
d = f'/verif/seeded/{seed}'
pid = seed.split('-')[0]
patch = f'{d}/patch.diff'
assert subprocess.run(['git', '-C', '/repo', 'status', '--porcelain', '--untracked-files=no'], capture_output=True, text=True).stdout.strip() == '', '/repo not clean'
r = subprocess.run(['git', '-C', '/repo', 'apply', patch], capture_output=True, text=True)
how = 'git apply'
if r.returncode != 0:
    r = subprocess.run(['git', '-C', '/repo', 'apply', '-3', patch], capture_output=True, text=True)
    how = 'git apply -3'
    if r.returncode != 0:
        subprocess.run(['git', '-C', '/repo', 'reset', '-q', '--hard', 'HEAD'])
        alt = f'{d}/patch.rebased.diff'
        if os.path.exists(alt):
            r = subprocess.run(['git', '-C', '/repo', 'apply', alt], capture_output=True, text=True)
            how = 'rebased patch'
if r.returncode != 0:
    print('PATCH DOES NOT APPLY', r.stderr[:400]); subprocess.run(['git', '-C', '/repo', 'reset', '-q', '--hard', 'HEAD']); sys.exit(2)
try:
    props = sys.argv[3:] or [pid]
    out = {}
    for p in props:
        c = subprocess.run(['./check', p, tier], cwd='/verif', capture_output=True, text=True)
        viol = [l for l in c.stdout.splitlines() if l.startswith('VIOLATION') or l.startswith('  rule')]
        out[p] = {'exit': c.returncode, 'violations': [l.strip()[:300] for l in viol if l.startswith('  rule')]}
        print(p, 'exit', c.returncode)
        for l in viol:
            if l.startswith('  rule'): print('   ', l.strip()[:220])
finally:
    subprocess.run(['git', '-C', '/repo', 'reset', '-q', '--hard', 'HEAD'])
json.dump({'seed': seed, 'applied_with': how, 'tier': tier, 'repo_head': subprocess.check_output(['git', '-C', '/repo', 'rev-parse', '--short', 'HEAD'], text=True).strip(), 'checks': out},
          open(f'{d}/detection.json', 'w'), indent=1)
