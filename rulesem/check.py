"""Law checker for the rewrite-rule table (Engine B): every rule, taken alone, must map a well-formed plan /
expression to one with identical results in the reference algebra (alg.py), for all instantiations at the
bound that satisfy its side conditions."""
import itertools
import json
import os
import random
import subprocess

from . import alg
from .alg import Malformed, N, parse, show, subst, vars_of, is_var, list_items, schema_of, Ctx
from .gen import Gen, Unsupported, TABLES, databases, SIG, EXPR_SIG

VERIF = os.path.dirname(os.path.dirname(os.path.abspath(__file__)))
EXTRACTOR = os.path.join(VERIF, 'engines', 'rl-rules', 'target', 'release', 'rl-rules')
RULE_FILES = ['src/planner/rules/expr.rs', 'src/planner/rules/plan.rs', 'src/planner/rules/order.rs',
              'src/planner/rules/range.rs']
SCALAR_SETS = {'rules', 'and_rules'}          # fns of expr.rs returning scalar rules
AXIOMS = {'avg': 'defines avg as sum/count (the executor has no avg kernel)'}
SCAN_FILTER_AXIOM = {'filter-scan', 'filter-scan-1'}   # scan-with-filter := filter over scan; the storage side is C13


def extract(repo='/repo'):
    if not os.path.exists(EXTRACTOR):
        env = dict(os.environ, CARGO_NET_OFFLINE='true')
        subprocess.check_call(['cargo', 'build', '--release', '--offline'], cwd=os.path.dirname(os.path.dirname(os.path.dirname(EXTRACTOR))), env=env)
    files = [os.path.join(repo, f) for f in RULE_FILES]
    out = subprocess.check_output([EXTRACTOR] + files, text=True)
    recs = [json.loads(l) for l in out.splitlines() if l.strip()]
    rules, unparsed = [], []
    pdef = next((r for r in recs if r['kind'] == 'pushdown_def'), None)
    for r in recs:
        rel = os.path.relpath(r['file'], repo)
        if r['kind'] == 'rw':
            rules.append({**r, 'file': rel})
        elif r['kind'] == 'pushdown':
            if not pdef or len(pdef['formats']) != 3:
                unparsed.append({**r, 'file': rel, 'why': 'fn pushdown has no recognisable format! templates'})
                continue
            a, a_args, b, b_args = r['args']
            f = lambda s: s.replace('{a}', a).replace('{a_args}', a_args).replace('{b}', b).replace('{b_args}', b_args)
            rules.append({'kind': 'rw', 'file': rel, 'fn': r['fn'], 'line': r['line'], 'name': f(pdef['formats'][0]),
                          'lhs': f(pdef['formats'][1]), 'rhs': f(pdef['formats'][2]), 'applier': None, 'conds': [],
                          'via': 'pushdown()'})
        elif r['kind'] == 'unparsed':
            unparsed.append({**r, 'file': rel})
    return rules, unparsed


# ---- side conditions ----------------------------------------------------------------------------------------
def occurs(c, t):
    if c == t:
        return True
    return isinstance(t, tuple) and any(occurs(c, x) for x in t)


def used_terms(expr, plan_schema, cx):
    """columns an expression uses, in terms of what `plan` produces: base columns it mentions plus produced
    (computed) columns occurring in it"""
    used = set(alg.columns(expr, cx))
    for s in plan_schema:
        if not isinstance(s, str) and occurs(s, expr):
            used.add(s)
    return used


def produced(plan, cx):
    return set(sch(plan, cx))


class Unmodelled(Exception):
    pass


def cond_holds(c, b, cx):
    fn, a = c['fn'], c['args']
    for v in a:
        if is_var(v) and v not in b:
            raise Malformed(f'condition {fn} mentions unbound {v}')
    if fn in ('not_depend_on', 'depend_on', 'all_depend_on'):
        prod = produced(b[a[1]], cx)
        used = used_terms(b[a[0]], prod, cx)
        if fn == 'not_depend_on':
            return used.isdisjoint(prod)
        if fn == 'depend_on':
            return not used.isdisjoint(prod)
        return used <= prod
    if fn == 'is_not_list':
        t = b[a[0]]
        return not (isinstance(t, tuple) and t and t[0] == 'list')
    if fn == 'schema_is_eq':
        return tuple(sch(b[a[0]], cx)) == tuple(sch(b[a[1]], cx))
    if fn == 'is_orderby':
        keys = sch(b[a[0]], cx)
        have = alg.orderby(b[a[1]], cx)
        return tuple(have[:len(keys)]) == tuple(keys)
    if fn == 'is_merge_join_type':
        return b[a[0]] in ('inner', 'left_outer', 'right_outer', 'full_outer')
    if fn == 'is_primary_key_range':
        # a range condition on the primary key column (modelled: first column of the scanned table)
        t = b[a[0]]
        pk = {cols[0] for _, cols in TABLES}
        def rng(t):
            if isinstance(t, tuple) and t[0] in ('=', '>', '>=', '<', '<=') and len(t) == 3:
                return (t[1] in pk and alg.is_const_atom(t[2])) or (t[2] in pk and alg.is_const_atom(t[1]))
            if isinstance(t, tuple) and t[0] == 'and' and len(t) == 3:
                return rng(t[1]) and rng(t[2])
            return False
        return rng(t)
    raise Unmodelled(fn)


def sch(t, cx):
    """schema analysis of a bound variable: a list's schema is its items, a plan's its output"""
    if isinstance(t, tuple) and t and t[0] == 'list':
        return list_items(t)
    return schema_of(t, cx)


# ---- custom appliers ------------------------------------------------------------------------------------------
def apply_rhs(rule, b, cx):
    ap = rule.get('applier')
    pat = rule['rhs']
    if ap is None:
        t, _ = parse(pat)
        return subst(t, b)
    b = dict(b)
    if ap == 'apply_proj':
        # mirrors the Rust applier exactly: a token counts as `used` only if it starts with '[' and ends with ']'
        bracketed = [w[1:-1] for w in pat.split() if w.startswith('[') and w.endswith(']')]
        clean = pat.replace('[', '').replace(']', '')
        t, _ = parse(clean)
        used_exprs = [b[v] for v in bracketed if v in b]
        for child in ('?child', '?left', '?right'):
            if child in pat and child in b:
                prod = schema_of(b[child], cx)
                keep = [c for c in prod if any(occurs(c, e) for e in used_exprs)]
                b[child] = ('proj', ('list',) + tuple(keep), b[child])
        return subst(t, b)
    if ap == 'extract_key':
        t, _ = parse(pat)
        new_keys = list(schema_of(b['?left'], cx))
        if '?keys' in b:
            new_keys += list(sch(b['?keys'], cx))
        b['?new_keys'] = ('list',) + tuple(new_keys)
        return subst(t, b)
    if ap == 'apply_column0':
        t, _ = parse(pat)
        s = schema_of(b['?subquery'], cx)
        if not s:
            raise Malformed('subquery without columns')
        b['?column0'] = s[0]
        return subst(t, b)
    if ap == 'column_prune':
        t, _ = parse(pat)
        used = alg.columns(b['?exprs'], cx) | alg.columns(b['?filter'], cx)
        cols = [c for c in list_items(b['?columns']) if alg.columns(c, cx) <= used]
        b['?columns'] = ('list',) + tuple(cols)
        return subst(t, b)
    raise Unmodelled(ap)


# ---- comparing results ----------------------------------------------------------------------------------------
def canon(v):
    return ('N',) if v is N else (type(v).__name__, v)


def compare(lt, rt, cx):
    """None if the two plans agree on this database, else a description"""
    ls, lrows = alg.rel(lt, {}, cx)
    rs, rrows = alg.rel(rt, {}, cx)
    if tuple(ls) != tuple(rs):
        if sorted(map(show, ls)) == sorted(map(show, rs)):
            perm = [list(rs).index(c) for c in ls]
            rrows = [tuple(r[i] for i in perm) for r in rrows]
        else:
            return f'output columns differ: {[show(c) for c in ls]} vs {[show(c) for c in rs]}'
    lkeys = alg.orderby(lt, cx)
    ordered = isinstance(lt, tuple) and lt[0] in ('order', 'topn')
    has_limit = contains_op(lt, ('limit', 'topn')) or contains_op(rt, ('limit', 'topn'))
    if sorted(map(lambda r: tuple(map(canon, r)), lrows)) != sorted(map(lambda r: tuple(map(canon, r)), rrows)):
        if has_limit and len(lrows) == len(rrows) and not ordered:
            pass   # fall through to the sequence comparison below for a precise message
        return f'rows differ: {lrows} vs {rrows}'
    if ordered and lkeys:
        def keyseq(sch_, rows):
            out = []
            for r in rows:
                env = dict(zip(sch_, r))
                out.append(tuple(canon(alg.ev(k[1] if isinstance(k, tuple) and k[0] == 'desc' else k, env, cx)) for k in lkeys))
            return out
        if keyseq(ls, lrows) != keyseq(ls, rrows):
            return f'order differs on the ORDER BY keys: {lrows} vs {rrows}'
    return None


def contains_op(t, ops):
    if isinstance(t, tuple):
        return (t and t[0] in ops) or any(contains_op(x, ops) for x in t)
    return False


# ---- scalar rules ---------------------------------------------------------------------------------------------
BOOLS = [True, False, N]
INTS = [N, -1, 0, 1, 2]
BOOL_OPS = {'and', 'or', 'not'}
CMP_OPS = set(alg.CMP)
VALUE_CMP = {'is_greater_than_or_equal': lambda a, b: a >= b, 'is_greater_than': lambda a, b: a > b,
             'is_less_than_or_equal': lambda a, b: a <= b, 'is_less_than': lambda a, b: a < b}


def infer_sorts(t, want, out):
    """sorts of pattern variables: 'b' (boolean) or 'i' (integer); polymorphic positions default to integer"""
    if is_var(t):
        out.setdefault(t, set()).add(want)
        return
    if isinstance(t, str):
        return
    op = t[0]
    if op in BOOL_OPS:
        for x in t[1:]:
            infer_sorts(x, 'b', out)
    elif op == 'if':
        infer_sorts(t[1], 'b', out)
        infer_sorts(t[2], want, out)
        infer_sorts(t[3], want, out)
    elif op == 'isnull':
        infer_sorts(t[1], 'i', out)
    else:
        for x in t[1:]:
            infer_sorts(x, 'i', out)


def check_scalar(rule, extra_ints=()):
    """exhaustive check of a scalar rule; returns dict(status, evaluated, counterexample)"""
    L, extra = parse(rule['lhs'])
    R, _ = parse(rule['rhs'])
    top = 'b' if isinstance(L, tuple) and (L[0] in BOOL_OPS or L[0] in CMP_OPS) else 'i'
    so = {}
    infer_sorts(L, top, so)
    infer_sorts(R, top, so)
    vs = vars_of(L)
    for v in vars_of(R):
        if v not in vs:
            return {'status': 'malformed', 'why': f'right-hand side uses unbound {v}'}
    ints = INTS + list(extra_ints)
    doms = []
    for v in vs:
        s = so.get(v, {'i'})
        if s == {'b'}:
            doms.append(BOOLS)
        elif s == {'i'}:
            doms.append(ints)
        else:
            doms.append(BOOLS)    # used both ways: only booleans fit
    cx = Ctx({})
    n = 0
    # Constant folding pre-empts rules: a non-leaf sub-term whose variables are all known constants is folded to a
    # leaf (and its node pruned, see union_constant) before any pattern can match it. Variables are known constants
    # exactly when a side condition (is_not_zero, value_cmp family) requires it.
    const_vars = {a for c in rule['conds'] if c['fn'] == 'is_not_zero' or c['fn'] in VALUE_CMP for a in c['args']}

    def folded(t):
        if not isinstance(t, tuple):
            return False
        vs_ = vars_of(t)
        if vs_ and all(v in const_vars for v in vs_):
            return True
        return any(folded(x) for x in t[1:])
    if const_vars and folded(L):
        return {'status': 'never-applicable', 'why': 'every match of the left-hand side contains a constant sub-term that '
                f'constant folding replaces first (constant variables: {sorted(const_vars)})'}
    for vals in itertools.product(*doms):
        env = dict(zip(vs, vals))
        ok = True
        for c in rule['conds']:
            a = c['args']
            if c['fn'] == 'is_not_zero':
                x = env[a[0]]
                ok &= (x is N) or (x is True) or (isinstance(x, int) and not isinstance(x, bool) and x != 0)
            elif c['fn'] in VALUE_CMP:
                x, y = env[a[0]], env[a[1]]
                # both constants of the same variant; Null compares equal to Null
                if (x is N) != (y is N) or type(x) is not type(y):
                    ok = False
                elif x is N:
                    ok &= c['fn'] in ('is_greater_than_or_equal', 'is_less_than_or_equal')
                else:
                    ok &= VALUE_CMP[c['fn']](x, y)
            else:
                return {'status': 'unmodelled', 'why': c['fn']}
        if not ok:
            continue
        try:
            lv = alg.ev(L, env, cx)
        except Malformed:
            continue
        n += 1
        try:
            rv = alg.ev(R, env, cx)
        except Malformed as e:
            return {'status': 'violation', 'evaluated': n, 'cex': {'env': {k: fmt(v) for k, v in env.items()}, 'lhs': fmt(lv),
                                                                     'rhs': f'ill-formed: {e}'}}
        if canon(lv) != canon(rv):
            return {'status': 'violation', 'evaluated': n,
                    'cex': {'env': {k: fmt(v) for k, v in env.items()}, 'lhs': fmt(lv), 'rhs': fmt(rv)}}
    return {'status': 'ok', 'evaluated': n, 'trailing': extra}


def fmt(v):
    return 'NULL' if v is N else (str(v).lower() if isinstance(v, bool) else str(v))


# ---- plan rules -----------------------------------------------------------------------------------------------
def check_plan(rule, seed, inst_limit, db_limit, thorough=False):
    """returns dict(status, evaluated, nontrivial, per_type counterexamples, samples)"""
    rng = random.Random(f'{seed}:{rule["name"]}')
    try:
        L, extra = parse(rule['lhs'])
    except Malformed as e:
        return {'status': 'malformed', 'why': str(e)}
    proto = Ctx({name: (cols, []) for name, cols in TABLES})
    g = Gen(proto, rng, thorough)
    expr_rooted = isinstance(L, tuple) and L and L[0] in EXPR_SIG and L[0] not in SIG
    try:
        if expr_rooted:
            # an expression rule among the plan rules (e.g. IN -> EXISTS): evaluate it per row of an outer relation t1
            outer_cols = TABLES[0][1]
            insts = g.sample(lambda: g._gen(L, ('bool', None), outer_cols, {}, (TABLES[0][0],)), inst_limit)
        else:
            insts = g.instantiate(L, inst_limit)
    except Unsupported as e:
        return {'status': 'unsupported', 'why': str(e)}
    evaluated = nontrivial = skipped = 0
    cex = {}
    samples = []
    exhaustive_db = True
    for term, b, used in insts:
        # side conditions
        try:
            if not all(cond_holds(c, b, proto) for c in rule['conds']):
                continue
        except Unmodelled as e:
            return {'status': 'unmodelled', 'why': str(e)}
        except Malformed:
            skipped += 1
            continue
        try:
            rhs = apply_rhs(rule, b, proto)
        except Unmodelled as e:
            return {'status': 'unmodelled', 'why': f'applier {e}'}
        except Malformed as e:
            # is the LHS well-formed at all? if so, an un-buildable RHS is a defect of the rule
            try:
                alg.rel(term, {}, proto)
            except Malformed:
                skipped += 1
                continue
            key = variant_key(b)
            cex.setdefault(key, {'inst': show(term), 'problem': f'right-hand side cannot be built: {e}'})
            continue
        tables = sorted({t for t in used})
        for db, exh in databases(tables, rng, db_limit, max_rows=3 if thorough else 2):
            exhaustive_db &= exh
            cx = Ctx(db)
            try:
                if expr_rooted:
                    lvals = eval_per_row(term, cx)
                else:
                    alg.rel(term, {}, cx)
            except Malformed:
                skipped += 1
                break            # ill-formed LHS instantiation: not counted against the rule
            evaluated += 1
            try:
                if expr_rooted:
                    rvals = eval_per_row(rhs, cx)
                    diff = None if lvals == rvals else f'values differ per outer row: {lvals} vs {rvals}'
                else:
                    diff = compare(term, rhs, cx)
            except Malformed as e:
                diff = f'right-hand side is ill-formed: {e}'
            if any(len(rows) for _, rows in db.values()):
                nontrivial += 1
            if diff:
                key = variant_key(b)
                if key not in cex:
                    cex[key] = {'inst': show(term), 'rhs': show(rhs), 'db': {t: rows for t, (_, rows) in db.items()},
                                'problem': diff}
                break
        if len(samples) < 2:
            samples.append({'lhs': show(term), 'rhs': show(rhs)})
    status = 'violation' if cex else ('ok' if evaluated else 'vacuous')
    return {'status': status, 'evaluated': evaluated, 'nontrivial': nontrivial, 'skipped_illformed': skipped,
            'instantiations': len(insts), 'cex': cex, 'samples': samples, 'exhaustive_db': exhaustive_db, 'trailing': extra}


def eval_per_row(expr, cx):
    cols, rows = cx.db[TABLES[0][0]]
    return [canon(alg.ev(expr, dict(zip(cols, r)), cx)) for r in rows]


def variant_key(b):
    """findings are keyed by rule name plus the join/apply type bound by the pattern, when there is one"""
    for v in ('?type',):
        if v in b:
            return b[v]
    return ''
