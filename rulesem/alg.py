"""Reference algebra for risinglight's plan language (Engine B, trusted base).

Terms are s-expressions: atoms are str, applications are tuples (op, arg...). SQL semantics: three-valued
logic, NULL = None, integer division truncating, x/0 = x%0 = NULL, aggregates skip NULLs, NULL never equals
NULL in join keys, outer joins pad with NULL. Relations are (schema, rows): schema is a tuple of terms (the
expression each column was produced by), rows a list of tuples. A parent refers to a child's column by the same
term (this mirrors `resolve_column_index_on_schema`)."""
import re

N = None
JOIN_TYPES = ('inner', 'left_outer', 'right_outer', 'full_outer', 'semi', 'anti')
APPLY_TYPES = ('inner', 'left_outer', 'semi', 'anti')
CMP = ('=', '<>', '>', '<', '>=', '<=')
ARITH = ('+', '-', '*', '/', '%')
AGGS = ('count', 'sum', 'min', 'max', 'first', 'last', 'count-distinct', 'avg')


class Malformed(Exception):
    """the term is not a well-formed plan/expression (dangling column, wrong arity, ...)"""


def parse(s):
    toks = re.findall(r'\(|\)|[^\s()]+', s)
    pos = 0

    def p():
        nonlocal pos
        if pos >= len(toks):
            raise Malformed('unexpected end of pattern')
        t = toks[pos]
        pos += 1
        if t == '(':
            items = []
            while pos < len(toks) and toks[pos] != ')':
                items.append(p())
            if pos >= len(toks):
                raise Malformed('unbalanced pattern')
            pos += 1
            return tuple(items)
        if t == ')':
            raise Malformed('unexpected )')
        return t
    term = p()
    extra = toks[pos:]
    return term, extra   # egg tolerates trailing tokens; reported by the caller


def show(t):
    if isinstance(t, tuple):
        return '(' + ' '.join(show(x) for x in t) + ')'
    return str(t)


def is_var(t):
    return isinstance(t, str) and t.startswith('?')


def subst(t, b):
    if is_var(t):
        if t not in b:
            raise Malformed(f'unbound variable {t} in right-hand side')
        return b[t]
    if isinstance(t, tuple):
        return tuple(subst(x, b) for x in t)
    return t


def vars_of(t, out=None):
    out = out if out is not None else []
    if is_var(t):
        if t not in out:
            out.append(t)
    elif isinstance(t, tuple):
        for x in t:
            vars_of(x, out)
    return out


# ---- scalar semantics ------------------------------------------------------------------------------------
def and3(a, b):
    if a is False or b is False:
        return False
    if a is N or b is N:
        return N
    return True


def or3(a, b):
    if a is True or b is True:
        return True
    if a is N or b is N:
        return N
    return False


def idiv(a, b):
    if b == 0:
        return N
    q = abs(a) // abs(b)
    return q if (a < 0) == (b < 0) else -q


def irem(a, b):
    if b == 0:
        return N
    return a - b * idiv(a, b)


def atom_value(t):
    if t == 'true':
        return True
    if t == 'false':
        return False
    if t == 'null':
        return N
    if re.fullmatch(r'-?\d+', t):
        return int(t)
    if len(t) >= 2 and t[0] == "'" and t[-1] == "'":
        return t[1:-1]
    raise Malformed(f'unknown atom {t}')


def is_const_atom(t):
    return isinstance(t, str) and (t in ('true', 'false', 'null') or re.fullmatch(r'-?\d+', t) is not None)


class Ctx:
    """evaluation context: database contents and the set of base column names"""

    def __init__(self, db):
        self.db = db          # table -> (cols tuple, rows list)
        self.base_cols = {c for cols, _ in db.values() for c in cols}


def ev(t, env, cx):
    """value of expression term t in row environment env (term -> value)"""
    if t in env:
        return env[t]
    if isinstance(t, str):
        if t in cx.base_cols:
            raise Malformed(f'column {t} is not produced by the input')
        if is_var(t):
            raise Malformed(f'unbound variable {t}')
        return atom_value(t)
    op = t[0]
    n = len(t) - 1
    if op == 'and' and n == 2:
        return and3(boolv(ev(t[1], env, cx)), boolv(ev(t[2], env, cx)))
    if op == 'or' and n == 2:
        return or3(boolv(ev(t[1], env, cx)), boolv(ev(t[2], env, cx)))
    if op == 'not' and n == 1:
        a = boolv(ev(t[1], env, cx))
        return N if a is N else (not a)
    if op == 'isnull' and n == 1:
        return ev(t[1], env, cx) is N
    if op == 'if' and n == 3:
        c = boolv(ev(t[1], env, cx))
        return ev(t[2], env, cx) if c is True else ev(t[3], env, cx)
    if op in ('ref', 'desc') and n == 1:
        return ev(t[1], env, cx)
    if op == '-' and n == 1:
        a = ev(t[1], env, cx)
        return N if a is N else -intv(a)
    if op in CMP and n == 2:
        a, b = ev(t[1], env, cx), ev(t[2], env, cx)
        if a is N or b is N:
            return N
        if type(a) is not type(b):
            raise Malformed(f'comparison of {type(a).__name__} with {type(b).__name__}')
        return {'=': a == b, '<>': a != b, '>': a > b, '<': a < b, '>=': a >= b, '<=': a <= b}[op]
    if op in ARITH and n == 2:
        a, b = ev(t[1], env, cx), ev(t[2], env, cx)
        if a is N or b is N:
            return N
        a, b = intv(a), intv(b)
        return {'+': lambda: a + b, '-': lambda: a - b, '*': lambda: a * b, '/': lambda: idiv(a, b),
                '%': lambda: irem(a, b)}[op]()
    if op == 'exists' and n == 1:
        return len(rel(t[1], env, cx)[1]) > 0
    if op == 'in' and n == 2:
        v = ev(t[1], env, cx)
        sch, rows = rel(t[2], env, cx)
        if not sch:
            raise Malformed('IN subquery without columns')
        vals = [r[0] for r in rows]
        if v is not N and any(x is not N and x == v for x in vals):
            return True
        if not vals:
            return False
        if v is N or any(x is N for x in vals):
            return N
        return False
    if op in AGGS:
        raise Malformed(f'aggregate {op} outside an aggregation')
    raise Malformed(f'unknown operator {op}/{n}')


def boolv(v):
    if v is N or isinstance(v, bool):
        return v
    raise Malformed('boolean expected')


def intv(v):
    if isinstance(v, bool) or not isinstance(v, int):
        raise Malformed('integer expected')
    return v


# ---- relational semantics ----------------------------------------------------------------------------------
def schema_of(t, cx):
    if not isinstance(t, tuple):
        raise Malformed(f'not a plan: {t}')
    op = t[0]
    if op == 'scan':
        return list_items(t[2])
    if op in ('filter', 'order'):
        return schema_of(t[2], cx)
    if op == 'window':
        return schema_of(t[2], cx) + list_items(t[1])
    if op == 'limit':
        return schema_of(t[3], cx)
    if op == 'topn':
        return schema_of(t[4], cx)
    if op == 'empty':
        return schema_of(t[1], cx)
    if op == 'proj':
        return list_items(t[1])
    if op == 'join':
        l, r = schema_of(t[3], cx), schema_of(t[4], cx)
        return l if t[1] in ('semi', 'anti') else l + r
    if op in ('hashjoin', 'mergejoin'):
        l, r = schema_of(t[5], cx), schema_of(t[6], cx)
        return l if t[1] in ('semi', 'anti') else l + r
    if op == 'apply':
        l, r = schema_of(t[2], cx), schema_of(t[3], cx)
        return l if t[1] in ('semi', 'anti') else l + r
    if op == 'agg':
        return list_items(t[1])
    if op in ('hashagg', 'sortagg'):
        return list_items(t[1]) + list_items(t[2])
    raise Malformed(f'not a plan operator: {op}')


def list_items(t):
    if isinstance(t, tuple) and t and t[0] == 'list':
        return tuple(t[1:])
    raise Malformed(f'list expected, got {show(t)}')


def arity(t, n):
    if len(t) - 1 != n:
        raise Malformed(f'{t[0]} expects {n} arguments, got {len(t) - 1}')


def sql_eq(a, b):
    return a is not N and b is not N and a == b


def sort_key(v):
    # DataValue's derived order: Null is the smallest value
    return (0, 0) if v is N else (1, v)


def agg_value(a, rows_env, cx):
    if not isinstance(a, tuple) or a[0] not in AGGS:
        raise Malformed(f'not an aggregate: {show(a)}')
    vals = [ev(a[1], e, cx) for e in rows_env]
    nn = [v for v in vals if v is not N]
    f = a[0]
    if f == 'count':
        return len(nn)
    if f == 'count-distinct':
        return len(set(nn))
    if f == 'sum':
        return sum(intv(v) for v in nn) if nn else N
    if f == 'min':
        return min(nn) if nn else N
    if f == 'max':
        return max(nn) if nn else N
    if f == 'first':
        return nn[0] if nn else N
    if f == 'last':
        return nn[-1] if nn else N
    if f == 'avg':
        return idiv(sum(intv(v) for v in nn), len(nn)) if nn else N
    raise Malformed(f)


def rel(t, outer, cx):
    """evaluate plan term t; `outer` is the environment of an enclosing (correlated) row"""
    if not isinstance(t, tuple):
        raise Malformed(f'not a plan: {t}')
    op = t[0]
    if op == 'scan':
        arity(t, 3)
        if t[1] not in cx.db:
            raise Malformed(f'unknown table {t[1]}')
        cols, rows = cx.db[t[1]]
        want = list_items(t[2])
        for c in want:
            if c not in cols:
                raise Malformed(f'table {t[1]} has no column {c}')
        out = []
        for r in rows:
            env = dict(outer)
            env.update(zip(cols, r))
            if t[3] == 'true' or boolv(ev(t[3], env, cx)) is True:
                out.append(tuple(env[c] for c in want))
        return want, out
    if op == 'filter':
        arity(t, 2)
        sch, rows = rel(t[2], outer, cx)
        out = []
        for r in rows:
            env = dict(outer)
            env.update(zip(sch, r))
            if boolv(ev(t[1], env, cx)) is True:
                out.append(r)
        return sch, out
    if op == 'proj':
        arity(t, 2)
        sch, rows = rel(t[2], outer, cx)
        items = list_items(t[1])
        out = []
        for r in rows:
            env = dict(outer)
            env.update(zip(sch, r))
            out.append(tuple(ev(e, env, cx) for e in items))
        if not rows:
            env = dict(outer)
            env.update((c, N) for c in sch)
            for e in items:
                ev(e, env, cx)     # well-formedness even on empty input
        return items, out
    if op == 'order':
        arity(t, 2)
        sch, rows = rel(t[2], outer, cx)
        return sch, sort_rows(list_items(t[1]), sch, rows, outer, cx)
    if op == 'limit':
        arity(t, 3)
        sch, rows = rel(t[3], outer, cx)
        return sch, limit_rows(t[1], t[2], rows)
    if op == 'topn':
        arity(t, 4)
        sch, rows = rel(t[4], outer, cx)
        return sch, limit_rows(t[1], t[2], sort_rows(list_items(t[3]), sch, rows, outer, cx))
    if op == 'empty':
        arity(t, 1)
        return schema_of(t[1], cx), []
    if op == 'window':
        arity(t, 2)
        if list_items(t[1]):
            raise Malformed('window functions are not modelled')
        return rel(t[2], outer, cx)
    if op == 'join':
        arity(t, 4)
        return join(t[1], lambda env: boolv(ev(t[2], env, cx)) is True, t[3], t[4], outer, cx)
    if op in ('hashjoin', 'mergejoin'):
        arity(t, 6)
        lk, rk = list_items(t[3]), list_items(t[4])
        if len(lk) != len(rk):
            raise Malformed('join key lists differ in length')
        lsch, rsch = schema_of(t[5], cx), schema_of(t[6], cx)

        def cond(env):
            # keys: left keys are resolved against the left input, right keys against the right input
            lenv = {k: v for k, v in env.items() if k in lsch or k in outer}
            renv = {k: v for k, v in env.items() if k in rsch or k in outer}
            for a, b in zip(lk, rk):
                if not sql_eq(ev(a, lenv, cx), ev(b, renv, cx)):
                    return False
            return boolv(ev(t[2], env, cx)) is True
        return join(t[1], cond, t[5], t[6], outer, cx)
    if op == 'apply':
        arity(t, 3)
        ty = t[1]
        if ty not in APPLY_TYPES:
            raise Malformed(f'apply type {ty}')
        lsch, lrows = rel(t[2], outer, cx)
        rsch = schema_of(t[3], cx)
        out = []
        for lr in lrows:
            env = dict(outer)
            env.update(zip(lsch, lr))
            _, rrows = rel(t[3], env, cx)
            if ty == 'inner':
                out += [lr + rr for rr in rrows]
            elif ty == 'left_outer':
                out += [lr + rr for rr in rrows] or [lr + (N,) * len(rsch)]
            elif ty == 'semi':
                out += [lr] if rrows else []
            else:
                out += [] if rrows else [lr]
        if not lrows:
            env = dict(outer)
            env.update((c, N) for c in lsch)
            rel(t[3], env, cx)
        return (lsch if ty in ('semi', 'anti') else lsch + rsch), out
    if op == 'agg':
        arity(t, 2)
        sch, rows = rel(t[2], outer, cx)
        envs = [dict(outer, **dict(zip(sch, r))) for r in rows]
        aggs = list_items(t[1])
        check_aggs(aggs, sch, outer, cx)
        return aggs, [tuple(agg_value(a, envs, cx) for a in aggs)]
    if op in ('hashagg', 'sortagg'):
        arity(t, 3)
        sch, rows = rel(t[3], outer, cx)
        keys, aggs = list_items(t[1]), list_items(t[2])
        check_aggs(aggs, sch, outer, cx)
        groups = {}
        order = []
        for r in rows:
            env = dict(outer)
            env.update(zip(sch, r))
            k = tuple(ev(e, env, cx) for e in keys)
            if k not in groups:
                groups[k] = []
                order.append(k)
            groups[k].append(env)
        if not rows:
            env = dict(outer)
            env.update((c, N) for c in sch)
            for e in keys:
                ev(e, env, cx)
        return keys + aggs, [k + tuple(agg_value(a, groups[k], cx) for a in aggs) for k in order]
    raise Malformed(f'not a plan operator: {op}')


def check_aggs(aggs, sch, outer, cx):
    env = dict(outer)
    env.update((c, N) for c in sch)
    for a in aggs:
        if not isinstance(a, tuple) or a[0] not in AGGS or len(a) != 2:
            raise Malformed(f'not an aggregate: {show(a)}')
        ev(a[1], env, cx)


def sort_rows(keys, sch, rows, outer, cx):
    dec = []
    for r in rows:
        env = dict(outer)
        env.update(zip(sch, r))
        dec.append(([ev(k[1] if isinstance(k, tuple) and k[0] == 'desc' else k, env, cx) for k in keys], r))
    if not rows:
        env = dict(outer)
        env.update((c, N) for c in sch)
        for k in keys:
            ev(k, env, cx)
    # stable multi-key sort, last key first
    for i in reversed(range(len(keys))):
        desc = isinstance(keys[i], tuple) and keys[i][0] == 'desc'
        dec.sort(key=lambda kr: sort_key(kr[0][i]), reverse=desc)
    return [r for _, r in dec]


def limit_rows(limit, offset, rows):
    off = atom_value(offset) if isinstance(offset, str) else None
    lim = atom_value(limit) if isinstance(limit, str) else None
    if off is N or not isinstance(off, int) or isinstance(off, bool) or off < 0:
        raise Malformed('offset must be a non-negative constant')
    if lim is N:
        return rows[off:]
    if isinstance(lim, bool) or not isinstance(lim, int) or lim < 0:
        raise Malformed('limit must be a non-negative constant or null')
    return rows[off:off + lim]


def join(ty, cond, lt, rt, outer, cx):
    if ty not in JOIN_TYPES:
        raise Malformed(f'join type {ty}')
    lsch, lrows = rel(lt, outer, cx)
    rsch, rrows = rel(rt, outer, cx)
    if set(lsch) & set(rsch):
        raise Malformed('join inputs share a column')
    out = []
    rmatched = [False] * len(rrows)
    # well-formedness of the condition even on empty inputs
    env0 = dict(outer)
    env0.update((c, N) for c in lsch + rsch)
    cond(env0)
    for lr in lrows:
        m = False
        for j, rr in enumerate(rrows):
            env = dict(outer)
            env.update(zip(lsch, lr))
            env.update(zip(rsch, rr))
            if cond(env):
                m = True
                rmatched[j] = True
                if ty in ('inner', 'left_outer', 'right_outer', 'full_outer'):
                    out.append(lr + rr)
        if ty == 'semi' and m:
            out.append(lr)
        if ty == 'anti' and not m:
            out.append(lr)
        if ty in ('left_outer', 'full_outer') and not m:
            out.append(lr + (N,) * len(rsch))
    if ty in ('right_outer', 'full_outer'):
        for j, rr in enumerate(rrows):
            if not rmatched[j]:
                out.append((N,) * len(lsch) + rr)
    return (lsch if ty in ('semi', 'anti') else lsch + rsch), out


# ---- analyses used by side conditions ---------------------------------------------------------------------
def columns(t, cx):
    """analyze_columns: all column leaves of the term (a plan contributes the columns it mentions)"""
    if isinstance(t, str):
        return {t} if t in cx.base_cols else set()
    out = set()
    for x in t[1:] if t and isinstance(t[0], str) else t:
        out |= columns(x, cx)
    return out


def orderby(t, cx, sorted_scan=False):
    """analyze_order: the keys a plan's output is known to be ordered by"""
    if not isinstance(t, tuple):
        return ()
    op = t[0]
    if op == 'order':
        return list_items(t[1])
    if op == 'topn':
        return list_items(t[3])
    if op in ('proj', 'filter', 'window'):
        return orderby(t[2], cx, sorted_scan)
    if op == 'limit':
        return orderby(t[3], cx, sorted_scan)
    if op == 'mergejoin':
        # only a join that pads no unmatched left row keeps the right input's order (C12-R4 ties this set to the Rust arm)
        return orderby(t[6], cx, sorted_scan) if t[1] in ('inner', 'right_outer') else ()
    if op == 'sortagg':
        return orderby(t[3], cx, sorted_scan)
    return ()
