"""Instantiation of rewrite-rule left-hand sides (Engine B).

Every pattern variable gets a *role* from the operator position it occurs in (never from its name); roles are
filled from small candidate sets built over the schemas in scope. Generation is inside-out so that the scope of
an expression variable is the schema of the already instantiated input(s)."""
import itertools
import random

from .alg import (Malformed, is_var, schema_of, JOIN_TYPES, APPLY_TYPES, CMP, ARITH, AGGS, show, list_items,
                  is_const_atom)

TABLES = [('t1', ('a', 'b')), ('t2', ('c', 'd')), ('t3', ('e', 'f'))]

# operator -> roles of its arguments. A role is (kind, scope) where scope lists the argument positions whose
# schema is visible to an expression at that position ('outer' = the enclosing correlated scope is always visible)
SIG = {
    'filter': [('bool', (2,)), ('rel', ())],
    'proj': [('exprlist', (2,)), ('rel', ())],
    'order': [('keylist', (2,)), ('rel', ())],
    'window': [('exprlist', (2,)), ('rel', ())],
    'limit': [('limit', ()), ('offset', ()), ('rel', ())],
    'topn': [('limit', ()), ('offset', ()), ('keylist', (4,)), ('rel', ())],
    'join': [('jointype', ()), ('bool', (3, 4)), ('rel', ()), ('rel', ())],
    'hashjoin': [('jointype', ()), ('bool', (5, 6)), ('exprlist', (5,)), ('exprlist', (6,)), ('rel', ()), ('rel', ())],
    'mergejoin': [('jointype', ()), ('bool', (5, 6)), ('exprlist', (5,)), ('exprlist', (6,)), ('rel', ()), ('rel', ())],
    'apply': [('applytype', ()), ('rel', ()), ('corr', (2,))],
    'agg': [('agglist', (2,)), ('rel', ())],
    'hashagg': [('exprlist', (3,)), ('agglist', (3,)), ('rel', ())],
    'sortagg': [('exprlist', (3,)), ('agglist', (3,)), ('rel', ())],
    'scan': [('table', ()), ('collist', ()), ('scanfilter', ())],
    'empty': [('rel', ())],
}
EXPR_SIG = {
    'and': ['bool', 'bool'], 'or': ['bool', 'bool'], 'not': ['bool'], 'isnull': ['expr'],
    'exists': ['corr'], 'in': ['expr', 'corr'], 'if': ['bool', 'expr', 'expr'],
}
for _o in CMP:
    EXPR_SIG[_o] = ['expr', 'expr']
for _o in ARITH:
    EXPR_SIG[_o] = ['expr', 'expr']


class Unsupported(Exception):
    """the pattern uses a construct the generator has no role for (reported as unclassified / fail closed)"""


class Gen:
    def __init__(self, cx_proto, rng, thorough=False):
        self.cx = cx_proto           # alg.Ctx with the table *schemas* (rows irrelevant here)
        self.rng = rng
        self.thorough = thorough

    # ---- candidate sets -----------------------------------------------------------------------------
    def rel_candidates(self, used):
        i = len(used)
        if i >= len(TABLES):
            raise Unsupported('more than three base relations')
        name, cols = TABLES[i]
        scan = ('scan', name, ('list',) + cols, 'true')
        out = [scan, ('order', ('list', cols[0]), scan)]
        if self.thorough:
            out.append(('filter', ('>', cols[1], '0'), scan))
            out.append(('order', ('list', ('desc', cols[0]), cols[1]), scan))
        return name, out

    def corr_candidates(self, used, outer):
        """relations that may reference the columns in `outer` (correlated sub-plans)"""
        name, plain = self.rel_candidates(used)
        scan = plain[0]
        cols = dict(TABLES)[name]
        out = [scan]
        for o in list(outer)[:2]:
            if not isinstance(o, str):
                continue
            out.append(('filter', ('=', cols[0], o), scan))
            out.append(('filter', ('>', cols[1], o), scan))
            out.append(('proj', ('list', cols[1]), ('filter', ('=', cols[0], o), scan)))
            out.append(('agg', ('list', ('count', cols[1])), ('filter', ('=', cols[0], o), scan)))
            if self.thorough:
                out.append(('agg', ('list', ('sum', cols[1])), ('filter', ('=', cols[0], o), scan)))
                out.append(('hashagg', ('list', cols[0]), ('list', ('max', cols[1])), ('filter', ('>', cols[0], o), scan)))
        return name, out

    def bool_candidates(self, scope):
        cols = [c for c in scope if isinstance(c, str)][:4] or list(scope)[:2]
        out = ['true', 'false', 'null']
        for c in cols[:3]:
            out += [('>', c, '0'), ('isnull', c), ('=', c, '1')]
        pairs = []
        if len(cols) >= 2:
            pairs.append((cols[0], cols[-1]))
            if len(cols) >= 3:
                pairs.append((cols[1], cols[-2]))
                pairs.append((cols[0], cols[1]))
        for a, b in pairs:
            out += [('=', a, b), ('>', a, b)]
        if pairs:
            a, b = pairs[0]
            out.append(('and', ('=', a, b), ('>', b, '0')))
            out.append(('or', ('isnull', a), ('=', a, b)))
        return out

    def expr_candidates(self, scope):
        cols = [c for c in scope][:4]
        out = list(cols) + ['0', '1']
        if cols and isinstance(cols[0], str):
            out.append(('+', cols[0], '1'))
        return out

    def exprlist_candidates(self, scope):
        cols = list(scope)
        out = []
        if cols:
            out.append(('list', cols[0]))
            out.append(('list',) + tuple(cols))
        if len(cols) >= 2:
            out.append(('list', cols[1], cols[0]))
            out.append(('list', cols[-1]))
            out.append(('list', cols[0], cols[1]))
        out.append(('list',))
        seen, uniq = set(), []
        for o in out:
            if o not in seen:
                seen.add(o)
                uniq.append(o)
        return uniq

    def keylist_candidates(self, scope):
        cols = list(scope)
        out = [('list',)]
        if cols:
            out += [('list', cols[0]), ('list', ('desc', cols[0]))]
        if len(cols) >= 2:
            out += [('list', cols[0], cols[1]), ('list', cols[1])]
        return out

    def agglist_candidates(self, scope):
        cols = list(scope)
        if not cols:
            return [('list',)]
        c0, c1 = cols[0], cols[-1]
        return [('list', ('count', c0)), ('list', ('sum', c1)), ('list', ('max', c1), ('count', c0)), ('list', ('min', c0))]

    # ---- generation ---------------------------------------------------------------------------------
    def instantiate(self, pat, limit):
        """yield up to `limit` (term, bindings) instantiations of a plan pattern (sampled when the space is larger)"""
        return self.sample(lambda: self._gen(pat, ('rel', None), (), {}, ()), limit)

    def sample(self, make_gen, limit):
        """all instantiations when the space is small; otherwise a seeded sample drawn by randomised restarts of the
        depth-first generator (candidate lists are shuffled per restart, a few leaves are taken from each)"""
        cap = limit * 6
        self.shuffle = False
        head = list(itertools.islice(make_gen(), cap + 1))
        if len(head) <= cap:
            return head if len(head) <= limit else self.rng.sample(head, limit)
        out, seen = [], set()
        self.shuffle = True
        tries = 0
        while len(out) < limit and tries < limit * 3:
            tries += 1
            for item in itertools.islice(make_gen(), 3):
                k = show(item[0])
                if k not in seen:
                    seen.add(k)
                    out.append(item)
        self.shuffle = False
        return out[:limit]

    def _gen(self, p, role, scope, b, used):
        """generator of (term, bindings, used_tables)"""
        kind = role[0]
        if is_var(p):
            if p in b:
                yield b[p], b, used
                return
            cands = self._candidates(kind, scope, used)
            if getattr(self, 'shuffle', False):
                cands = list(cands)
                self.rng.shuffle(cands)
            for cand, used2 in cands:
                yield cand, {**b, p: cand}, used2
            return
        if isinstance(p, str):
            yield p, b, used
            return
        op = p[0]
        if op == 'list':
            elem = {'exprlist': 'expr', 'keylist': 'key', 'agglist': 'agg', 'collist': 'col'}.get(kind)
            if elem is None:
                raise Unsupported(f'list pattern at a {kind} position')
            yield from self._gen_args(p, [(elem, scope)] * (len(p) - 1), scope, b, used)
            return
        if op in SIG and kind in ('rel', 'corr'):
            sig = SIG[op]
            if len(sig) != len(p) - 1:
                raise Unsupported(f'{op} with {len(p) - 1} arguments')
            yield from self._gen_plan(p, sig, scope, b, used)
            return
        if op in EXPR_SIG and kind in ('bool', 'expr', 'key', 'scanfilter'):
            sig = EXPR_SIG[op]
            if len(sig) != len(p) - 1:
                if op == '-' and len(p) == 2:
                    sig = ['expr']
                else:
                    raise Unsupported(f'{op} with {len(p) - 1} arguments')
            yield from self._gen_args(p, [(k, scope) for k in sig], scope, b, used)
            return
        if op == 'desc' and kind == 'key':
            yield from self._gen_args(p, [('expr', scope)], scope, b, used)
            return
        if op in AGGS and kind == 'agg':
            yield from self._gen_args(p, [('expr', scope)], scope, b, used)
            return
        raise Unsupported(f'operator {op} at a {kind} position')

    def _gen_args(self, p, roles, scope, b, used):
        def rec(i, acc, b, used):
            if i == len(roles):
                yield (p[0],) + tuple(acc), b, used
                return
            k, sc = roles[i]
            for t, b2, u2 in self._gen(p[i + 1], (k, None), sc, b, used):
                yield from rec(i + 1, acc + [t], b2, u2)
        yield from rec(0, [], b, used)

    def _gen_plan(self, p, sig, outer, b, used):
        n = len(sig)
        order = sorted(range(n), key=lambda i: {'rel': 0, 'corr': 1}.get(sig[i][0], 2))
        # positions are 1-based in SIG scopes

        def rec(j, terms, b, used):
            if j == n:
                yield (p[0],) + tuple(terms[i] for i in range(n)), b, used
                return
            i = order[j]
            kind, sc = sig[i]
            scope = tuple(outer)
            for pos in sc:
                if (pos - 1) not in terms:
                    raise Unsupported('scope provider not instantiated')
                try:
                    scope = tuple(schema_of(terms[pos - 1], self.cx)) + scope
                except Malformed:
                    return
            if kind == 'rel':
                scope = tuple(outer)
            if p[0] == 'scan' and kind in ('collist', 'scanfilter') and 0 in terms and isinstance(terms[0], str):
                scope = tuple(dict(TABLES).get(terms[0], ())) + tuple(outer)
            for t, b2, u2 in self._gen(p[i + 1], (kind, None), scope, b, used):
                yield from rec(j + 1, {**terms, i: t}, b2, u2)
        yield from rec(0, {}, b, used)

    def _candidates(self, kind, scope, used):
        if kind == 'rel':
            name, cands = self.rel_candidates(used)
            for c in cands:
                yield c, used + (name,)
        elif kind == 'corr':
            name, cands = self.corr_candidates(used, scope)
            for c in cands:
                yield c, used + (name,)
        elif kind in ('bool', 'scanfilter'):
            for c in self.bool_candidates(scope):
                yield c, used
        elif kind in ('expr', 'col'):
            for c in self.expr_candidates(scope):
                yield c, used
        elif kind == 'key':
            for c in list(scope)[:2]:
                yield c, used
                yield ('desc', c), used
        elif kind == 'agg':
            for c in list(scope)[:2]:
                yield ('count', c), used
                yield ('sum', c), used
        elif kind == 'exprlist':
            for c in self.exprlist_candidates(scope):
                yield c, used
        elif kind == 'keylist':
            for c in self.keylist_candidates(scope):
                yield c, used
        elif kind == 'agglist':
            for c in self.agglist_candidates(scope):
                yield c, used
        elif kind == 'limit':
            for c in ('null', '0', '1', '2'):
                yield c, used
        elif kind == 'offset':
            for c in ('0', '1'):
                yield c, used
        elif kind == 'jointype':
            for c in JOIN_TYPES:
                yield c, used
        elif kind == 'applytype':
            for c in APPLY_TYPES:
                yield c, used
        elif kind == 'table':
            if len(used) >= len(TABLES):
                raise Unsupported('more than three base relations')
            yield TABLES[len(used)][0], used + (TABLES[len(used)][0],)
        elif kind == 'collist':
            # columns of the table bound to the scan: resolved by the caller through `used`
            name = used[-1] if used else TABLES[0][0]
            cols = dict(TABLES)[name]
            for c in (('list',) + cols, ('list', cols[0]), ('list', cols[1], cols[0]), ('list', cols[1])):
                yield c, used
        else:
            raise Unsupported(f'no candidates for role {kind}')


# ---- database contents -------------------------------------------------------------------------------------
VALUES = (None, 0, 1)


def contents(max_rows, values=VALUES):
    """all multisets of at most max_rows rows over values^2, as lists of tuples"""
    rows = list(itertools.product(values, repeat=2))
    out = [[]]
    for n in range(1, max_rows + 1):
        for combo in itertools.combinations_with_replacement(rows, n):
            out.append(list(combo))
    return out


def databases(tables, rng, limit, max_rows=2, values=VALUES):
    """yield up to `limit` databases for the given table names (exhaustive when the space is small enough)"""
    pool = contents(max_rows, values)
    space = len(pool) ** len(tables)
    cols = dict(TABLES)
    if space <= limit:
        for combo in itertools.product(pool, repeat=len(tables)):
            yield {t: (cols[t], list(c)) for t, c in zip(tables, combo)}, True
    else:
        for _ in range(limit):
            yield {t: (cols[t], list(rng.choice(pool))) for t in tables}, False
