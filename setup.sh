#!/bin/bash
# Build the verification engines offline. Idempotent.
set -euo pipefail
cd "$(dirname "$0")"
exec python3 lib/setup.py "$@"
