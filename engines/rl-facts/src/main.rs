//! rl-facts: a rustc_private driver that dumps MIR-level facts of the crate being compiled.
//!
//! Used as RUSTC_WORKSPACE_WRAPPER under `cargo +nightly check`. For every body owner of the
//! local crate it reads `mir_promoted` (pre state-machine transform, so `async fn` and
//! `#[try_stream]` coroutines are still structured CFGs) and writes one JSON object per line to
//! `$RL_FACTS_OUT/<crate>-<pid>.jsonl` (one write per process). Nothing is executed or linked.
#![feature(rustc_private)]
#![allow(clippy::all)]
extern crate rustc_abi;
extern crate rustc_driver;
extern crate rustc_hir;
extern crate rustc_interface;
extern crate rustc_lint;
extern crate rustc_data_structures;
extern crate rustc_index;
extern crate rustc_middle;
extern crate rustc_session;
extern crate rustc_span;

use std::cell::RefCell;
use std::collections::HashMap;
use std::fmt::Write as _;
use std::sync::OnceLock;

use rustc_driver::Compilation;
use rustc_hir::def::DefKind;
use rustc_hir::def_id::{DefId, LocalDefId};
use rustc_interface::interface::Compiler;
use rustc_middle::mir::{
    AggregateKind, Body, Const, Operand, Place, PlaceElem, Rvalue, StatementKind, TerminatorKind,
    VarDebugInfoContents,
};
use rustc_middle::ty::print::with_no_trimmed_paths;
use rustc_middle::ty::{self, Ty, TyCtxt};
use rustc_span::Span;

fn esc(s: &str) -> String {
    let mut o = String::with_capacity(s.len() + 2);
    o.push('"');
    for c in s.chars() {
        match c {
            '"' => o.push_str("\\\""),
            '\\' => o.push_str("\\\\"),
            '\n' => o.push_str("\\n"),
            '\r' => o.push_str("\\r"),
            '\t' => o.push_str("\\t"),
            c if (c as u32) < 0x20 => {
                let _ = write!(o, "\\u{:04x}", c as u32);
            }
            c => o.push(c),
        }
    }
    o.push('"');
    o
}

struct Cx<'tcx> {
    tcx: TyCtxt<'tcx>,
}

impl<'tcx> Cx<'tcx> {
    fn path(&self, d: DefId) -> String {
        self.tcx.def_path_str(d)
    }
    fn loc(&self, sp: Span) -> String {
        let sm = self.tcx.sess.source_map();
        let lo = sm.lookup_char_pos(sp.lo());
        format!("{}:{}", lo.file.name.prefer_local_unconditionally(), lo.line)
    }
    /// location of the outermost call site that lies in user source
    fn root_loc(&self, sp: Span) -> String {
        self.loc(sp.source_callsite())
    }
    fn ty(&self, t: Ty<'tcx>) -> String {
        format!("{t}")
    }

    fn place(&self, body: &Body<'tcx>, p: &Place<'tcx>) -> String {
        let tcx = self.tcx;
        let mut s = format!("{{\"l\":{},\"p\":[", p.local.as_usize());
        let mut pty = rustc_middle::mir::PlaceTy::from_ty(body.local_decls[p.local].ty);
        let mut first = true;
        for elem in p.projection.iter() {
            let e = match elem {
                PlaceElem::Deref => "*".to_string(),
                PlaceElem::Field(f, _) => match pty.ty.kind() {
                    ty::Adt(adt, _) => {
                        let v = match pty.variant_index {
                            Some(v) => adt.variant(v),
                            None => adt.non_enum_variant(),
                        };
                        format!("f:{}::{}", self.path(adt.did()), v.fields[f].name)
                    }
                    _ => format!("f:{}", f.as_usize()),
                },
                PlaceElem::Downcast(name, idx) => match name {
                    Some(n) => format!("as:{}", n),
                    None => format!("as:#{}", idx.as_usize()),
                },
                PlaceElem::Index(_) => "[]".to_string(),
                PlaceElem::ConstantIndex { offset, from_end, .. } => {
                    format!("[{}{}]", if from_end { "-" } else { "" }, offset)
                }
                PlaceElem::Subslice { .. } => "[..]".to_string(),
                _ => "?".to_string(),
            };
            if !first {
                s.push(',');
            }
            first = false;
            s.push_str(&esc(&e));
            pty = pty.projection_ty(tcx, elem);
        }
        s.push_str("]}");
        s
    }

    fn operand(&self, body: &Body<'tcx>, caller: DefId, o: &Operand<'tcx>) -> String {
        match o {
            Operand::Copy(p) => format!("{{\"k\":\"copy\",\"pl\":{}}}", self.place(body, p)),
            Operand::Move(p) => format!("{{\"k\":\"move\",\"pl\":{}}}", self.place(body, p)),
            Operand::Constant(c) => {
                let t = c.const_.ty();
                let mut s = format!("{{\"k\":\"const\",\"ty\":{}", esc(&self.ty(t)));
                if let ty::FnDef(did, args) = t.kind() {
                    let _ = write!(s, ",\"fn\":{}", esc(&self.path(*did)));
                    if let Some(r) = self.resolve(caller, *did, args) {
                        let _ = write!(s, ",\"res\":{}", esc(&r));
                    }
                } else {
                    let v = match c.const_ {
                        Const::Val(..) | Const::Ty(..) => format!("{}", c.const_),
                        Const::Unevaluated(u, _) => match u.promoted {
                            Some(p) => format!("promoted[{}]", p.as_usize()),
                            None => format!("uneval:{}", self.path(u.def)),
                        },
                    };
                    let _ = write!(s, ",\"v\":{}", esc(&v));
                }
                s.push('}');
                s
            }
            #[allow(unreachable_patterns)]
            _ => "{\"k\":\"other\"}".to_string(),
        }
    }

    fn resolve(&self, caller: DefId, did: DefId, args: ty::GenericArgsRef<'tcx>) -> Option<String> {
        let tcx = self.tcx;
        let env = ty::TypingEnv::post_analysis(tcx, caller);
        match ty::Instance::try_resolve(tcx, env, did, args) {
            Ok(Some(i)) => Some(self.path(i.def_id())),
            _ => None,
        }
    }

    fn rvalue(&self, body: &Body<'tcx>, caller: DefId, rv: &Rvalue<'tcx>) -> String {
        let tcx = self.tcx;
        match rv {
            Rvalue::Use(o, _) => format!("{{\"rv\":\"use\",\"op\":{}}}", self.operand(body, caller, o)),
            Rvalue::Ref(_, bk, p) => format!(
                "{{\"rv\":\"ref\",\"mut\":{},\"pl\":{}}}",
                matches!(bk, rustc_middle::mir::BorrowKind::Mut { .. }),
                self.place(body, p)
            ),
            Rvalue::RawPtr(_, p) => format!("{{\"rv\":\"rawptr\",\"pl\":{}}}", self.place(body, p)),
            Rvalue::CopyForDeref(p) => format!(
                "{{\"rv\":\"use\",\"op\":{{\"k\":\"copy\",\"pl\":{}}}}}",
                self.place(body, p)
            ),
            Rvalue::BinaryOp(op, ab) => {
                let (a, b) = &**ab;
                format!(
                    "{{\"rv\":\"binop\",\"op\":{},\"ty\":{},\"a\":{},\"b\":{}}}",
                    esc(&format!("{:?}", op)),
                    esc(&self.ty(a.ty(&body.local_decls, tcx))),
                    self.operand(body, caller, a),
                    self.operand(body, caller, b)
                )
            }
            Rvalue::UnaryOp(op, a) => format!(
                "{{\"rv\":\"unop\",\"op\":{},\"ty\":{},\"a\":{}}}",
                esc(&format!("{:?}", op)),
                esc(&self.ty(a.ty(&body.local_decls, tcx))),
                self.operand(body, caller, a)
            ),
            Rvalue::Cast(kind, o, t) => format!(
                "{{\"rv\":\"cast\",\"kind\":{},\"ty\":{},\"op\":{}}}",
                esc(&format!("{:?}", kind)),
                esc(&self.ty(*t)),
                self.operand(body, caller, o)
            ),
            Rvalue::Discriminant(p) => {
                let t = p.ty(&body.local_decls, tcx).ty;
                format!(
                    "{{\"rv\":\"discr\",\"pl\":{},\"adt\":{}}}",
                    self.place(body, p),
                    esc(&self.adt_name(t))
                )
            }
            Rvalue::Aggregate(kind, ops) => {
                let mut s = String::from("{\"rv\":\"agg\"");
                match &**kind {
                    AggregateKind::Adt(did, vidx, _, _, _) => {
                        let adt = tcx.adt_def(*did);
                        let v = adt.variant(*vidx);
                        let _ = write!(
                            s,
                            ",\"kind\":\"adt\",\"adt\":{},\"variant\":{},\"fields\":[{}]",
                            esc(&self.path(*did)),
                            esc(v.name.as_str()),
                            v.fields.iter().map(|f| esc(f.name.as_str())).collect::<Vec<_>>().join(",")
                        );
                    }
                    AggregateKind::Tuple => s.push_str(",\"kind\":\"tuple\""),
                    AggregateKind::Array(_) => s.push_str(",\"kind\":\"array\""),
                    AggregateKind::Closure(did, _) => {
                        let _ = write!(s, ",\"kind\":\"closure\",\"def\":{}", esc(&self.path(*did)));
                    }
                    AggregateKind::Coroutine(did, _) => {
                        let _ = write!(s, ",\"kind\":\"coroutine\",\"def\":{}", esc(&self.path(*did)));
                    }
                    AggregateKind::CoroutineClosure(did, _) => {
                        let _ = write!(s, ",\"kind\":\"coroutine_closure\",\"def\":{}", esc(&self.path(*did)));
                    }
                    _ => s.push_str(",\"kind\":\"other\""),
                }
                let _ = write!(
                    s,
                    ",\"ops\":[{}]}}",
                    ops.iter().map(|o| self.operand(body, caller, o)).collect::<Vec<_>>().join(",")
                );
                s
            }
            Rvalue::Repeat(o, _) => format!("{{\"rv\":\"repeat\",\"op\":{}}}", self.operand(body, caller, o)),
            other => format!("{{\"rv\":\"other\",\"dbg\":{}}}", esc(&format!("{:?}", other))),
        }
    }

    fn adt_name(&self, t: Ty<'tcx>) -> String {
        match t.kind() {
            ty::Adt(adt, _) => self.path(adt.did()),
            _ => self.ty(t),
        }
    }

    fn variant_map(&self, t: Ty<'tcx>) -> Option<String> {
        let tcx = self.tcx;
        if let ty::Adt(adt, _) = t.kind() {
            if adt.is_enum() {
                let mut parts = vec![];
                for (vidx, d) in adt.discriminants(tcx) {
                    parts.push(format!("{}:{}", esc(&d.val.to_string()), esc(adt.variant(vidx).name.as_str())));
                }
                return Some(format!("{{{}}}", parts.join(",")));
            }
        }
        None
    }

    fn dump_body(&self, def: LocalDefId, body: &Body<'tcx>, promoted: &[Body<'tcx>], out: &mut String) {
        let tcx = self.tcx;
        let did = def.to_def_id();
        let kind = tcx.def_kind(def);
        let mut s = String::new();
        let _ = write!(s, "{{\"t\":\"body\",\"fn\":{},\"kind\":{}", esc(&self.path(did)), esc(&format!("{:?}", kind)));
        // parent body (closures / coroutines / inline consts)
        let parent = tcx.typeck_root_def_id(did);
        if parent != did {
            let _ = write!(s, ",\"root\":{}", esc(&self.path(parent)));
            let p = tcx.parent(did);
            let _ = write!(s, ",\"parent\":{}", esc(&self.path(p)));
        }
        if let Some(ck) = tcx.coroutine_kind(did) {
            let _ = write!(s, ",\"coroutine\":{}", esc(&format!("{:?}", ck)));
        }
        let sp = tcx.def_span(did);
        let _ = write!(s, ",\"loc\":{},\"exp\":{}", esc(&self.root_loc(sp)), sp.from_expansion());
        if matches!(kind, DefKind::Fn | DefKind::AssocFn) {
            let _ = write!(s, ",\"vis\":{}", esc(&format!("{:?}", tcx.visibility(did))));
            let _ = write!(s, ",\"async\":{}", tcx.asyncness(did).is_async());
        }
        if matches!(kind, DefKind::AssocFn | DefKind::AssocConst { .. }) {
            let p = tcx.parent(did);
            if matches!(tcx.def_kind(p), DefKind::Impl { .. }) {
                let st = tcx.type_of(p).instantiate_identity().skip_norm_wip();
                let _ = write!(s, ",\"impl_self\":{}", esc(&self.ty(st)));
                let _ = write!(s, ",\"impl_self_adt\":{}", esc(&self.adt_name(st)));
                if let Some(tr) = tcx.impl_opt_trait_ref(p) {
                    let tr = tr.instantiate_identity().skip_norm_wip();
                    let _ = write!(s, ",\"impl_trait\":{}", esc(&self.path(tr.def_id)));
                }
                let _ = write!(s, ",\"derived\":{}", tcx.is_automatically_derived(p));
            } else if matches!(tcx.def_kind(p), DefKind::Trait) {
                let _ = write!(s, ",\"in_trait\":{}", esc(&self.path(p)));
            }
        }
        let _ = write!(s, ",\"argc\":{}", body.arg_count);
        // locals
        s.push_str(",\"locals\":[");
        for (i, d) in body.local_decls.iter().enumerate() {
            if i > 0 {
                s.push(',');
            }
            s.push_str(&esc(&self.ty(d.ty)));
        }
        s.push_str("],\"vars\":[");
        let mut first = true;
        for v in &body.var_debug_info {
            if let VarDebugInfoContents::Place(p) = &v.value {
                if !first {
                    s.push(',');
                }
                first = false;
                let _ = write!(s, "{{\"name\":{},\"pl\":{}}}", esc(v.name.as_str()), self.place(body, p));
            }
        }
        s.push_str("],\"blocks\":[");
        for (bb, data) in body.basic_blocks.iter_enumerated() {
            if bb.as_usize() > 0 {
                s.push(',');
            }
            let _ = write!(s, "{{\"cleanup\":{},\"stmts\":[", data.is_cleanup);
            let mut firsts = true;
            // remember discriminant reads in this block: local -> (adt type)
            let mut discr_of: Vec<(usize, Ty<'tcx>, String)> = vec![];
            for st in &data.statements {
                let js = match &st.kind {
                    StatementKind::Assign(b) => {
                        let (lhs, rv) = &**b;
                        if let Rvalue::Discriminant(p) = rv {
                            if lhs.projection.is_empty() {
                                discr_of.push((
                                    lhs.local.as_usize(),
                                    p.ty(&body.local_decls, tcx).ty,
                                    self.place(body, p),
                                ));
                            }
                        }
                        Some(format!(
                            "{{\"s\":\"assign\",\"ln\":{},\"lhs\":{},\"rv\":{}}}",
                            self.line(st.source_info.span),
                            self.place(body, lhs),
                            self.rvalue(body, did, rv)
                        ))
                    }
                    StatementKind::SetDiscriminant { place, variant_index } => Some(format!(
                        "{{\"s\":\"setdiscr\",\"pl\":{},\"v\":{}}}",
                        self.place(body, place),
                        variant_index.as_usize()
                    )),
                    _ => None,
                };
                if let Some(js) = js {
                    if !firsts {
                        s.push(',');
                    }
                    firsts = false;
                    s.push_str(&js);
                }
            }
            s.push_str("],\"term\":");
            let term = data.terminator();
            let tsp = term.source_info.span;
            let tj = match &term.kind {
                TerminatorKind::Goto { target } => format!("{{\"k\":\"goto\",\"t\":{}}}", target.as_usize()),
                TerminatorKind::SwitchInt { discr, targets } => {
                    let mut t = format!("{{\"k\":\"switch\",\"discr\":{}", self.operand(body, did, discr));
                    let _ = write!(
                        t,
                        ",\"targets\":[{}],\"otherwise\":{}",
                        targets.iter().map(|(v, b)| format!("[{},{}]", esc(&v.to_string()), b.as_usize())).collect::<Vec<_>>().join(","),
                        targets.otherwise().as_usize()
                    );
                    if let Some(pl) = discr.place() {
                        if let Some((_, ty_, src)) = discr_of.iter().rev().find(|(l, _, _)| *l == pl.local.as_usize()) {
                            let _ = write!(t, ",\"adt\":{},\"on\":{}", esc(&self.adt_name(*ty_)), src);
                            if let Some(vm) = self.variant_map(*ty_) {
                                let _ = write!(t, ",\"variants\":{}", vm);
                            }
                        }
                    }
                    let _ = write!(t, ",\"ty\":{}", esc(&self.ty(discr.ty(&body.local_decls, tcx))));
                    t.push('}');
                    t
                }
                TerminatorKind::Return => "{\"k\":\"return\"}".to_string(),
                TerminatorKind::Unreachable => "{\"k\":\"unreachable\"}".to_string(),
                TerminatorKind::UnwindResume => "{\"k\":\"resume\"}".to_string(),
                TerminatorKind::UnwindTerminate(_) => "{\"k\":\"terminate\"}".to_string(),
                TerminatorKind::Drop { place, target, unwind, .. } => format!(
                    "{{\"k\":\"drop\",\"pl\":{},\"t\":{},\"unwind\":{}}}",
                    self.place(body, place),
                    target.as_usize(),
                    unwind_json(unwind)
                ),
                TerminatorKind::Call { func, args, destination, target, unwind, fn_span, .. } => {
                    let mut t = String::from("{\"k\":\"call\"");
                    let fty = func.ty(&body.local_decls, tcx);
                    if let ty::FnDef(fdid, fargs) = fty.kind() {
                        let _ = write!(t, ",\"fn\":{}", esc(&self.path(*fdid)));
                        if let Some(r) = self.resolve(did, *fdid, fargs) {
                            let _ = write!(t, ",\"res\":{}", esc(&r));
                        }
                        let _ = write!(
                            t,
                            ",\"gargs\":[{}]",
                            fargs.iter().map(|a| esc(&format!("{}", a))).collect::<Vec<_>>().join(",")
                        );
                        // self type of a method call on a trait: first generic arg
                        if let Some(tr) = tcx.trait_of_assoc(*fdid) {
                            let _ = write!(t, ",\"trait\":{}", esc(&self.path(tr)));
                        }
                    } else {
                        let _ = write!(t, ",\"fnty\":{},\"func\":{}", esc(&self.ty(fty)), self.operand(body, did, func));
                    }
                    let _ = write!(
                        t,
                        ",\"args\":[{}]",
                        args.iter().map(|a| self.operand(body, did, &a.node)).collect::<Vec<_>>().join(",")
                    );
                    let _ = write!(t, ",\"dest\":{}", self.place(body, destination));
                    let _ = write!(t, ",\"dest_ty\":{}", esc(&self.ty(destination.ty(&body.local_decls, tcx).ty)));
                    match target {
                        Some(b) => {
                            let _ = write!(t, ",\"t\":{}", b.as_usize());
                        }
                        None => t.push_str(",\"t\":null"),
                    }
                    let _ = write!(t, ",\"unwind\":{}", unwind_json(unwind));
                    let _ = write!(
                        t,
                        ",\"span\":{},\"rspan\":{},\"exp\":{}}}",
                        esc(&self.loc(*fn_span)),
                        esc(&self.root_loc(tsp)),
                        tsp.from_expansion()
                    );
                    t
                }
                TerminatorKind::TailCall { .. } => "{\"k\":\"tailcall\"}".to_string(),
                TerminatorKind::Assert { cond, expected, msg, target, unwind } => format!(
                    "{{\"k\":\"assert\",\"cond\":{},\"expected\":{},\"msg\":{},\"t\":{},\"unwind\":{}}}",
                    self.operand(body, did, cond),
                    expected,
                    esc(&format!("{:?}", msg).chars().take(60).collect::<String>()),
                    target.as_usize(),
                    unwind_json(unwind)
                ),
                TerminatorKind::Yield { value, resume, drop, .. } => format!(
                    "{{\"k\":\"yield\",\"value\":{},\"t\":{},\"drop\":{},\"rspan\":{}}}",
                    self.operand(body, did, value),
                    resume.as_usize(),
                    match drop {
                        Some(d) => d.as_usize().to_string(),
                        None => "null".to_string(),
                    },
                    esc(&self.root_loc(tsp))
                ),
                TerminatorKind::CoroutineDrop => "{\"k\":\"coroutine_drop\"}".to_string(),
                TerminatorKind::FalseEdge { real_target, imaginary_target } => format!(
                    "{{\"k\":\"goto\",\"t\":{},\"imag\":{}}}",
                    real_target.as_usize(),
                    imaginary_target.as_usize()
                ),
                TerminatorKind::FalseUnwind { real_target, unwind } => format!(
                    "{{\"k\":\"goto\",\"t\":{},\"loop_head\":true,\"unwind\":{}}}",
                    real_target.as_usize(),
                    unwind_json(unwind)
                ),
                TerminatorKind::InlineAsm { .. } => "{\"k\":\"asm\"}".to_string(),
            };
            s.push_str(&tj);
            let _ = write!(s, ",\"ln\":{}}}", self.line(tsp));
        }
        s.push_str("],\"promoted\":[");
        for (pi, pb) in promoted.iter().enumerate() {
            if pi > 0 {
                s.push(',');
            }
            s.push('[');
            let mut firstp = true;
            for data in pb.basic_blocks.iter() {
                for st in &data.statements {
                    if let StatementKind::Assign(b) = &st.kind {
                        let (lhs, rv) = &**b;
                        if !firstp {
                            s.push(',');
                        }
                        firstp = false;
                        let _ = write!(
                            s,
                            "{{\"s\":\"assign\",\"lhs\":{},\"rv\":{}}}",
                            self.place(pb, lhs),
                            self.rvalue(pb, did, rv)
                        );
                    }
                }
            }
            s.push(']');
        }
        s.push_str("]}");
        out.push_str(&s);
        out.push('\n');
    }

    fn line(&self, sp: Span) -> usize {
        let sm = self.tcx.sess.source_map();
        sm.lookup_char_pos(sp.source_callsite().lo()).line
    }

    fn dump_items(&self, out: &mut String) {
        let tcx = self.tcx;
        for def in tcx.hir_crate_items(()).definitions() {
            let did = def.to_def_id();
            match tcx.def_kind(def) {
                DefKind::Struct | DefKind::Enum | DefKind::Union => {
                    let adt = tcx.adt_def(did);
                    let mut s = format!(
                        "{{\"t\":\"adt\",\"adt\":{},\"kind\":{},\"loc\":{},\"variants\":[",
                        esc(&self.path(did)),
                        esc(&format!("{:?}", adt.adt_kind())),
                        esc(&self.root_loc(tcx.def_span(did)))
                    );
                    let discrs: Vec<String> = if adt.is_enum() {
                        adt.discriminants(tcx).map(|(_, d)| d.val.to_string()).collect()
                    } else {
                        vec!["0".to_string()]
                    };
                    for (i, v) in adt.variants().iter().enumerate() {
                        if i > 0 {
                            s.push(',');
                        }
                        let _ = write!(
                            s,
                            "{{\"name\":{},\"discr\":{},\"fields\":[{}]}}",
                            esc(v.name.as_str()),
                            esc(&discrs[i]),
                            v.fields
                                .iter()
                                .map(|f| format!(
                                    "{{\"name\":{},\"ty\":{}}}",
                                    esc(f.name.as_str()),
                                    esc(&self.ty(tcx.type_of(f.did).instantiate_identity().skip_norm_wip()))
                                ))
                                .collect::<Vec<_>>()
                                .join(",")
                        );
                    }
                    s.push_str("]}");
                    out.push_str(&s);
                    out.push('\n');
                }
                DefKind::Impl { .. } => {
                    let st = tcx.type_of(did).instantiate_identity().skip_norm_wip();
                    let mut s = format!(
                        "{{\"t\":\"impl\",\"self\":{},\"self_adt\":{},\"loc\":{},\"derived\":{}",
                        esc(&self.ty(st)),
                        esc(&self.adt_name(st)),
                        esc(&self.root_loc(tcx.def_span(did))),
                        tcx.is_automatically_derived(did)
                    );
                    if let Some(tr) = tcx.impl_opt_trait_ref(did) {
                        let tr = tr.instantiate_identity().skip_norm_wip();
                        let _ = write!(s, ",\"trait\":{},\"trait_ref\":{}", esc(&self.path(tr.def_id)), esc(&format!("{}", tr)));
                    }
                    let _ = write!(
                        s,
                        ",\"items\":[{}]}}",
                        tcx.associated_item_def_ids(did).iter().map(|d| esc(&self.path(*d))).collect::<Vec<_>>().join(",")
                    );
                    out.push_str(&s);
                    out.push('\n');
                }
                DefKind::AssocConst { .. } | DefKind::Const { .. } => {
                    let g = tcx.generics_of(did);
                    if g.requires_monomorphization(tcx) {
                        continue;
                    }
                    if matches!(tcx.def_kind(tcx.parent(did)), DefKind::Trait) {
                        continue;
                    }
                    if let Ok(v) = tcx.const_eval_poly(did) {
                        let t = tcx.type_of(did).instantiate_identity().skip_norm_wip();
                        let val = match v.try_to_scalar_int() {
                            Some(si) => format!("{}", si.to_bits_unchecked()),
                            None => continue,
                        };
                        let _ = writeln!(
                            out,
                            "{{\"t\":\"const\",\"name\":{},\"ty\":{},\"bits\":{}}}",
                            esc(&self.path(did)),
                            esc(&self.ty(t)),
                            esc(&val)
                        );
                    }
                }
                _ => {}
            }
        }
        // crate-level lint levels that the rules rely on
        let lvl = tcx.lint_level_at_node(rustc_lint::unused::must_use::UNUSED_MUST_USE, rustc_hir::CRATE_HIR_ID);
        let _ = writeln!(
            out,
            "{{\"t\":\"lint\",\"lint\":\"unused_must_use\",\"level\":{}}}",
            esc(&format!("{:?}", lvl.level))
        );
    }
}

fn unwind_json(u: &rustc_middle::mir::UnwindAction) -> String {
    match u {
        rustc_middle::mir::UnwindAction::Cleanup(b) => b.as_usize().to_string(),
        _ => "null".to_string(),
    }
}

type PromotedFn = for<'tcx> fn(
    TyCtxt<'tcx>,
    LocalDefId,
) -> (
    &'tcx rustc_data_structures::steal::Steal<Body<'tcx>>,
    &'tcx rustc_data_structures::steal::Steal<rustc_index::IndexVec<rustc_middle::mir::Promoted, Body<'tcx>>>,
);
static ORIG_MIR_PROMOTED: OnceLock<PromotedFn> = OnceLock::new();
thread_local! {
    /// private copies of every body's `mir_promoted`, taken the moment the query computes it
    /// (borrowck of any body - e.g. to reveal an `async fn`'s opaque type - steals the original).
    static STORE: RefCell<HashMap<LocalDefId, (Body<'static>, Vec<Body<'static>>)>> = RefCell::new(HashMap::new());
}

fn snapshot_mir_promoted<'tcx>(
    tcx: TyCtxt<'tcx>,
    def: LocalDefId,
) -> (
    &'tcx rustc_data_structures::steal::Steal<Body<'tcx>>,
    &'tcx rustc_data_structures::steal::Steal<rustc_index::IndexVec<rustc_middle::mir::Promoted, Body<'tcx>>>,
) {
    let r = (ORIG_MIR_PROMOTED.get().expect("provider saved"))(tcx, def);
    let body: Body<'tcx> = r.0.borrow().clone();
    let proms: Vec<Body<'tcx>> = r.1.borrow().iter().cloned().collect();
    // SAFETY: the copies are only read inside `after_analysis`, while `tcx` is alive.
    let body: Body<'static> = unsafe { std::mem::transmute(body) };
    let proms: Vec<Body<'static>> = unsafe { std::mem::transmute(proms) };
    STORE.with(|s| {
        s.borrow_mut().insert(def, (body, proms));
    });
    r
}

fn override_queries(_sess: &rustc_session::Session, providers: &mut rustc_middle::util::Providers) {
    let _ = ORIG_MIR_PROMOTED.set(providers.queries.mir_promoted);
    providers.queries.mir_promoted = snapshot_mir_promoted;
}

struct Cb;
impl rustc_driver::Callbacks for Cb {
    fn config(&mut self, config: &mut rustc_interface::interface::Config) {
        if std::env::var("RL_FACTS_OUT").is_ok() {
            config.override_queries = Some(override_queries);
        }
    }
    fn after_analysis<'tcx>(&mut self, _c: &Compiler, tcx: TyCtxt<'tcx>) -> Compilation {
        let outdir = match std::env::var("RL_FACTS_OUT") {
            Ok(d) => d,
            Err(_) => return Compilation::Continue,
        };
        let krate = tcx.crate_name(rustc_hir::def_id::LOCAL_CRATE).to_string();
        if krate.starts_with("build_script") {
            return Compilation::Continue;
        }
        let mut out = String::new();
        with_no_trimmed_paths!({
            let cx = Cx { tcx };
            let ctypes: Vec<String> = tcx.crate_types().iter().map(|c| format!("{:?}", c)).collect();
            let is_test = tcx.sess.opts.test;
            let _ = writeln!(
                out,
                "{{\"t\":\"crate\",\"name\":{},\"types\":{},\"test\":{}}}",
                esc(&krate),
                esc(&ctypes.join(",")),
                is_test
            );
            // Phase 1: force `mir_promoted` of every body; the overridden provider snapshots each
            // one as it is computed, so later steals (borrowck) cannot hide a body from us.
            let mut bodies: Vec<(LocalDefId, Body<'tcx>, Vec<Body<'tcx>>)> = vec![];
            for def in tcx.hir_body_owners() {
                let _ = tcx.mir_promoted(def);
            }
            for def in tcx.hir_body_owners() {
                let got = STORE.with(|s| s.borrow_mut().remove(&def));
                match got {
                    Some((b, ps)) => {
                        // SAFETY: shrink 'static back to 'tcx (see snapshot_mir_promoted)
                        let b: Body<'tcx> = unsafe { std::mem::transmute(b) };
                        let ps: Vec<Body<'tcx>> = unsafe { std::mem::transmute(ps) };
                        bodies.push((def, b, ps));
                    }
                    None => {
                        let _ = writeln!(out, "{{\"t\":\"stolen\",\"fn\":{}}}", esc(&cx.path(def.to_def_id())));
                    }
                }
            }
            // Phase 2: facts.
            let mut n = 0usize;
            for (def, body, ps) in &bodies {
                cx.dump_body(*def, body, ps, &mut out);
                n += 1;
            }
            cx.dump_items(&mut out);
            let _ = writeln!(out, "{{\"t\":\"end\",\"bodies\":{}}}", n);
        });
        let path = format!("{}/{}-{}.jsonl", outdir, krate, std::process::id());
        std::fs::write(&path, out).expect("rl-facts: cannot write fact file");
        Compilation::Continue
    }
}

fn main() {
    let mut args: Vec<String> = std::env::args().collect();
    // RUSTC_WORKSPACE_WRAPPER passes: <wrapper> <rustc> <args...>
    if args.len() > 1 && (args[1].ends_with("rustc") || args[1].contains("/rustc")) {
        args.remove(1);
    }
    rustc_driver::run_compiler(&args, &mut Cb);
}
