//! rl-rules: lexes risinglight's rewrite-rule tables (`rw!(..)` invocations and `pushdown(..)` calls inside
//! `vec![..]`, which `syn`'s AST does not see) and prints one JSON object per rule.
//! Usage: rl-rules <file.rs>...   (nothing of risinglight is compiled or run)
use proc_macro2::{Delimiter, TokenStream, TokenTree};

fn esc(s: &str) -> String {
    let mut o = String::from("\"");
    for c in s.chars() {
        match c {
            '"' => o.push_str("\\\""),
            '\\' => o.push_str("\\\\"),
            '\n' => o.push_str("\\n"),
            '\t' => o.push_str("\\t"),
            c if (c as u32) < 0x20 => o.push_str(&format!("\\u{:04x}", c as u32)),
            c => o.push(c),
        }
    }
    o.push('"');
    o
}

/// the value of a string literal token, if it is one
fn strlit(t: &TokenTree) -> Option<String> {
    if let TokenTree::Literal(l) = t {
        let s = l.to_string();
        if let Ok(lit) = syn::parse_str::<syn::LitStr>(&s) {
            return Some(lit.value());
        }
    }
    None
}

fn parse_rw(file: &str, func: &str, line: usize, g: TokenStream, out: &mut Vec<String>) {
    let v: Vec<TokenTree> = g.into_iter().collect();
    let mut i = 0;
    let bad = |why: &str, out: &mut Vec<String>| {
        out.push(format!(
            "{{\"kind\":\"unparsed\",\"file\":{},\"fn\":{},\"line\":{},\"why\":{}}}",
            esc(file), esc(func), line, esc(why)
        ));
    };
    let name = match v.get(i).and_then(strlit) {
        Some(n) => n,
        None => return bad("no rule name", out),
    };
    i += 1;
    if !matches!(v.get(i), Some(TokenTree::Punct(p)) if p.as_char() == ';') {
        return bad("expected ;", out);
    }
    i += 1;
    let lhs = match v.get(i).and_then(strlit) {
        Some(n) => n,
        None => return bad("no lhs pattern literal", out),
    };
    i += 1;
    // =>
    if !(matches!(v.get(i), Some(TokenTree::Punct(p)) if p.as_char() == '=')
        && matches!(v.get(i + 1), Some(TokenTree::Punct(p)) if p.as_char() == '>'))
    {
        return bad("expected =>", out);
    }
    i += 2;
    let mut applier = String::new();
    let rhs;
    match v.get(i) {
        Some(t @ TokenTree::Literal(_)) => match strlit(t) {
            Some(s) => rhs = s,
            None => return bad("rhs literal is not a string", out),
        },
        Some(TokenTree::Group(g)) if g.delimiter() == Delimiter::Brace => {
            // { applier_fn("pattern") }
            let inner: Vec<TokenTree> = g.stream().into_iter().collect();
            match (inner.first(), inner.get(1)) {
                (Some(TokenTree::Ident(id)), Some(TokenTree::Group(args))) => {
                    applier = id.to_string();
                    let a: Vec<TokenTree> = args.stream().into_iter().collect();
                    match a.first().and_then(strlit) {
                        Some(s) => rhs = s,
                        None => return bad("applier argument is not a string literal", out),
                    }
                }
                _ => return bad("unrecognised applier block", out),
            }
        }
        _ => return bad("no rhs", out),
    }
    i += 1;
    // conditions: if name(args) ...
    let mut conds: Vec<String> = vec![];
    while i < v.len() {
        match &v[i] {
            TokenTree::Ident(id) if id == "if" => {
                let f = match v.get(i + 1) {
                    Some(TokenTree::Ident(f)) => f.to_string(),
                    _ => return bad("condition is not a plain function call", out),
                };
                let args = match v.get(i + 2) {
                    Some(TokenTree::Group(g)) if g.delimiter() == Delimiter::Parenthesis => g.stream(),
                    _ => return bad("condition without argument list", out),
                };
                let mut a = vec![];
                for t in args {
                    match &t {
                        TokenTree::Punct(p) if p.as_char() == ',' => {}
                        t => match strlit(t) {
                            Some(s) => a.push(esc(&s)),
                            None => return bad("condition argument is not a string literal", out),
                        },
                    }
                }
                conds.push(format!("{{\"fn\":{},\"args\":[{}]}}", esc(&f), a.join(",")));
                i += 3;
            }
            TokenTree::Punct(p) if p.as_char() == ',' => i += 1,
            other => return bad(&format!("unexpected token {}", other), out),
        }
    }
    out.push(format!(
        "{{\"kind\":\"rw\",\"file\":{},\"fn\":{},\"line\":{},\"name\":{},\"lhs\":{},\"rhs\":{},\"applier\":{},\"conds\":[{}]}}",
        esc(file), esc(func), line, esc(&name), esc(&lhs), esc(&rhs),
        if applier.is_empty() { "null".to_string() } else { esc(&applier) },
        conds.join(",")
    ));
}

fn walk(file: &str, func: &str, ts: TokenStream, out: &mut Vec<String>) {
    let v: Vec<TokenTree> = ts.into_iter().collect();
    let mut i = 0;
    let mut cur_fn = func.to_string();
    while i < v.len() {
        match &v[i] {
            TokenTree::Ident(id) if id == "fn" => {
                if let Some(TokenTree::Ident(name)) = v.get(i + 1) {
                    cur_fn = name.to_string();
                    if cur_fn == "pushdown" {
                        // record the format! templates of the helper: fn pushdown(..) -> Rewrite { .. }
                        let mut j = i + 2;
                        while j < v.len() {
                            if let TokenTree::Group(g) = &v[j] {
                                if g.delimiter() == Delimiter::Brace {
                                    let mut fmts = vec![];
                                    collect_formats(g.stream(), &mut fmts);
                                    out.push(format!(
                                        "{{\"kind\":\"pushdown_def\",\"file\":{},\"line\":{},\"formats\":[{}]}}",
                                        esc(file), id.span().start().line,
                                        fmts.iter().map(|s| esc(s)).collect::<Vec<_>>().join(",")
                                    ));
                                    i = j;
                                    break;
                                }
                            }
                            j += 1;
                        }
                    }
                }
            }
            TokenTree::Ident(id) if id == "rw" && i + 2 < v.len() => {
                if let (TokenTree::Punct(p), TokenTree::Group(g)) = (&v[i + 1], &v[i + 2]) {
                    if p.as_char() == '!' && g.delimiter() == Delimiter::Parenthesis {
                        parse_rw(file, &cur_fn, id.span().start().line, g.stream(), out);
                        i += 3;
                        continue;
                    }
                }
            }
            TokenTree::Ident(id) if id == "pushdown" && i + 1 < v.len() && cur_fn != "pushdown" => {
                if let TokenTree::Group(g) = &v[i + 1] {
                    if g.delimiter() == Delimiter::Parenthesis {
                        let mut a = vec![];
                        let mut ok = true;
                        for t in g.stream() {
                            match &t {
                                TokenTree::Punct(p) if p.as_char() == ',' => {}
                                t => match strlit(t) {
                                    Some(s) => a.push(esc(&s)),
                                    None => ok = false,
                                },
                            }
                        }
                        if ok && a.len() == 4 {
                            out.push(format!(
                                "{{\"kind\":\"pushdown\",\"file\":{},\"fn\":{},\"line\":{},\"args\":[{}]}}",
                                esc(file), esc(&cur_fn), id.span().start().line, a.join(",")
                            ));
                        } else {
                            out.push(format!(
                                "{{\"kind\":\"unparsed\",\"file\":{},\"fn\":{},\"line\":{},\"why\":\"pushdown call with non-literal arguments\"}}",
                                esc(file), esc(&cur_fn), id.span().start().line
                            ));
                        }
                        i += 2;
                        continue;
                    }
                }
            }
            TokenTree::Group(g) => walk(file, &cur_fn, g.stream(), out),
            _ => {}
        }
        i += 1;
    }
}

fn collect_formats(ts: TokenStream, out: &mut Vec<String>) {
    let v: Vec<TokenTree> = ts.into_iter().collect();
    let mut i = 0;
    while i < v.len() {
        match &v[i] {
            TokenTree::Ident(id) if id == "format" && i + 2 < v.len() => {
                if let TokenTree::Group(g) = &v[i + 2] {
                    if let Some(first) = g.stream().into_iter().next() {
                        if let Some(s) = strlit(&first) {
                            out.push(s);
                        }
                    }
                }
            }
            TokenTree::Group(g) => collect_formats(g.stream(), out),
            _ => {}
        }
        i += 1;
    }
}

fn main() {
    for p in std::env::args().skip(1) {
        let src = std::fs::read_to_string(&p).unwrap_or_else(|e| panic!("cannot read {p}: {e}"));
        let ts: TokenStream = src.parse().unwrap_or_else(|e| panic!("cannot lex {p}: {e}"));
        let mut out = vec![];
        walk(&p, "", ts, &mut out);
        for o in out {
            println!("{}", o);
        }
    }
}
