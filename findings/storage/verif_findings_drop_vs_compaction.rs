//! C09-R6 reproduction: DROP TABLE racing a compaction of the same table. drop_table_inner does not take the per-table lock the
//! compactor holds: the drop logs DropTable + DeleteRowSet for the old row-sets, then the compactor (which cloned the table handle
//! before) logs AddRowSet for its output plus DeleteRowSet for the same old row-sets. The manifest ends with a row-set of a dropped
//! table: the next open panics (owner table missing), for every table of the database.
use std::time::Duration;

use risinglight::storage::SecondaryStorageOptions;
use risinglight::Database;

fn dirs(p: &std::path::Path) -> Vec<String> {
    let mut v: Vec<String> = std::fs::read_dir(p).unwrap().flatten().filter(|e| e.path().is_dir())
        .map(|e| e.file_name().to_string_lossy().to_string()).filter(|n| n != "dv").collect();
    v.sort();
    v
}

#[tokio::test]
async fn drop_table_while_compacting() {
    let dir = tempfile::tempdir().unwrap();
    let path = dir.path().join("d.db");
    let opts = || { let mut o = SecondaryStorageOptions::default_for_cli(); o.path = path.clone(); o };
    {
        let db = Database::new_on_disk(opts()).await;
        db.run("create table u(a int)").await.unwrap();
        db.run("insert into u values (1),(2)").await.unwrap();
        db.run("create table t(a int, b int)").await.unwrap();
        // right after a compactor tick
        tokio::time::sleep(Duration::from_millis(1100)).await;
        let rows: Vec<String> = (0..7000).map(|i| format!("({i},{i})")).collect();
        for k in 0..7 {
            db.run(&format!("insert into t values {}", rows[k * 1000..(k + 1) * 1000].join(","))).await.unwrap();
        }
        let before = dirs(&path);
        // wait until the compactor has started writing its output row-set, then drop the table at once
        let mut seen = false;
        let t0 = std::time::Instant::now();
        while t0.elapsed() < Duration::from_secs(5) {
            if dirs(&path).len() > before.len() { seen = true; break; }
            tokio::task::yield_now().await;
        }
        assert!(seen, "compaction output never appeared");
        let r = db.run("drop table t").await;
        println!("drop: {:?}; dirs {:?}", r.as_ref().map(|_| ()), dirs(&path));
        tokio::time::sleep(Duration::from_millis(1500)).await;
        println!("after: dirs {:?}", dirs(&path));
        let _ = db.shutdown().await;
    }
    // reopen: must succeed and u must be intact
    let db = Database::new_on_disk(opts()).await;
    let n = db.run("select count(*) from u").await.unwrap();
    assert_eq!(n[0].data_chunks()[0].arrays()[0].get_to_string(0), "2");
    db.shutdown().await.unwrap();
}
