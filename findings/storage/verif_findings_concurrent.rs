//! Two schedule-dependent reproductions on the disk engine (multi-thread runtime).
//! * concurrent_deletes_count (C09-R4, second instance; fixed by the "DELETE refuses a row that is already deleted" commit): two
//!   concurrent `delete from t where v < 3` on rows 1,2,3 both reported 2 (29 of 30 rounds before the fix).
//! * insert_races_drop (C10-R6; fixed by the "a dropped table takes no more changes" commit): an INSERT that commits after a
//!   concurrent DROP TABLE was acknowledged and logged AddRowSet behind DropTable; the next open panicked in bootstrap
//!   (storage.rs: tables.get(&entry.table_id).unwrap()) - for every table of the database. 1-4 of 60 rounds before the fix.
//!   (Most rounds end earlier in a separate, loud failure: the executor builder unwraps a table that was dropped after binding.)
//! Run: copy into /repo/tests/, `cargo test --offline --test verif_findings_concurrent -- --nocapture --test-threads 1`.
use std::sync::Arc;
use risinglight::storage::SecondaryStorageOptions;
use risinglight::Database;

fn cell(r: &[risinglight::array::Chunk]) -> String { r[0].data_chunks()[0].arrays()[0].get_to_string(0) }

#[tokio::test(flavor = "multi_thread", worker_threads = 4)]
async fn concurrent_deletes_count() {
    let mut bad = 0;
    for round in 0..30 {
        let dir = tempfile::tempdir().unwrap();
        let path = dir.path().join("d.db");
        let mut o = SecondaryStorageOptions::default_for_cli(); o.path = path.clone();
        let db = Arc::new(Database::new_on_disk(o).await);
        db.run("create table t(v int)").await.unwrap();
        db.run("insert into t values (1),(2),(3)").await.unwrap();
        let (a, b) = (db.clone(), db.clone());
        let h1 = tokio::spawn(async move { a.run("delete from t where v < 3").await });
        let h2 = tokio::spawn(async move { b.run("delete from t where v < 3").await });
        let r1 = h1.await.unwrap(); let r2 = h2.await.unwrap();
        let c1 = r1.as_ref().map(|r| cell(r)).unwrap_or_else(|e| format!("ERR {e}"));
        let c2 = r2.as_ref().map(|r| cell(r)).unwrap_or_else(|e| format!("ERR {e}"));
        let left = cell(&db.run("select count(*) from t").await.unwrap());
        // serial outcomes: (2, 0) / (0, 2); a refused second statement (write-write conflict) is fine as well
        if c1 == "2" && c2 == "2" { bad += 1; println!("round {round}: delete1={c1} delete2={c2} left={left}"); }
        let _ = db.shutdown().await;
    }
    assert_eq!(bad, 0);
}

#[tokio::test(flavor = "multi_thread", worker_threads = 4)]
async fn insert_races_drop() {
    for round in 0..60 {
        let dir = tempfile::tempdir().unwrap();
        let path = dir.path().join("d.db");
        let opts = || { let mut o = SecondaryStorageOptions::default_for_cli(); o.path = path.clone(); o };
        let (ri, rd);
        {
            let db = Arc::new(Database::new_on_disk(opts()).await);
            db.run("create table u(a int)").await.unwrap();
            db.run("insert into u values (1),(2)").await.unwrap();
            db.run("create table t(v int)").await.unwrap();
            let (a, b) = (db.clone(), db.clone());
            let h1 = tokio::spawn(async move { a.run("insert into t values (1),(2),(3)").await.map(|_| ()) });
            let h2 = tokio::spawn(async move { tokio::time::sleep(std::time::Duration::from_micros(500 * (round % 40) as u64)).await; b.run("drop table t").await.map(|_| ()) });
            ri = h1.await.map_err(|e| e.to_string()).and_then(|r| r.map_err(|e| e.to_string())); rd = h2.await.map_err(|e| e.to_string()).and_then(|r| r.map_err(|e| e.to_string()));
            let _ = db.shutdown().await;
        }
        let p2 = path.clone();
        let reopen = tokio::spawn(async move {
            let mut o = SecondaryStorageOptions::default_for_cli(); o.path = p2;
            let db = Database::new_on_disk(o).await;
            let n = cell(&db.run("select count(*) from u").await.unwrap());
            let _ = db.shutdown().await;
            n
        }).await;
        println!("round {round}: insert={ri:?} drop={rd:?} reopen={:?}", reopen.as_ref().map_err(|e| e.to_string()));
        assert!(reopen.is_ok(), "reopen panicked after insert={ri:?} drop={rd:?}");
    }
}
