//! C04-R7 reproduction: delete everything, let the compactor merge the two row-sets (their DVs are tombstoned, the files stay),
//! reopen twice (the compacted manifest no longer mentions the DVs, ids restart at 0), insert, delete twice:
//! the second DELETE fails with AlreadyExists on dv/0_0_1.dv. Fixed by the boot vacuum of unused DV files.
use std::time::Duration;
use risinglight::storage::SecondaryStorageOptions;
use risinglight::Database;

async fn first(db: &Database, sql: &str) -> String {
    match db.run(sql).await {
        Ok(chunks) => chunks[0].data_chunks().first().map(|c| c.arrays()[0].get_to_string(0)).unwrap_or_default(),
        Err(e) => format!("ERR {e}"),
    }
}

fn ls(dir: &std::path::Path) -> Vec<String> {
    let mut v = vec![];
    for e in walkdir(dir) { v.push(e); }
    v.sort();
    v
}
fn walkdir(dir: &std::path::Path) -> Vec<String> {
    let mut out = vec![];
    if let Ok(rd) = std::fs::read_dir(dir) {
        for e in rd.flatten() {
            let p = e.path();
            if p.is_dir() { out.push(format!("{}/", p.file_name().unwrap().to_string_lossy())); if p.file_name().unwrap() == "dv" { out.extend(walkdir(&p).into_iter().map(|x| format!("dv/{x}"))); } }
            else { out.push(p.file_name().unwrap().to_string_lossy().to_string()); }
        }
    }
    out
}

#[tokio::test]
async fn dv_id_reuse_after_full_delete() {
    let dir = tempfile::tempdir().unwrap();
    let path = dir.path().join("p.db");
    let opts = || { let mut o = SecondaryStorageOptions::default_for_cli(); o.path = path.clone(); o };
    {
        let db = Database::new_on_disk(opts()).await;
        println!("{}", first(&db, "create table t(a int)").await);
        tokio::time::sleep(Duration::from_millis(1100)).await;
        println!("ins {}", first(&db, "insert into t values (1),(2),(3)").await); println!("ins {}", first(&db, "insert into t values (4),(5)").await);
        println!("del {}", first(&db, "delete from t").await);
        println!("after delete: {:?}", ls(&path));
        tokio::time::sleep(Duration::from_millis(2500)).await;
        println!("after compaction window: {:?}", ls(&path));
        println!("count {}", first(&db, "select count(*) from t").await);
        db.shutdown().await.unwrap();
    }
    for round in 0..2 {
        let db = Database::new_on_disk(opts()).await;
        println!("reopen {round}: {:?} count {}", ls(&path), first(&db, "select count(*) from t").await);
        db.shutdown().await.unwrap();
    }
    let db = Database::new_on_disk(opts()).await;
    println!("ins {}", first(&db, "insert into t values (7),(8)").await);
    println!("files {:?}", ls(&path));
    let d = first(&db, "delete from t where a = 7").await;
    println!("del {}", d);
    println!("count {}", first(&db, "select count(*) from t").await);
    assert!(!d.starts_with("ERR"), "DELETE after reopen failed: {d}");
    let d = first(&db, "delete from t where a = 8").await;
    println!("del {}", d);
    println!("count {}", first(&db, "select count(*) from t").await);
    assert!(!d.starts_with("ERR"), "second DELETE after reopen failed: {d}");
    db.shutdown().await.unwrap();
}
