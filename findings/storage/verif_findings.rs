//! Reproductions of storage-level findings against the real code (not part of the checks; triage evidence).
//! Each test states the behaviour the property requires; a failing test shows the defect.
//! Run from a risinglight checkout: copy to tests/verif_findings.rs, `cargo test --offline --test verif_findings`.

use std::path::{Path, PathBuf};
use std::sync::Arc;
use std::time::Duration;

use risinglight::Database;
use risinglight::storage::{SecondaryStorage, SecondaryStorageOptions};

fn options(dir: &Path) -> SecondaryStorageOptions {
    let mut o = SecondaryStorageOptions::default_for_cli();
    o.path = dir.join("db");
    o
}

async fn open(dir: &Path) -> Database {
    Database::new_on_disk(options(dir)).await
}

async fn try_reopen(dir: &Path) -> Result<(), String> {
    match SecondaryStorage::open(options(dir)).await {
        Ok(_) => Ok(()),
        Err(e) => Err(format!("{e:?}")),
    }
}

async fn rows(db: &Database, sql: &str) -> Vec<String> {
    let chunks = db.run(sql).await.unwrap_or_else(|e| panic!("`{sql}` failed: {e:?}"));
    let mut out = vec![];
    for c in chunks {
        let c = c.data_chunks();
        for chunk in c {
            for i in 0..chunk.cardinality() {
                out.push(chunk.arrays().iter().map(|a| a.get_to_string(i)).collect::<Vec<_>>().join(","));
            }
        }
    }
    out.sort();
    out
}

fn tmp(name: &str) -> PathBuf {
    let d = std::env::temp_dir().join(format!("verif_findings_{}_{}", name, std::process::id()));
    let _ = std::fs::remove_dir_all(&d);
    std::fs::create_dir_all(&d).unwrap();
    d
}

/// C04-R2: a crash in the middle of a manifest append leaves a torn last record; reopen must succeed,
/// keep every previously acknowledged statement and show the interrupted one completely or not at all.
/// (One row-set per table, so that no compaction/vacuum runs: the torn record is the last INSERT's.)
#[tokio::test]
async fn c04_torn_manifest_tail() {
    let dir = tmp("c04");
    {
        let db = open(&dir).await;
        db.run("create table t1(a int)").await.unwrap();
        db.run("create table t2(a int)").await.unwrap();
        db.run("insert into t1 values (1), (2)").await.unwrap();
        db.run("insert into t2 values (3)").await.unwrap();
        db.shutdown().await.unwrap();
    }
    let manifest = dir.join("db").join("manifest.json");
    let bytes = std::fs::read(&manifest).unwrap();
    assert!(String::from_utf8_lossy(&bytes).trim_end().ends_with("\"End\""), "last record is the INSERT's End marker");
    // tear the last record: drop its final 3 bytes
    std::fs::write(&manifest, &bytes[..bytes.len() - 3]).unwrap();
    try_reopen(&dir).await.expect("reopen after a torn manifest tail must succeed");
    let db = open(&dir).await;
    assert_eq!(rows(&db, "select a from t1").await, vec!["1", "2"], "acknowledged rows must survive");
    let t2 = rows(&db, "select a from t2").await;
    assert!(t2.is_empty() || t2 == vec!["3"], "interrupted INSERT must be all-or-nothing: {t2:?}");
    db.run("insert into t2 values (4)").await.expect("statements must work after recovery");
    db.shutdown().await.unwrap();
}

/// C03-R1: a view created between two tables consumes a table id that replay does not re-consume.
#[tokio::test]
async fn c03_view_between_tables() {
    let dir = tmp("c03a");
    {
        let db = open(&dir).await;
        db.run("create table t1(a int)").await.unwrap();
        db.run("create view v(x) as select a from t1").await.unwrap();
        db.run("create table t2(a int)").await.unwrap();
        db.run("insert into t2 values (1), (2)").await.unwrap();
        db.shutdown().await.unwrap();
    }
    let r = tokio::spawn({ let dir = dir.clone(); async move { try_reopen(&dir).await } }).await;
    assert!(matches!(r, Ok(Ok(()))), "reopen must succeed and keep t2's rows: {r:?}");
}

/// C03-R1 (index): CREATE INDEX consumes a table id as well and is not logged either.
#[tokio::test]
async fn c03_index_between_tables() {
    let dir = tmp("c03c");
    {
        let db = open(&dir).await;
        db.run("create table t1(a int, b vector(3))").await.unwrap();
        db.run("create index t1_b on t1 using ivfflat (b) with (distfn = '<->', nlists = 3, nprobe = 2)").await.unwrap();
        db.run("create table t2(a int)").await.unwrap();
        db.run("insert into t2 values (1), (2)").await.unwrap();
        db.shutdown().await.unwrap();
    }
    let r = tokio::spawn({ let dir = dir.clone(); async move { try_reopen(&dir).await } }).await;
    assert!(matches!(r, Ok(Ok(()))), "reopen must succeed and keep t2's rows: {r:?}");
}

/// C03-R4: compaction leaves the delete vectors of the row-sets it removed; after DROP TABLE reopen panics.
#[tokio::test]
async fn c03_drop_after_compaction() {
    let dir = tmp("c03b");
    {
        let db = open(&dir).await;
        db.run("create table t(a int)").await.unwrap();
        for i in 0..4 {
            db.run(&format!("insert into t values ({}), ({})", 2 * i, 2 * i + 1)).await.unwrap();
        }
        db.run("delete from t where a < 3").await.unwrap();
        // let a compaction pass run (period 1 s)
        tokio::time::sleep(Duration::from_millis(2500)).await;
        assert_eq!(rows(&db, "select count(*) from t").await, vec!["5"]);
        db.run("drop table t").await.unwrap();
        db.shutdown().await.unwrap();
    }
    let r = tokio::spawn({ let dir = dir.clone(); async move { try_reopen(&dir).await } }).await;
    assert!(matches!(r, Ok(Ok(()))), "reopen after compaction + drop table must succeed: {r:?}");
}

/// C10-R1 / C03-R2: two sessions create the same table concurrently; one fails, and the database must reopen.
#[tokio::test]
async fn c10_concurrent_create_same_name() {
    let dir = tmp("c10");
    {
        let db = Arc::new(open(&dir).await);
        let (a, b) = tokio::join!(db.run("create table t(a int)"), db.run("create table t(a int)"));
        assert!(a.is_ok() ^ b.is_ok(), "exactly one CREATE must be acknowledged: {:?} {:?}", a.is_ok(), b.is_ok());
        db.shutdown().await.unwrap();
    }
    let r = tokio::spawn({ let dir = dir.clone(); async move { try_reopen(&dir).await } }).await;
    assert!(matches!(r, Ok(Ok(()))), "reopen after a rejected concurrent CREATE must succeed: {r:?}");
}

/// C18-R1: a corrupted block must be rejected on the first read AND on every later read.
#[tokio::test]
async fn c18_second_read_of_corrupted_block() {
    let dir = tmp("c18");
    {
        let db = open(&dir).await;
        db.run("create table t(a int)").await.unwrap();
        db.run("insert into t values (1), (2), (3), (4)").await.unwrap();
        db.shutdown().await.unwrap();
    }
    // flip one payload byte of the only column file
    let mut col = None;
    for e in walk(&dir.join("db")) {
        if e.extension().map(|x| x == "col").unwrap_or(false) {
            col = Some(e);
        }
    }
    let col = col.expect("a .col file");
    let mut bytes = std::fs::read(&col).unwrap();
    bytes[0] ^= 0x01;
    std::fs::write(&col, bytes).unwrap();
    let db = open(&dir).await;
    let first = db.run("select a from t").await;
    assert!(first.is_err(), "first read of a corrupted block must fail");
    let second = db.run("select a from t").await;
    assert!(second.is_err(), "second read of the same corrupted block must fail too, got {:?}",
        second.map(|c| c.len()));
}

fn walk(p: &Path) -> Vec<PathBuf> {
    let mut out = vec![];
    for e in std::fs::read_dir(p).unwrap() {
        let e = e.unwrap().path();
        if e.is_dir() { out.extend(walk(&e)); } else { out.push(e); }
    }
    out
}
