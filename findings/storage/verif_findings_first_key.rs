//! C13-R10 / C05: with `record_first_key = false` (a storage option the property C05 quantifies over) every range or point query on a
//! primary key failed on the disk engine: DiskRowset::start_rowid decoded the empty first_key of the block index
//! ("executor panicked: advance out of bounds: the len is 0 but advancing by 4"). The in-memory engine answers. Fixed: no recorded key, no seek.
//! Run: copy into /repo/tests/, `cargo test --offline --test verif_findings_first_key -- --nocapture`.
use risinglight::storage::SecondaryStorageOptions;
use risinglight::Database;

#[tokio::test]
async fn range_scan_without_recorded_first_keys() {
    let dir = tempfile::tempdir().unwrap();
    let mut o = SecondaryStorageOptions::default_for_cli();
    o.path = dir.path().join("d.db");
    o.record_first_key = false;
    let db = Database::new_on_disk(o).await;
    db.run("create table t(a int primary key, b int)").await.unwrap();
    db.run("insert into t values (1,10),(2,20),(3,30),(4,40)").await.unwrap();
    let r = db.run("select b from t where a > 1 and a < 4").await;
    let rows: Vec<String> = match r {
        Ok(chunks) => chunks.iter().flat_map(|c| c.data_chunks().to_vec()).flat_map(|c| (0..c.cardinality()).map(move |i| c.arrays()[0].get_to_string(i)).collect::<Vec<_>>()).collect(),
        Err(e) => panic!("range query failed: {e}"),
    };
    assert_eq!(rows, vec!["20", "30"]);
    let _ = db.shutdown().await;
}
