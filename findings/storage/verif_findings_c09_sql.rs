//! C09-R4 reproduction (SQL path): DELETE locates its victims through a child scan executor whose transaction pinned
//! its snapshot BEFORE DeleteExecutor took the table lock. A compaction that runs in between replaces the row-sets the
//! handlers point into; the delete vectors are then written against row-sets that no longer exist and the acknowledged
//! DELETE removes nothing. The window is a few instructions wide natively; findings/storage/c09_r4_widen_window.diff
//! (a sleep in DeleteExecutor before Table::update) makes the schedule deterministic. Without that diff the test passes.

use std::time::Duration;

use risinglight::storage::SecondaryStorageOptions;
use risinglight::Database;

async fn first(db: &Database, sql: &str) -> String {
    let chunks = db.run(sql).await.unwrap_or_else(|e| panic!("`{sql}` failed: {e:?}"));
    chunks[0].data_chunks()[0].arrays()[0].get_to_string(0)
}

async fn count(db: &Database) -> String {
    first(db, "select count(*) from t").await
}

#[tokio::test]
async fn c09_sql_delete_overlapping_compaction() {
    let dir = tempfile::tempdir().unwrap();
    let mut options = SecondaryStorageOptions::default_for_cli();
    options.path = dir.path().join("c09sql.db");
    let db = Database::new_on_disk(options).await;
    db.run("create table t(a int, b int)").await.unwrap();
    // the compactor ticked at open and ticks once per second; start right after a tick
    tokio::time::sleep(Duration::from_millis(1100)).await;
    db.run("insert into t values (1,1),(2,2),(3,3),(4,4),(5,5)").await.unwrap();
    db.run("insert into t values (6,6),(7,7),(8,8),(9,9),(10,10)").await.unwrap();
    assert_eq!(count(&db).await, "10");
    // Either the statement fails (nothing acknowledged, nothing deleted) or it deletes what it reports.
    match db.run("delete from t where a <= 3").await {
        Err(e) => {
            let left = count(&db).await;
            println!("DELETE failed ({e}); {left} rows left");
            assert_eq!(left, "10", "a DELETE that failed removed rows");
        }
        Ok(chunks) => {
            let reported = chunks[0].data_chunks()[0].arrays()[0].get_to_string(0);
            let left = count(&db).await;
            println!("DELETE reported {reported} rows; {left} rows left");
            assert_eq!(reported, "3");
            assert_eq!(left, "7", "an acknowledged DELETE of 3 rows left {left} of 10 rows in the table");
        }
    }
    db.shutdown().await.unwrap();
}
