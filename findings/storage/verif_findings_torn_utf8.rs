//! C04-R2 (second instance; fixed): a manifest append torn inside a multi-byte UTF-8 character made the next open fail.
//! Manifest::replay read the whole file with read_to_string, which rejects the file before the record-wise parser (which tolerates
//! a torn tail) sees it: "stream did not contain valid UTF-8". Reported by the C04-f seeding sub-agent.
//! Run: copy into /repo/tests/, `cargo test --offline --test verif_findings_torn_utf8 -- --nocapture`.
use risinglight::storage::SecondaryStorageOptions;
use risinglight::Database;

#[tokio::test]
async fn torn_tail_inside_a_utf8_character() {
    let dir = tempfile::tempdir().unwrap();
    let path = dir.path().join("d.db");
    let opts = || { let mut o = SecondaryStorageOptions::default_for_cli(); o.path = path.clone(); o };
    {
        let db = Database::new_on_disk(opts()).await;
        db.run("create table a(x int)").await.unwrap();
        db.run("insert into a values (1),(2)").await.unwrap();
        db.shutdown().await.unwrap();
    }
    let manifest = path.join("manifest.json");
    let acknowledged = std::fs::read(&manifest).unwrap();
    {
        // the statement whose record will be torn: it is never acknowledged as far as the crash model goes
        let db = Database::new_on_disk(opts()).await;
        db.run("create table \"t\u{e9}\u{e9}\"(x int)").await.unwrap();
        // no shutdown: the process "dies" here
        std::mem::forget(db);
    }
    let data = std::fs::read(&manifest).unwrap();
    let cut = data.iter().rposition(|b| *b == 0xC3).expect("a two-byte character in the last record") + 1;
    assert!(cut > acknowledged.len().min(cut) - 1);
    std::fs::write(&manifest, &data[..cut]).unwrap();
    // recovery must succeed and show the acknowledged state
    let p2 = path.clone();
    let reopened = tokio::spawn(async move {
        let mut o = SecondaryStorageOptions::default_for_cli(); o.path = p2;
        let db = Database::new_on_disk(o).await;
        let n = db.run("select count(*) from a").await.unwrap();
        n[0].data_chunks()[0].arrays()[0].get_to_string(0)
    }).await;
    assert_eq!(reopened.map_err(|e| e.to_string()), Ok("2".to_string()));
}
