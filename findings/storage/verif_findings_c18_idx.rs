//! Probes written by the C18-d seeding sub-agent on the unchanged tree. p4 / p5 (C18-R10, fixed): a flipped high bit in the block count of an
//! index footer and an index file cut to 10 bytes panicked in ColumnIndex::from_bytes (capacity overflow / subtract with overflow);
//! since the fix SecondaryStorage::open returns a decode error (Database::new_on_disk unwraps it). p1 - p3 show the known finding C18-R9
//! (checksum type trusted from the damaged block / footer itself).
//! Probes of the UNCHANGED tree (not part of the demonstration).
use std::path::{Path, PathBuf};

use prost::Message;
use risinglight::Database;
use risinglight::array::datachunk_to_sqllogictest_string;
use risinglight::storage::SecondaryStorageOptions;
use risinglight_proto::rowset::BlockIndex;

fn options(path: &Path) -> SecondaryStorageOptions {
    let mut options = SecondaryStorageOptions::default_for_cli();
    options.path = path.to_path_buf();
    options
}

fn files(root: &Path, ext: &str) -> Vec<PathBuf> {
    let mut found = vec![];
    let mut stack = vec![root.to_path_buf()];
    while let Some(dir) = stack.pop() {
        for entry in std::fs::read_dir(&dir).unwrap() {
            let path = entry.unwrap().path();
            if path.is_dir() {
                stack.push(path);
            } else if path.extension().is_some_and(|e| e == ext) {
                found.push(path);
            }
        }
    }
    found.sort();
    found
}

async fn build(path: &Path) {
    let db = Database::new_on_disk(options(path)).await;
    db.run("create table t (a int not null, b int not null)").await.unwrap();
    let values = (1..=10).map(|i| format!("({}, {})", i, i * 100)).collect::<Vec<_>>().join(", ");
    db.run(&format!("insert into t values {values}")).await.unwrap();
    db.shutdown().await.unwrap();
}

async fn read(path: &Path) -> String {
    let db = Database::new_on_disk(options(path)).await;
    let mut out = String::new();
    for round in 1..=2 {
        let r = match db.run("select a, b from t order by a").await {
            Ok(chunks) => format!(
                "Ok {:?}",
                chunks.iter().flat_map(datachunk_to_sqllogictest_string).collect::<Vec<_>>()
            ),
            Err(e) => format!("Err {e}"),
        };
        out += &format!("  read #{round}: {r}\n");
    }
    db.shutdown().await.unwrap();
    out
}

#[tokio::test]
async fn p1_zeroed_tail_of_col() {
    let dir = tempfile::tempdir().unwrap();
    let path = dir.path().join("db");
    build(&path).await;
    for f in files(&path, "col") {
        let mut data = std::fs::read(&f).unwrap();
        let n = data.len();
        data[n - 24..].fill(0); // the 16-byte trailer and the last two values, same file length
        std::fs::write(&f, data).unwrap();
    }
    println!("P1 zero last 24 bytes of each .col:\n{}", read(&path).await);
}

#[tokio::test]
async fn p2_flip_data_and_clear_checksum() {
    let dir = tempfile::tempdir().unwrap();
    let path = dir.path().join("db");
    build(&path).await;
    for f in files(&path, "col") {
        let mut data = std::fs::read(&f).unwrap();
        let n = data.len();
        data[0] ^= 0x40; // first value
        data[n - 12..].fill(0); // checksum_type = None, checksum = 0
        std::fs::write(&f, data).unwrap();
    }
    println!("P2 flip a data bit + overwrite cksum_type/cksum with 0:\n{}", read(&path).await);
}

#[tokio::test]
async fn p3_idx_row_count_and_clear_checksum() {
    let dir = tempfile::tempdir().unwrap();
    let path = dir.path().join("db");
    build(&path).await;
    for f in files(&path, "idx") {
        let data = std::fs::read(&f).unwrap();
        let n = data.len();
        let mut entries = &data[..n - 24];
        let mut index = BlockIndex::decode_length_delimited(&mut entries).unwrap();
        assert!(entries.is_empty());
        index.row_count = 5;
        let mut out = vec![];
        index.encode_length_delimited(&mut out).unwrap();
        assert_eq!(out.len(), n - 24);
        let differing = out.iter().zip(&data[..n - 24]).filter(|(a, b)| a != b).count();
        out.extend_from_slice(&data[n - 24..n - 12]); // magic + count
        out.extend_from_slice(&[0; 12]); // checksum_type = None, checksum = 0
        println!("idx {:?}: {} entry byte(s) differ", f.file_name().unwrap(), differing);
        std::fs::write(&f, out).unwrap();
    }
    println!("P3 idx row_count 10->5 + footer cksum_type/cksum zeroed:\n{}", read(&path).await);
}

#[tokio::test]
async fn p4_idx_count_high_bit() {
    let dir = tempfile::tempdir().unwrap();
    let path = dir.path().join("db");
    build(&path).await;
    for f in files(&path, "idx") {
        let mut data = std::fs::read(&f).unwrap();
        let n = data.len();
        data[n - 20] ^= 0x80; // most significant byte of the big-endian block count
        std::fs::write(&f, data).unwrap();
    }
    println!("P4 idx block count high bit flipped:\n{}", read(&path).await);
}

#[tokio::test]
async fn p5_idx_truncated_below_footer() {
    let dir = tempfile::tempdir().unwrap();
    let path = dir.path().join("db");
    build(&path).await;
    for f in files(&path, "idx") {
        let data = std::fs::read(&f).unwrap();
        std::fs::write(&f, &data[..10]).unwrap();
    }
    println!("P5 idx truncated to 10 bytes:\n{}", read(&path).await);
}
