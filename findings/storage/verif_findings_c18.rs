//! C18 reproductions on a database written with CRC32 checksums (default_for_cli):
//!  (a) C18-R8: the block count in the footer of an index file is outside the checksummed range: lowering it makes the column
//!      shorter without any error (fixed: the count must consume exactly the checksummed index data);
//!  (b) C18-R9: the checksum TYPE of a block is read from the block's own trailer: zeroing the end of a column file gives a
//!      trailer {Plain, None, 0} that "verifies" and the zeroed values are returned (known finding).
use risinglight::storage::SecondaryStorageOptions;
use risinglight::Database;

fn files(dir: &std::path::Path, ext: &str) -> Vec<std::path::PathBuf> {
    let mut out = vec![];
    for e in std::fs::read_dir(dir).unwrap().flatten() {
        let p = e.path();
        if p.is_dir() { out.extend(files(&p, ext)); } else if p.extension().is_some_and(|x| x == ext) { out.push(p); }
    }
    out.sort();
    out
}

async fn build(path: &std::path::Path) {
    let mut o = SecondaryStorageOptions::default_for_cli();
    o.path = path.to_path_buf();
    let db = Database::new_on_disk(o).await;
    db.run("create table t(a int, b int)").await.unwrap();
    let rows: Vec<String> = (0..10000).map(|i| format!("({i},{})", i + 1)).collect();
    db.run(&format!("insert into t values {}", rows.join(","))).await.unwrap();
    db.shutdown().await.unwrap();
}

async fn read(path: &std::path::Path, sql: &str) -> Result<Vec<String>, String> {
    let mut o = SecondaryStorageOptions::default_for_cli();
    o.path = path.to_path_buf();
    let db = Database::new_on_disk(o).await;
    let r = match db.run(sql).await {
        Ok(chunks) => {
            let mut out = vec![];
            for c in chunks { for d in c.data_chunks() { for i in 0..d.cardinality() {
                out.push(d.arrays().iter().map(|a| a.get_to_string(i)).collect::<Vec<_>>().join(","));
            } } }
            Ok(out)
        }
        Err(e) => Err(e.to_string()),
    };
    let _ = db.shutdown().await;
    r
}

#[tokio::test]
async fn index_block_count_is_covered() {
    let dir = tempfile::tempdir().unwrap();
    let path = dir.path().join("i.db");
    build(&path).await;
    let idx = files(&path, "idx").into_iter().next().unwrap();
    let mut bytes = std::fs::read(&idx).unwrap();
    // footer: magic u32 | count u64 | checksum type i32 | checksum u64  (big endian)
    let n = bytes.len();
    let count_pos = n - 24 + 4 + 7;
    assert!(bytes[count_pos] > 1);
    bytes[count_pos] -= 1;
    std::fs::write(&idx, &bytes).unwrap();
    let mut o = SecondaryStorageOptions::default_for_cli();
    o.path = path.clone();
    // opening or reading must fail; it must not return fewer rows
    let r = std::panic::AssertUnwindSafe(read(&path, "select count(*) from t"));
    let r = futures::FutureExt::catch_unwind(r).await;
    match r {
        Ok(Ok(rows)) => panic!("corrupted index block count went unnoticed: count(*) = {rows:?} (10000 rows were stored)"),
        Ok(Err(e)) => println!("detected: {e}"),
        Err(_) => println!("detected (open panicked)"),
    }
}

#[tokio::test]
async fn zeroed_block_trailer_is_detected() {
    let dir = tempfile::tempdir().unwrap();
    let path = dir.path().join("z.db");
    build(&path).await;
    let col = files(&path, "col").into_iter().next().unwrap();
    let mut bytes = std::fs::read(&col).unwrap();
    let n = bytes.len();
    for b in &mut bytes[n - 56..] { *b = 0; }
    std::fs::write(&col, &bytes).unwrap();
    let r = std::panic::AssertUnwindSafe(read(&path, "select a from t where a >= 9980 or a = 0"));
    let r = futures::FutureExt::catch_unwind(r).await;
    match r {
        Ok(Ok(rows)) => panic!("zeroed end of {col:?} was returned as data: {} rows, e.g. {:?}", rows.len(), &rows[..rows.len().min(12)]),
        Ok(Err(e)) => println!("detected: {e}"),
        Err(_) => println!("detected (panicked)"),
    }
}
