//! C13-R8 reproduction: duplicate keys that straddle a block boundary. With 128-byte blocks a block of the key column holds 28
//! INT keys; keys 0..=27, 27, 28..=59 put one 27 at the end of the first block and one at the start of the second. The seek for
//! `a >= 27` used to start at the second block (its first key is <= 27) and lose the row in the first one.
use risinglight::storage::SecondaryStorageOptions;
use risinglight::Database;

async fn count(db: &Database, sql: &str) -> String {
    let r = db.run(sql).await.unwrap_or_else(|e| panic!("{sql}: {e}"));
    r[0].data_chunks()[0].arrays()[0].get_to_string(0)
}

#[tokio::test]
async fn duplicate_keys_across_a_block_boundary() {
    let dir = tempfile::tempdir().unwrap();
    let mut o = SecondaryStorageOptions::default_for_cli();
    o.path = dir.path().join("k.db");
    o.target_block_size = 128;
    let db = Database::new_on_disk(o).await;
    db.run("create table t(a int primary key, b int)").await.unwrap();
    let mut keys: Vec<i32> = (0..=27).collect();
    keys.push(27);
    keys.extend(28..=59);
    let rows: Vec<String> = keys.iter().enumerate().map(|(i, k)| format!("({k},{i})")).collect();
    db.run(&format!("insert into t values {}", rows.join(","))).await.unwrap();
    let mut bad = vec![];
    for k in 0..=60 {
        for (op, f) in [(">=", Box::new(move |x: i32| x >= k) as Box<dyn Fn(i32) -> bool>), (">", Box::new(move |x: i32| x > k)),
                        ("=", Box::new(move |x: i32| x == k)), ("<=", Box::new(move |x: i32| x <= k))] {
            let want = keys.iter().filter(|x| f(**x)).count().to_string();
            let got = count(&db, &format!("select count(*) from t where a {op} {k}")).await;
            if got != want { bad.push(format!("a {op} {k}: got {got}, want {want}")); }
        }
    }
    db.shutdown().await.unwrap();
    assert!(bad.is_empty(), "range scans differ from a full scan + predicate: {bad:?}");
}
