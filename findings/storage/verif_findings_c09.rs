//! C09-R1 reproduction: a DELETE that starts while a compaction of its table is in flight pins its snapshot
//! BEFORE it waits for the table lock. When the compaction commits, the delete works on the stale snapshot:
//! its delete vectors point at row-sets that no longer exist and the acknowledged delete is lost.
//! Also: C15-R4 (operator task spawned before the bootstrap receiver is deactivated) on a multi-thread runtime.

use std::sync::Arc;
use std::time::Duration;

use risinglight::array::{ArrayImpl, DataChunk};
use risinglight::catalog::{ColumnCatalog, ColumnDesc, RootCatalog, TableRefId};
use risinglight::storage::{
    RowHandler, ScanOptions, SecondaryStorage, SecondaryStorageOptions, Storage, StorageColumnRef,
    Table, Transaction, TxnIterator,
};
use risinglight::types::{DataType, DataValue};

type Txn = <SecondaryStorage as Storage>::Transaction;
type Handle = <Txn as Transaction>::RowHandlerType;
type Tbl = <SecondaryStorage as Storage>::Table;

async fn insert(table: &Tbl, range: std::ops::Range<i32>) {
    let mut txn = table.write().await.unwrap();
    let chunk: DataChunk = [ArrayImpl::new_int32(range.collect())].into_iter().collect();
    txn.append(chunk).await.unwrap();
    txn.commit().await.unwrap();
}

async fn handles_below(txn: &Txn, bound: i32) -> Vec<Handle> {
    let mut out = vec![];
    let mut it = txn
        .scan(&[StorageColumnRef::Idx(0), StorageColumnRef::RowHandler], ScanOptions::default())
        .await
        .unwrap();
    while let Some(chunk) = it.next_batch(None).await.unwrap() {
        let vals = chunk.array_at(0);
        let handlers = chunk.array_at(1);
        for i in 0..chunk.cardinality() {
            if let DataValue::Int32(v) = vals.get(i) {
                if v < bound {
                    out.push(Handle::from_column(handlers, i));
                }
            }
        }
    }
    out
}

async fn count_below(table: &Tbl, bound: i32) -> usize {
    let txn = table.read().await.unwrap();
    let n = handles_below(&txn, bound).await.len();
    txn.abort().await.unwrap();
    n
}

#[tokio::test]
async fn c09_delete_started_during_compaction() {
    let dir = tempfile::tempdir().unwrap();
    let mut options = SecondaryStorageOptions::default_for_cli();
    options.path = dir.path().join("c09.db");
    let storage = Arc::new(SecondaryStorage::open(options).await.unwrap());
    storage.spawn_compactor().await;
    let catalog = storage.get_catalog();
    let schema_id = catalog.get_schema_id_by_name(RootCatalog::DEFAULT_SCHEMA_NAME).unwrap();
    let columns = [ColumnCatalog::new(0, ColumnDesc::new("v", DataType::Int32, false))];
    storage.create_table(schema_id, "t1", &columns, &[]).await.unwrap();
    let id: TableRefId = catalog.get_table_id_by_name(RootCatalog::DEFAULT_SCHEMA_NAME, "t1").unwrap();
    let t1 = storage.get_table(id).unwrap();

    const N: i32 = 400_000;
    insert(&t1, 0..N).await;
    tokio::time::sleep(Duration::from_millis(1200)).await; // one pass: a single row-set, nothing to merge
    insert(&t1, N..2 * N).await;

    // wait until the compactor holds the table lock (it is merging the two big row-sets)
    let mut in_flight = false;
    for _ in 0..4000 {
        match t1.txn_mgr.try_lock_for_compaction(t1.table_id()) {
            Some(g) => drop(g),
            None => {
                in_flight = true;
                break;
            }
        }
        tokio::time::sleep(Duration::from_millis(1)).await;
    }
    assert!(in_flight, "could not observe a compaction in flight (test harness problem, not a verdict)");

    // DELETE FROM t1 WHERE v < 100, issued while the compaction runs: waits for the table lock
    let mut del = t1.update().await.unwrap();
    let victims = handles_below(&del, 100).await;
    assert_eq!(victims.len(), 100);
    for h in &victims {
        del.delete(h).await.unwrap();
    }
    del.commit().await.unwrap(); // acknowledged

    tokio::time::sleep(Duration::from_millis(1500)).await;
    let left = count_below(&t1, 100).await;
    storage.shutdown().await.unwrap();
    assert_eq!(left, 0, "acknowledged DELETE of 100 rows was lost: {left} of them are still visible");
}

/// C15-R4: on a multi-thread runtime the operator task can broadcast before `rx.deactivate()` ran;
/// those chunks are dropped and the statement returns fewer (or no) rows.
#[tokio::test(flavor = "multi_thread", worker_threads = 4)]
async fn c15_no_lost_chunks_on_multi_thread_runtime() {
    let db = risinglight::Database::new_in_memory();
    db.run("create table t(a int)").await.unwrap();
    db.run("insert into t values (1), (2), (3)").await.unwrap();
    let mut bad = 0;
    for _ in 0..300 {
        let r = db.run("select a from t").await.unwrap();
        let n: usize = r.iter().map(|c| c.data_chunks().iter().map(|d| d.cardinality()).sum::<usize>()).sum();
        if n != 3 {
            bad += 1;
        }
    }
    assert_eq!(bad, 0, "{bad} of 300 plain SELECTs returned fewer than 3 rows");
}

#[tokio::test(flavor = "multi_thread", worker_threads = 8)]
async fn c15_no_lost_chunks_on_multi_thread_runtime_disk() {
    let dir = tempfile::tempdir().unwrap();
    let mut options = SecondaryStorageOptions::default_for_cli();
    options.path = dir.path().join("c15.db");
    let db = risinglight::Database::new_on_disk(options).await;
    db.run("create table t(a int)").await.unwrap();
    let mut bad_ins = 0;
    for i in 0..20 {
        let r = db.run(&format!("insert into t values ({i})")).await.unwrap();
        let n: usize = r.iter().map(|c| c.data_chunks().iter().map(|d| d.cardinality()).sum::<usize>()).sum();
        if n != 1 { bad_ins += 1; }
    }
    let mut bad = 0;
    for _ in 0..200 {
        let r = db.run("select count(*) from t").await.unwrap();
        let n: usize = r.iter().map(|c| c.data_chunks().iter().map(|d| d.cardinality()).sum::<usize>()).sum();
        if n != 1 { bad += 1; }
    }
    assert_eq!((bad_ins, bad), (0, 0), "{bad_ins} of 20 INSERTs and {bad} of 200 SELECT count(*) returned no row");
}
