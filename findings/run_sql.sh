#!/bin/bash
# Replay the SQL-level reproductions in findings/sql against a risinglight checkout (default /repo) on both engines,
# through the repository's own sqllogictest harness. Prints one PASS/FAIL line per script and engine.
# A FAIL on a listed known finding = the defect is still there; PASS = repaired.
set -uo pipefail
repo=${1:-/repo}
bin=$(ls -t $repo/target/debug/deps/sqllogictest-* 2>/dev/null | grep -v '\.d$' | head -1)
[ -x "$bin" ] || { echo "no prebuilt sqllogictest harness under $repo/target (run cargo test --no-run there)"; exit 2; }
d=$(mktemp -d /tmp/scratch.findings.XXXX); mkdir -p $d/tests; cp -r "$(dirname "$0")/sql" $d/tests/sql
(cd $d && RUST_LOG=error RUST_BACKTRACE=0 "$bin" 2>&1 | grep -E '^test |^\[SQL\]|^[-+] |panicked|invalid') 
rm -rf $d
