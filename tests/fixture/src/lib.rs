//! Positive examples for the rules whose expected count on risinglight is zero. Compiled through the same rl-facts
//! driver on every run; each rule must flag exactly the constructs marked below (a rule that matches nothing here
//! would pass on risinglight vacuously forever).
#![allow(dead_code, clippy::all)]
use std::future::Future;
use std::pin::Pin;
use std::sync::Mutex;
use std::task::{Context, Poll};

pub mod executor {
    use std::io::{Error, ErrorKind};

    pub fn fallible(x: i32) -> Result<i32, Error> {
        if x > 0 { Ok(x) } else { Err(Error::new(ErrorKind::Other, "neg")) }
    }

    /// FLAG C15-R1: result dropped unread
    pub fn dropped(x: i32) {
        let _ = fallible(x);
    }

    /// FLAG C15-R1: error swallowed with ok()
    pub fn swallowed(x: i32) -> i32 {
        fallible(x).ok().unwrap_or(0)
    }

    /// FLAG C15-R1: error swallowed with unwrap_or
    pub fn defaulted(x: i32) -> i32 {
        fallible(x).unwrap_or(7)
    }

    /// ok: propagated
    pub fn propagated(x: i32) -> Result<i32, Error> {
        let v = fallible(x)?;
        Ok(v + 1)
    }

    /// ok: matched
    pub fn matched(x: i32) -> i32 {
        match fallible(x) {
            Ok(v) => v,
            Err(_) => -1,
        }
    }

    /// FLAG C15-R1: the Err arm does nothing at all
    pub fn if_let_ok(x: i32) -> i32 {
        let mut out = 0;
        if let Ok(v) = fallible(x) {
            out = v;
        }
        out
    }

    /// ok: the Err arm returns early inside a loop
    pub fn loop_matched(n: i32) -> Result<i32, Error> {
        let mut s = 0;
        for i in 0..n {
            match fallible(i) {
                Ok(v) => s += v,
                Err(e) => return Err(e),
            }
        }
        Ok(s)
    }

    /// FLAG C11-R5: a witnessed `true` is overwritten by the next round (anti mode never leaves the loop early)
    pub fn exists_overwritten(rows: &[Vec<i32>], anti: bool) -> bool {
        let mut exists = false;
        for r in rows {
            exists = r.iter().any(|v| *v > 0);
            if exists && !anti {
                break;
            }
        }
        exists ^ anti
    }

    /// ok: accumulated with |=
    pub fn exists_accumulated(rows: &[Vec<i32>], anti: bool) -> bool {
        let mut exists = false;
        for r in rows {
            exists |= r.iter().any(|v| *v > 0);
            if exists && !anti {
                break;
            }
        }
        exists ^ anti
    }

    /// ok: overwritten, but the loop is left as soon as it is true
    pub fn exists_break(rows: &[Vec<i32>]) -> bool {
        let mut exists = false;
        for r in rows {
            exists = r.iter().any(|v| *v > 0);
            if exists {
                break;
            }
        }
        exists
    }

    /// ok: is_err used as a condition
    pub fn tested(x: i32) -> bool {
        if fallible(x).is_err() { return false; }
        true
    }
}

struct Yield(bool);
impl Future for Yield {
    type Output = ();
    fn poll(mut self: Pin<&mut Self>, cx: &mut Context<'_>) -> Poll<()> {
        if self.0 { Poll::Ready(()) } else { self.0 = true; cx.waker().wake_by_ref(); Poll::Pending }
    }
}

pub struct Shared { m: Mutex<i32> }

impl Shared {
    /// FLAG C10-R2: guard alive across an await
    pub async fn guard_across_await(&self) -> i32 {
        let g = self.m.lock().unwrap();
        Yield(false).await;
        *g
    }

    /// ok: guard dropped before the await
    pub async fn guard_released(&self) -> i32 {
        let v = { let g = self.m.lock().unwrap(); *g };
        Yield(false).await;
        v
    }
}

pub mod planner {
    pub mod rules {
        pub mod range {
            use std::ops::Bound;

            /// FLAG C13-R5: inclusivity discarded before the comparison
            pub fn covers_merged(v: &i64, start: &Bound<i64>) -> bool {
                match start {
                    Bound::Included(s) | Bound::Excluded(s) => v >= s,
                    Bound::Unbounded => true,
                }
            }

            /// ok: the two kinds of bound are compared differently
            pub fn covers_exact(v: &i64, start: &Bound<i64>) -> bool {
                match start {
                    Bound::Included(s) => v >= s,
                    Bound::Excluded(s) => v > s,
                    Bound::Unbounded => true,
                }
            }

            /// ok: merged arm, but only asks whether there is a bound
            pub fn is_bounded(start: &Bound<i64>) -> bool {
                match start {
                    Bound::Included(_) | Bound::Excluded(_) => true,
                    Bound::Unbounded => false,
                }
            }
        }
    }
}

pub mod storage {
    pub mod secondary {
        use std::io::Read;

        /// FLAG C18-R12: `read` may return fewer bytes than asked; the count is thrown away
        pub fn short_read_ignored(f: &mut std::fs::File, buf: &mut [u8]) -> std::io::Result<()> {
            f.read(buf)?;
            Ok(())
        }

        /// ok: the count is looked at
        pub fn short_read_checked(f: &mut std::fs::File, buf: &mut [u8]) -> std::io::Result<bool> {
            let n = f.read(buf)?;
            Ok(n == buf.len())
        }

        /// ok: the count is handed to the caller
        pub fn short_read_returned(f: &mut std::fs::File, buf: &mut [u8]) -> std::io::Result<usize> {
            f.read(buf)
        }

        /// ok: an exact read has no count
        pub fn exact_read(f: &mut std::fs::File, buf: &mut [u8]) -> std::io::Result<()> {
            f.read_exact(buf)?;
            Ok(())
        }
    }
}
