"""Build the verification engines offline and warm the caches. Idempotent; everything stays under /verif."""
import os
import subprocess
import sys

VERIF = os.path.dirname(os.path.dirname(os.path.abspath(__file__)))
sys.path.insert(0, os.path.join(VERIF, 'lib'))


def sh(cmd, cwd):
    env = dict(os.environ, CARGO_NET_OFFLINE='true')
    print('+', ' '.join(cmd), f'(in {cwd})', flush=True)
    subprocess.check_call(cmd, cwd=cwd, env=env)


def main():
    os.makedirs(os.path.join(VERIF, '.cache'), exist_ok=True)
    os.makedirs(os.path.join(VERIF, 'evidence'), exist_ok=True)
    # Engine A: rustc_private driver (needs the pre-installed `nightly` toolchain with rustc-dev; see rust-toolchain.toml)
    sh(['cargo', 'build', '--release', '--offline'], os.path.join(VERIF, 'engines', 'rl-facts'))
    # Engine B: rewrite-rule extractor (syn/proc-macro2 from the offline cargo cache)
    rr = os.path.join(VERIF, 'engines', 'rl-rules')
    if os.path.exists(os.path.join(rr, 'Cargo.toml')):
        sh(['cargo', 'build', '--release', '--offline'], rr)
    # warm the type-check cache of /repo's dependencies (cold: about a minute) and produce the first fact set
    import facts
    d, key, info = facts.ensure_facts('lib')
    print('facts ready:', d, info)
    return 0


if __name__ == '__main__':
    sys.exit(main())
