"""Rule templates of Engine A (DESIGN.md §2.1): T-order, T-who, T-reach, T-cover, T-use, written
once and instantiated per property with anchors taken from the repository."""
import re

from mir import P, suffix, pl_fields, operand_places  # noqa: F401


def poll_pat(name):
    """pattern for the coroutine body of async fn `name` (what `Future::poll` resolves to)"""
    return re.compile(r'(?:^|::|<|\s)' + re.escape(name) + r'::\{closure#0\}$')


def start_sites(prog, body, name, depth=0):
    """blocks at which the effects of calling `name` may begin in `body`: the call itself (for an
    async fn: creation of its future) and every poll of its future; closures that call it."""
    pat = suffix(name)
    out = set(prog.sites(body, pat, depth=depth))
    for c in body.calls:
        if c.fn and c.fn.endswith('Future::poll') and c.res and poll_pat(name).search(c.res):
            out.add(c.bb)
    return sorted(out)


def done_sites(prog, body, name, depth=0):
    """blocks after which `name` has completed: polls of its future if it is awaited here,
    otherwise the (synchronous) call sites."""
    polls = [c.bb for c in body.calls
             if c.fn and c.fn.endswith('Future::poll') and c.res and poll_pat(name).search(c.res)]
    if polls:
        return sorted(set(polls))
    return sorted(set(prog.sites(body, suffix(name), depth=depth)))


def gate_true_targets(body, field):
    """for `if self.<field> {..}` on a bool config field: the blocks entered when it is true"""
    return gate_false_targets(body, field, want_true=True)


def gate_false_targets(body, field, want_true=False):
    """for `if self.<field> {..}` on a bool config field: the blocks entered when it is false"""
    out = []
    for i, bl in enumerate(body.blocks):
        t = bl['term']
        if t['k'] != 'switch':
            continue
        d = t['discr']
        if d['k'] == 'const':
            continue
        l = d['pl']['l']
        # find the defining statement of the switch operand in this block
        src = None
        for st in bl['stmts']:
            if st['s'] == 'assign' and st['lhs']['l'] == l and not st['lhs']['p']:
                src = st['rv']
        if not src or src.get('rv') != 'use' or src['op']['k'] == 'const':
            continue
        if any(f.endswith('::' + field) for f in pl_fields(src['op']['pl'])):
            if want_true:
                if any(v == '0' for v, _ in t['targets']) and t.get('otherwise') is not None:
                    out.append(t['otherwise'])
                continue
            for v, b in t['targets']:
                if v == '0':
                    out.append(b)
    return out


def order_before(ctx, prog, rule, body, a_name, b_name, instance=None, a_depth=0, b_depth=0, sites_extra=None):
    """T-order: in `body`, every path from entry to a start of B passes a completion of A."""
    inst = instance or f'{body.name}:{a_name}≺{b_name}'
    A = done_sites(prog, body, a_name, a_depth)
    B = start_sites(prog, body, b_name, b_depth)
    ctx.functions_analysed.add(body.name)
    if not ctx.anchor(rule, f'{body.name}:{b_name}', B):
        return False
    if not A:
        return ctx.ob(rule, inst, False, f'`{b_name}` is reached in {body.name} but `{a_name}` is never called there',
                      [site(body, b) for b in B])
    bad = [b for b in B if not body.dominated_by_any(set(A), b)]
    return ctx.ob(rule, inst, not bad,
                  f'{body.name}: `{a_name}` (blocks {A}) must complete before `{b_name}` (blocks {B}) on every path'
                  + (f'; a path reaches block(s) {bad} without it' if bad else ''),
                  [site(body, b) for b in (bad or B)] + [site(body, a) for a in A])


def follows(ctx, prog, rule, body, a_blocks, b_name, instance, b_depth=0, allowed=(), what='', until=(), b_sites=None):
    """T-order (post): every path from after each block of `a_blocks` to a successful return of
    `body` passes a completion of B. Error exits (`?`, `return Err`) and panics are not successful
    returns; `allowed` blocks (config-gate exits) are accepted ends and reported. b_sites: the completion blocks of B, when the
    caller has picked them itself (b_name is then only the label)."""
    B = sorted(set(b_sites)) if b_sites is not None else done_sites(prog, body, b_name, b_depth)
    ctx.functions_analysed.add(body.name)
    avoid = set(B) | body.error_exit_blocks() | set(allowed)
    rets = set(body.return_blocks()) | set(until)
    bad = []
    for a in a_blocks:
        starts = body.succs[a]
        reach = body.reachable_from(starts, avoid=avoid)
        if reach & rets:
            bad.append(a)
    return ctx.ob(rule, instance, not bad,
                  f'{body.name}: after {what or "the anchor"} (blocks {list(a_blocks)}) every successful path must pass '
                  f'`{b_name}` (blocks {B})' + (f'; block(s) {bad} reach a successful return without it' if bad else '')
                  + (f'; config-gate exits accepted: {list(allowed)}' if allowed else ''),
                  [site(body, a) for a in a_blocks] + [site(body, b) for b in B])


def site(body, bb):
    t = body.blocks[bb]['term']
    loc = t.get('rspan') or f'{body.loc.rsplit(":", 1)[0]}:{body.blocks[bb].get("ln", "?")}'
    what = t.get('res') or t.get('fn') or t['k']
    return f'{loc} {body.name} bb{bb} {what}'


def who(ctx, prog, rule, pat, allowed_fn, what, floor=None):
    """T-who: every call site whose callee matches `pat` lies in a function accepted by allowed_fn."""
    calls = prog.calls_matching_all(pat)
    n = 0
    for c in calls:
        n += 1
        ok = allowed_fn(c)
        ctx.ob(rule, f'{c.body.root}→{short(c.name)}', ok,
               f'{what}: call to `{c.name}` in `{c.body.name}`' + ('' if ok else ' is outside the allowed owners'),
               [site(c.body, c.bb)])
    if floor is not None:
        ctx.floor(rule, n, floor, f'call sites of {what}')
    return calls


def short(name):
    return re.sub(r'<[^<>]*>', '', name) if name else name


def const_arg(call, i):
    a = call.args[i] if i < len(call.args) else None
    if a and a['k'] == 'const':
        return a.get('v')
    return None


def local_defs(body, l):
    """all assignments / call destinations writing exactly local l (no projection)"""
    out = []
    for i, bl in enumerate(body.blocks):
        if bl['cleanup']:
            continue
        for st in bl['stmts']:
            if st['s'] == 'assign' and st['lhs']['l'] == l and not st['lhs']['p']:
                out.append((i, 'assign', st['rv']))
        t = bl['term']
        if t['k'] == 'call' and t['dest']['l'] == l and not t['dest']['p']:
            out.append((i, 'call', t))
    return out


def flows_from(body, l, pred, depth=12, seen=None):
    """does local l (transitively through moves/copies/refs/casts/field-of) derive from a definition
    satisfying pred(kind, payload)?  Path-insensitive def-use over locals."""
    seen = seen if seen is not None else set()
    if l in seen or depth < 0:
        return False
    seen.add(l)
    for bb, kind, payload in local_defs(body, l):
        if pred(kind, payload, bb):
            return True
        if kind == 'assign':
            for p in operand_places(payload):
                if flows_from(body, p['l'], pred, depth - 1, seen):
                    return True
        else:
            # a call: follow its arguments (conversion / accessor wrappers)
            for a in payload.get('args', []):
                if a['k'] != 'const' and flows_from(body, a['pl']['l'], pred, depth - 1, seen):
                    return True
    return False


# ---- forward use analysis (what happens to a value) ---------------------------------------------
def uses_of(body, l):
    """syntactic uses of local l in non-cleanup blocks:
    ('assign', bb, lhs_place, rv)  l is read by an assignment's rvalue
    ('call', bb, term, argidx)     l is (part of) a call argument
    ('switch', bb, term)           l (or its discriminant read in that block) feeds a SwitchInt
    ('yield', bb, term) / ('return', bb, None) / ('drop', bb, term)"""
    out = []
    for i, bl in enumerate(body.blocks):
        if bl['cleanup']:
            continue
        discr_locals = set()
        for st in bl['stmts']:
            if st['s'] != 'assign':
                continue
            rv = st['rv']
            if any(p['l'] == l for p in operand_places(rv)):
                if rv.get('rv') == 'discr':
                    discr_locals.add(st['lhs']['l'])
                    out.append(('discr', i, st['lhs'], rv))
                else:
                    out.append(('assign', i, st['lhs'], rv))
        t = bl['term']
        k = t['k']
        if k == 'call':
            for ai, a in enumerate(t['args']):
                if a['k'] != 'const' and a['pl']['l'] == l:
                    out.append(('call', i, t, ai))
        elif k == 'switch':
            d = t['discr']
            if d['k'] != 'const' and (d['pl']['l'] == l or d['pl']['l'] in discr_locals):
                out.append(('switch', i, t))
        elif k == 'yield':
            if any(p['l'] == l for p in operand_places(t['value'])):
                out.append(('yield', i, t))
        elif k == 'drop':
            if t['pl']['l'] == l:
                out.append(('drop', i, t))
        elif k == 'return' and l == 0:
            out.append(('return', i, None))
    return out


def fate(body, l, classify_call, depth=10, seen=None, classify_switch=None):
    """follow a value forward through moves and wrapper calls; returns a set of fates:
    'propagated' (returned / yielded / `?` / passed to an accepted consumer), 'matched',
    'swallowed:<callee>' (explicitly discarded), 'dropped' (never looked at), 'stored'."""
    seen = seen if seen is not None else set()
    if l in seen or depth < 0:
        return set()
    seen.add(l)
    fates = set()
    us = uses_of(body, l)
    real = [u for u in us if u[0] != 'drop']
    if l == 0:
        fates.add('propagated')
    if not real:
        fates.add('dropped')
        return fates
    for u in real:
        kind = u[0]
        if kind == 'assign':
            lhs = u[2]
            if classify_switch and any(pl['l'] == l and pl['p'] and pl['p'][0] == 'as:Ok' for pl in operand_places(u[3])):
                continue    # the Ok payload is taken out: says nothing about what happens to the error
            if lhs['p']:
                fates.add('stored')
            elif lhs['l'] == 0:
                fates.add('propagated')
            else:
                fates |= fate(body, lhs['l'], classify_call, depth - 1, seen, classify_switch)
        elif kind == 'discr':
            t = body.blocks[u[1]]['term']
            if classify_switch and t['k'] == 'switch' and t['discr']['k'] != 'const' and t['discr']['pl']['l'] == u[2]['l']:
                continue    # judged at the switch itself
            fates.add('matched')
        elif kind == 'switch':
            fates.add(classify_switch(body, u[1], u[2]) if classify_switch else 'matched')
        elif kind == 'yield' or kind == 'return':
            fates.add('propagated')
        elif kind == 'call':
            t = u[2]
            verdict = classify_call(t, u[3])
            if verdict == 'follow':
                d = t['dest']
                if d['p']:
                    fates.add('stored')
                elif d['l'] == 0:
                    fates.add('propagated')
                else:
                    fates |= fate(body, d['l'], classify_call, depth - 1, seen, classify_switch)
            else:
                fates.add(verdict)
    return fates


def origin_locals(body, l, depth=14, seen=None):
    """all locals from which local l may derive (backwards through assignments and call arguments)"""
    seen = seen if seen is not None else set()
    if l in seen or depth < 0:
        return seen
    seen.add(l)
    for bb, kind, payload in local_defs(body, l):
        if kind == 'assign':
            for p in operand_places(payload):
                origin_locals(body, p['l'], depth - 1, seen)
        else:
            for a in payload.get('args', []):
                if a['k'] != 'const':
                    origin_locals(body, a['pl']['l'], depth - 1, seen)
    return seen


def result_switch_fate(body, bb, term):
    """`match r { Ok(..) => .., Err(..) => .. }` on a Result: 'matched' unless the Err arm does nothing at all, i.e. the
    blocks reachable only through the Err arm (before control rejoins the Ok arm) contain no assignment, call, yield or
    return -- `if let Ok(v) = r { .. }` / `Err(_) => {}`: the error is discarded silently ('swallowed:ignored-Err-arm')."""
    if not (term.get('adt') or '').startswith('std::result::Result'):
        return 'matched'
    names = term.get('variants') or {}
    tg = {names.get(str(v)): t for v, t in term.get('targets') or []}
    other = term.get('otherwise')
    ok_t = tg.get('Ok', other)
    err_t = tg.get('Err', other)
    if ok_t is None or err_t is None or ok_t == err_t:
        return 'matched'
    avoid = frozenset([bb])
    ok_reach = body.reachable_from([ok_t], avoid=avoid)
    err_only = [x for x in body.reachable_from([err_t], avoid=avoid) if x not in ok_reach]
    for x in err_only:
        bl = body.blocks[x]
        if any(st['s'] == 'assign' and not (body.local_ty(st['lhs']['l']) == '()' and not st['lhs']['p'])
               for st in bl['stmts']):   # `_n = ()`: the unit value of an empty arm is not an effect
            return 'matched'
        if bl['term']['k'] not in ('goto', 'drop'):
            return 'matched'
    return 'swallowed:ignored-Err-arm'


def stream_loop(body):
    """(blocks polling a child Stream, blocks entered with `Some(item)`) of the `#[for_await]` loops in a coroutine body"""
    polls = [c.bb for c in body.calls if (c.fn or '').endswith('Stream::poll_next')]
    some_targets = []
    for bl in body.blocks:
        t = bl['term']
        if t['k'] == 'switch' and t.get('adt') == 'std::option::Option' and t.get('on') and \
                any(p.startswith('as:Ready') for p in t['on']['p']):
            for v, tgt in t['targets']:
                if t.get('variants', {}).get(v) == 'Some':
                    some_targets.append(tgt)
    return polls, some_targets


def int_counters(body, ty='usize'):
    """{local: (blocks where it is advanced, locals of the Add results)} for locals initialised to the constant 0 and re-assigned
    from an Add of that type"""
    zero_init = {st['lhs']['l'] for _, st in body.stmts() if st['s'] == 'assign' and not st['lhs']['p']
                 and st.get('rv', {}).get('rv') == 'use' and st['rv']['op']['k'] == 'const'
                 and st['rv']['op'].get('v', '').replace('const ', '') == '0_' + ty}
    adds = {}
    for bb, st in body.stmts():
        rv = st.get('rv', {}) if st['s'] == 'assign' else {}
        if rv.get('rv') == 'binop' and rv['op'].startswith('Add') and rv['ty'] == ty:
            adds[st['lhs']['l']] = bb
    upd = {}
    for bb, st in body.stmts():
        rv = st.get('rv', {}) if st['s'] == 'assign' else {}
        if not st['lhs']['p'] and st['lhs']['l'] in zero_init and rv.get('rv') == 'use' and rv['op']['k'] != 'const' \
                and rv['op']['pl']['l'] in adds:
            blocks, srcs = upd.setdefault(st['lhs']['l'], ([], []))
            blocks.append(bb)
            srcs.append(rv['op']['pl']['l'])
    return upd


def lost_witnesses(body):
    """existence accumulators: bool locals initialised to `false` before a loop and assigned again inside it. Returns
    [(local, init blocks, assignment block)] for every non-accumulating assignment A (`e = x`, not `e |= x`) that is dominated by an
    init and can be reached again from itself without passing an init while `e` may still be true (at a branch on `e` only the true arm
    is followed): a match that was seen can be overwritten by a later round."""
    out = []
    for l, ty in enumerate(body.rec['locals']):
        if ty != 'bool':
            continue
        defs = local_defs(body, l)
        if len(defs) < 2:
            continue
        inits = [bb for bb, k, p in defs if k == 'assign' and p.get('rv') == 'use' and p['op']['k'] == 'const' and 'false' in p['op'].get('v', '')]
        if not inits:
            continue
        sws = {}
        for i, bl in enumerate(body.blocks):
            t = bl['term']
            if t['k'] != 'switch' or t['discr']['k'] == 'const':
                continue
            d = t['discr']['pl']['l']
            on_e = d == l and not t['discr']['pl']['p']
            for st in bl['stmts']:
                if st['s'] == 'assign' and st['lhs']['l'] == d and not st['lhs']['p'] and st['rv'].get('rv') == 'use' \
                        and st['rv']['op']['k'] != 'const' and st['rv']['op']['pl']['l'] == l and not st['rv']['op']['pl']['p']:
                    on_e = True
            if on_e:
                sws[i] = [tgt for v, tgt in t['targets'] if v == '0']
        for bb, k, p in defs:
            if k == 'assign' and p.get('rv') == 'use' and p['op']['k'] == 'const':
                continue
            if k == 'assign' and p.get('rv') == 'binop' and p['op'].startswith('BitOr') and any(pl['l'] == l for pl in operand_places(p)):
                continue
            if not body.dominated_by_any(set(inits), bb):
                continue
            start = [n for n in body.succs[bb] if not (bb in sws and n in sws[bb])]
            seen, todo, hit = set(), start, False
            while todo:
                x = todo.pop()
                if x in seen or x in inits or body.blocks[x]['cleanup']:
                    continue
                seen.add(x)
                if x == bb:
                    hit = True
                    break
                nxt = body.succs[x]
                if x in sws:
                    nxt = [n for n in nxt if n not in sws[x]]
                todo += nxt
            out.append((l, inits, bb, hit))
    return out


def origin_locals_indexed(body, l, depth=30, seen=None):
    """like origin_locals, but a read `a[k]` of an array local that is built by one aggregate follows only its k-th operand"""
    seen = seen if seen is not None else set()
    if l in seen or depth < 0:
        return seen
    seen.add(l)
    for bb, kind, payload in local_defs(body, l):
        if kind == 'assign':
            for p in operand_places(payload):
                m = re.match(r'^\[(\d+)\]$', p['p'][0]) if p['p'] else None
                if m:
                    aggs = [pl for b_, k_, pl in local_defs(body, p['l']) if k_ == 'assign' and pl.get('rv') == 'agg']
                    if len(aggs) == 1 and len(aggs[0].get('ops', [])) > int(m.group(1)):
                        o = aggs[0]['ops'][int(m.group(1))]
                        if o['k'] != 'const':
                            origin_locals_indexed(body, o['pl']['l'], depth - 1, seen)
                        continue
                origin_locals_indexed(body, p['l'], depth - 1, seen)
        else:
            for a in payload.get('args', []):
                if a['k'] != 'const':
                    origin_locals_indexed(body, a['pl']['l'], depth - 1, seen)
    return seen


def fallible_guards(prog, body, is_test, sinks, depth=2):
    """Blocks of `body` that guard `sinks` with a test that can fail the function.

    A guard is (a) a call c in `body` with is_test(body, c) from which an error exit of `body` is reachable without passing a sink, or
    (b) a call to a function of this crate whose own group contains such a test with an error exit (recursively, `depth` levels) and
    whose failure `body` propagates (an error exit is reachable from the call without passing a sink) - the same check moved into a
    helper (`self.check_x(..)?;`). Returns the guarding blocks; the caller decides about dominance."""
    errs = body.error_exit_blocks()
    out = []
    for c in body.calls:
        if not (body.reachable_from([c.bb], avoid=set(sinks)) & errs):
            continue
        if is_test(body, c):
            out.append(c.bb)
            continue
        if depth > 0:
            for cn in prog.callee_bodies(c):
                cb = prog.bodies[cn]
                inner = False
                for g in prog.group(cb.root):
                    if fallible_guards(prog, g, is_test, (), depth - 1):
                        inner = True
                        break
                if inner:
                    out.append(c.bb)
                    break
    return sorted(set(out))


def region_callees(prog, body, region, depth=2):
    """(call in `region` of `body`, callee body) for every function of this crate entered from the region, `depth` call levels deep
    (the call site reported for a deeper callee is still the one in `body`): a region of a function, e.g. the arm of a match, keeps
    its meaning when part of it is moved into a helper. Nearest call first; calls through `Fn*::call` that the compiler could not
    resolve are not followed (they would fan out to every closure of the crate)."""
    def entered(b_, blocks):
        for c in b_.calls:
            if blocks is not None and c.bb not in blocks:
                continue
            if re.search(r'ops::Fn(Mut|Once)?::call(_mut|_once)?$', c.fn or '') and not (c.res and c.res in prog.bodies):
                continue
            for cn in prog.callee_bodies(c):
                cb = prog.bodies[cn]
                if not cb.rec.get('derived') and cb.root != b_.root:
                    yield c, cb.root
    out, seen = [], {body.root}
    level = []
    for c, r in entered(body, region):
        if r not in seen:
            seen.add(r)
            level.append((c, r))
    for _ in range(depth):
        nxt = []
        for c, r in level:
            for g in prog.group(r):
                out.append((c, g))
                for _, r2 in entered(g, None):
                    if r2 not in seen:
                        seen.add(r2)
                        nxt.append((c, r2))
        level = nxt
    return out


def arg_indices(prog, hb, l, depth=8):
    """which arguments of its function (0-based) may local `l` of body `hb` come from? `hb` is the function body itself, or the
    coroutine body of an async fn (its arguments are the captured fields `_1.i`, in the order the function packs them)."""
    out = set()
    org = origin_locals(hb, l, depth=depth)
    if hb.name == hb.root:
        return {x - 1 for x in org if 1 <= x <= hb.rec.get('argc', 0)}
    rb = prog.bodies.get(hb.root)
    if rb is None or hb.name != hb.root + '::{closure#0}':
        return out
    packed = None
    for _, st in rb.stmts():
        rv = st.get('rv')
        if rv and rv.get('rv') == 'agg' and rv.get('def') == hb.name:
            packed = rv['ops']
    if packed is None:
        return out
    from mir import operand_places
    for x in org:
        for bb, kind, payload in local_defs(hb, x):
            if kind != 'assign':
                continue
            for pl in operand_places(payload):
                if pl['l'] == 1 and pl['p'] and pl['p'][0].startswith('f:') and pl['p'][0][2:].rsplit('::', 1)[-1].isdigit():
                    i = int(pl['p'][0][2:].rsplit('::', 1)[-1])
                    if i < len(packed) and packed[i]['k'] != 'const':
                        out |= {y - 1 for y in origin_locals(rb, packed[i]['pl']['l'], depth=4) if 1 <= y <= rb.rec.get('argc', 0)}
    return out


def await_sites(body, call):
    """blocks at which the future built by `call` is polled (its completion sites); the call itself if it is not a future"""
    d = call.dest
    if d is None or d['p']:
        return [call.bb]
    out = []
    for c in body.calls:
        if (c.fn or '').endswith('Future::poll') and c.args and c.args[0]['k'] != 'const' \
                and d['l'] in origin_locals(body, c.args[0]['pl']['l'], depth=8):
            out.append(c.bb)
    return sorted(set(out)) or [call.bb]


def bool_call_true_targets(body, pat):
    """successor blocks taken when a call matching `pat` (returning bool) answered true: `if x.is_y()` and `if !x.is_y()`"""
    pat = re.compile(pat) if isinstance(pat, str) else pat
    out = []
    for c in body.calls:
        if not pat.search(c.name or '') or c.dest is None or c.dest['p']:
            continue
        d = c.dest['l']
        for i, bl in enumerate(body.blocks):
            t = bl['term']
            if t['k'] != 'switch' or bl['cleanup'] or t['discr']['k'] == 'const':
                continue
            dl = t['discr']['pl']['l']
            neg = None
            if dl == d:
                neg = False
            else:
                for st in bl['stmts']:
                    if st['s'] == 'assign' and st['lhs']['l'] == dl and not st['lhs']['p']:
                        rv = st['rv']
                        if rv.get('rv') == 'use' and rv['op']['k'] != 'const' and rv['op']['pl']['l'] == d:
                            neg = False
                        elif rv.get('rv') == 'unop' and rv.get('op') == 'Not' and rv['a']['k'] != 'const' and rv['a']['pl']['l'] == d:
                            neg = True
            if neg is None:
                continue
            zero = [tgt for v, tgt in t['targets'] if v == '0']
            out += zero if neg else [t['otherwise']]
    return sorted(set(out))
