"""Produce and load MIR fact files for /repo's current working tree (Engine A front end).

`ensure_facts(scope)` runs `cargo +nightly check` on /repo with the rl-facts driver injected as
RUSTC_WORKSPACE_WRAPPER, unless facts for exactly this tree (content hash) are already cached.
Nothing of risinglight is executed: the driver stops after analysis (`cargo check`).
"""
import fcntl
import hashlib
import json
import os
import pickle
import shutil
import subprocess
import sys
import time

VERIF = os.path.dirname(os.path.dirname(os.path.abspath(__file__)))
REPO = os.environ.get('VERIF_REPO', '/repo')
CACHE = os.path.join(VERIF, '.cache')
DRIVER = os.path.join(VERIF, 'engines', 'rl-facts', 'target', 'release', 'rl-facts')
KEY_PATHS = ['src', 'proto', 'Cargo.toml', 'Cargo.lock', '.cargo', 'build.rs', 'rust-toolchain', 'tests', 'benches']

SCOPES = {
    # scope -> cargo target selection
    'lib': ['--lib'],
    'all': ['--lib', '--bins', '--tests', '--benches'],
}


def tree_key(repo=REPO):
    """SHA-256 over the names and contents of every file the build reads."""
    h = hashlib.sha256()
    for p in KEY_PATHS:
        full = os.path.join(repo, p)
        if os.path.isfile(full):
            h.update(p.encode())
            h.update(open(full, 'rb').read())
        elif os.path.isdir(full):
            for root, dirs, files in os.walk(full):
                dirs.sort()
                if 'target' in dirs:
                    dirs.remove('target')
                for f in sorted(files):
                    fp = os.path.join(root, f)
                    h.update(os.path.relpath(fp, repo).encode())
                    try:
                        h.update(open(fp, 'rb').read())
                    except OSError:
                        pass
    h.update(open(DRIVER, 'rb').read() if os.path.exists(DRIVER) else b'nodriver')
    return h.hexdigest()[:24]


def sysroot():
    return subprocess.check_output(['rustc', '+nightly', '--print', 'sysroot'], text=True).strip()


def build_driver():
    d = os.path.join(VERIF, 'engines', 'rl-facts')
    env = dict(os.environ, CARGO_NET_OFFLINE='true')
    subprocess.check_call(['cargo', 'build', '--release', '--offline'], cwd=d, env=env)


def ensure_facts(scope='lib', repo=REPO, verbose=True):
    """Return (facts_dir, key, info). Facts are regenerated whenever the tree key changes."""
    if not os.path.exists(DRIVER):
        build_driver()
    os.makedirs(CACHE, exist_ok=True)
    lock = open(os.path.join(CACHE, 'facts.lock'), 'w')
    fcntl.flock(lock, fcntl.LOCK_EX)
    try:
        key = tree_key(repo)
        fdir = os.path.join(CACHE, 'facts', f'{scope}-{key}')
        stamp = os.path.join(fdir, 'DONE')
        if os.path.exists(stamp):
            return fdir, key, json.load(open(stamp))
        # drop older fact sets of this scope (keep the cache small)
        base = os.path.join(CACHE, 'facts')
        os.makedirs(base, exist_ok=True)
        old = sorted((d for d in os.listdir(base) if d.startswith(scope + '-')),
                     key=lambda d: os.path.getmtime(os.path.join(base, d)))
        for d in old[:-3]:
            shutil.rmtree(os.path.join(base, d), ignore_errors=True)
        os.makedirs(fdir)
        target = os.path.join(CACHE, 'target')
        # cargo's freshness cache would skip the wrapper: forget the workspace members
        fp = os.path.join(target, 'debug', '.fingerprint')
        if os.path.isdir(fp):
            for d in os.listdir(fp):
                if d.startswith('risinglight'):
                    shutil.rmtree(os.path.join(fp, d), ignore_errors=True)
        env = dict(os.environ)
        env.pop('RUSTFLAGS', None)  # keep /repo/.cargo/config.toml's --cfg tokio_unstable
        env.update({
            'LD_LIBRARY_PATH': os.path.join(sysroot(), 'lib') + ':' + env.get('LD_LIBRARY_PATH', ''),
            'CARGO_NET_OFFLINE': 'true',
            'RL_FACTS_OUT': fdir,
            'RUSTC_WORKSPACE_WRAPPER': DRIVER,
            'CARGO_TARGET_DIR': target,
        })
        t0 = time.time()
        cmd = ['cargo', '+nightly', 'check', '--offline', '-q'] + SCOPES[scope]
        r = subprocess.run(cmd, cwd=repo, env=env, stdout=subprocess.PIPE, stderr=subprocess.STDOUT, text=True)
        if r.returncode != 0:
            shutil.rmtree(fdir, ignore_errors=True)
            sys.stdout.write(r.stdout[-6000:])
            raise SystemExit(f'rl-facts: `{" ".join(cmd)}` failed on {repo} (the tree does not type-check?)')
        files = sorted(f for f in os.listdir(fdir) if f.endswith('.jsonl'))
        if not any(f.startswith('risinglight-') for f in files):
            shutil.rmtree(fdir, ignore_errors=True)
            raise SystemExit('rl-facts: no fact file was written for crate risinglight (wrapper skipped?)')
        info = {'key': key, 'scope': scope, 'files': files, 'cargo_s': round(time.time() - t0, 1)}
        json.dump(info, open(stamp, 'w'))
        if verbose:
            print(f'[facts] {scope} key={key} files={len(files)} in {info["cargo_s"]}s', file=sys.stderr)
        return fdir, key, info
    finally:
        fcntl.flock(lock, fcntl.LOCK_UN)
        lock.close()


def fixture_facts(verbose=False):
    """facts of the positive-example crate tests/fixture, produced by the same driver"""
    if not os.path.exists(DRIVER):
        build_driver()
    fx = os.path.join(VERIF, 'tests', 'fixture')
    h = hashlib.sha256()
    for f in ('Cargo.toml', 'src/lib.rs'):
        h.update(open(os.path.join(fx, f), 'rb').read())
    h.update(open(DRIVER, 'rb').read())
    key = h.hexdigest()[:16]
    fdir = os.path.join(CACHE, 'facts', f'fixture-{key}')
    if os.path.exists(os.path.join(fdir, 'DONE')):
        return fdir
    lock = open(os.path.join(CACHE, 'fixture.lock'), 'w')
    fcntl.flock(lock, fcntl.LOCK_EX)
    try:
        if os.path.exists(os.path.join(fdir, 'DONE')):
            return fdir
        shutil.rmtree(fdir, ignore_errors=True)
        os.makedirs(fdir)
        target = os.path.join(CACHE, 'target-fixture')
        shutil.rmtree(os.path.join(target, 'debug', '.fingerprint'), ignore_errors=True)
        env = dict(os.environ)
        env.pop('RUSTFLAGS', None)
        env.update({'LD_LIBRARY_PATH': os.path.join(sysroot(), 'lib') + ':' + env.get('LD_LIBRARY_PATH', ''),
                    'CARGO_NET_OFFLINE': 'true', 'RL_FACTS_OUT': fdir, 'RUSTC_WORKSPACE_WRAPPER': DRIVER,
                    'CARGO_TARGET_DIR': target})
        r = subprocess.run(['cargo', '+nightly', 'check', '--offline', '-q', '--lib'], cwd=fx, env=env,
                           stdout=subprocess.PIPE, stderr=subprocess.STDOUT, text=True)
        if r.returncode != 0 or not any(f.endswith('.jsonl') for f in os.listdir(fdir)):
            shutil.rmtree(fdir, ignore_errors=True)
            raise SystemExit('rl-facts: fixture crate did not compile:\n' + r.stdout[-3000:])
        open(os.path.join(fdir, 'DONE'), 'w').write('{}')
        return fdir
    finally:
        fcntl.flock(lock, fcntl.LOCK_UN)
        lock.close()


def load_records(fdir):
    """Parse every fact file of a fact directory; cached as a pickle next to it."""
    pk = os.path.join(fdir, 'records.pickle')
    if os.path.exists(pk):
        try:
            return pickle.load(open(pk, 'rb'))
        except Exception:
            pass
    crates = []
    for f in sorted(os.listdir(fdir)):
        if not f.endswith('.jsonl'):
            continue
        recs = [json.loads(l) for l in open(os.path.join(fdir, f))]
        head = recs[0]
        crates.append({'file': f, 'crate': head['name'], 'types': head['types'], 'test': head['test'], 'recs': recs})
    tmp = pk + f'.{os.getpid()}'
    pickle.dump(crates, open(tmp, 'wb'), protocol=pickle.HIGHEST_PROTOCOL)
    os.replace(tmp, pk)
    return crates


if __name__ == '__main__':
    scope = sys.argv[1] if len(sys.argv) > 1 else 'lib'
    d, k, info = ensure_facts(scope)
    print(d, info)
