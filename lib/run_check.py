"""./check <Cnn> quick|thorough : run the static rules of one property on /repo's current tree."""
import importlib
import os
import sys
import traceback

VERIF = os.path.dirname(os.path.dirname(os.path.abspath(__file__)))
sys.path.insert(0, os.path.join(VERIF, 'lib'))
sys.path.insert(0, VERIF)
import vf  # noqa: E402


def main():
    if len(sys.argv) < 2:
        print('usage: ./check <Cnn> [quick|thorough]')
        return 2
    pid = sys.argv[1].upper()
    tier = sys.argv[2] if len(sys.argv) > 2 else os.environ.get('VERIF_TIER', 'quick')
    seed = int(os.environ.get('VERIF_SEED', '0') or 0)
    ctx = vf.Ctx(pid, tier, seed)
    try:
        mod = importlib.import_module(f'rules.{pid.lower()}')
    except ModuleNotFoundError:
        print(f'no rules for {pid}')
        return 2
    try:
        mod.run(ctx)
    except SystemExit:
        raise
    except Exception:
        # an analysis crash is a broken check, never a silent pass
        traceback.print_exc()
        ctx.violation('internal', 'checker-crash', 'the checker raised an exception (see stderr); fail closed')
    return vf.finish(ctx)


if __name__ == '__main__':
    sys.exit(main())
