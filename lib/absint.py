"""A small abstract interpreter over the MIR facts, for predicates on enum variants.

Used where a property needs the *set of variant combinations* a small pure function accepts (the type rules of the
planner): the function is evaluated for every combination of enum variants of its arguments, over the abstract domain

    T(variant)            a value of the enum, payload unknown
    True / False          a known bool
    ('ref', v)            a reference to v
    ('tup', [v..])        a tuple / array / aggregate with known shape
    ('opt', True|False)   Some(_) / None
    UNK                   anything else

A branch on UNK forks (both successors are explored), so the answer is a *may* set: the outcomes of all paths.
Nothing is executed: the walk is over the control-flow graph of the type-checked program, with a step bound.
Unknown calls return UNK; `Abort` is raised only on malformed facts."""
import re

UNK = None


class Abort(Exception):
    pass


def T(v):
    return ('T', v)


def is_T(x):
    return isinstance(x, tuple) and x and x[0] == 'T'


class Interp:
    def __init__(self, prog, enum, order, max_steps=4000, mark=None):
        self.mark = mark            # predicate on an aggregate rvalue: paths that build such a value are marked
        self.prog = prog
        self.enum = enum            # e.g. 'types::DataType'
        self.order = order          # variant name -> declaration index (for derived PartialOrd)
        self.max_steps = max_steps

    # ---- places -----------------------------------------------------------------------------------------------------
    def read(self, mem, pl):
        v = mem.get(pl['l'], UNK)
        for p in pl['p']:
            if v is UNK:
                return UNK
            if p == '*':
                v = v[1] if isinstance(v, tuple) and v[0] == 'ref' else UNK
            elif p.startswith('[') and p[1:-1].isdigit():
                v = v[1][int(p[1:-1])] if isinstance(v, tuple) and v[0] == 'tup' and int(p[1:-1]) < len(v[1]) else UNK
            elif p.startswith('f:'):
                f = p[2:].rsplit('::', 1)[-1]
                if isinstance(v, tuple) and v[0] == 'tup' and f.isdigit() and int(f) < len(v[1]):
                    v = v[1][int(f)]
                else:
                    v = UNK
            else:           # downcast (payload of an enum value) and anything else
                v = UNK if not p.startswith('as:') else (('down', v) if is_T(v) else UNK)
                if isinstance(v, tuple) and v[0] == 'down':
                    v = UNK
        return v

    def operand(self, body, mem, op):
        if op['k'] == 'const':
            s = str(op.get('v', ''))
            if s == 'true':
                return True
            if s == 'false':
                return False
            m = re.match(r'promoted\[(\d+)\]', s)
            if m and body.rec.get('promoted') and int(m.group(1)) < len(body.rec['promoted']):
                pm = {}
                for st in body.rec['promoted'][int(m.group(1))]:
                    if st['s'] == 'assign' and not st['lhs']['p']:
                        pm[st['lhs']['l']] = self.rvalue(body, pm, st['rv'])
                return pm.get(0, UNK)
            return UNK
        return self.read(mem, op['pl'])

    def rvalue(self, body, mem, rv):
        k = rv['rv']
        if k == 'use':
            return self.operand(body, mem, rv['op'])
        if k == 'ref':
            return ('ref', self.read(mem, rv['pl']))
        if k == 'agg':
            if self.mark is not None and rv.get('kind') == 'adt' and self.mark(rv):
                mem['#m'] = True
            if rv.get('kind') == 'adt':
                if rv['adt'].endswith('result::Result'):
                    return ('res', rv['variant'])
                if rv['adt'] == self.enum:
                    return T(rv['variant'])
                if rv['adt'].endswith('option::Option'):
                    return ('opt', rv['variant'] == 'Some')
                return UNK
            return ('tup', [self.operand(body, mem, o) for o in rv.get('ops', [])])
        if k == 'discr':
            v = self.read(mem, rv['pl'])
            if is_T(v):
                return ('disc', v[1])
            if isinstance(v, tuple) and v[0] == 'opt' and isinstance(v[1], bool):
                return ('disc', 'Some' if v[1] else 'None')
            if isinstance(v, tuple) and v[0] in ('res', 'cf'):
                return ('disc', v[1])
            return UNK
        if k == 'cast':
            return self.operand(body, mem, rv['op']) if 'op' in rv else UNK
        if k == 'unop' and rv.get('op') == 'Not':
            v = self.operand(body, mem, rv['a']) if 'a' in rv else UNK
            return (not v) if isinstance(v, bool) else UNK
        if k == 'binop' and rv.get('op') in ('BitAnd', 'BitOr', 'Eq', 'Ne'):
            a, b = self.operand(body, mem, rv['a']), self.operand(body, mem, rv['b'])
            if isinstance(a, bool) and isinstance(b, bool):
                return {'BitAnd': a and b, 'BitOr': a or b, 'Eq': a == b, 'Ne': a != b}[rv['op']]
            if rv['op'] in ('Eq', 'Ne') and isinstance(a, tuple) and isinstance(b, tuple) and a[0] == b[0] == 'disc':
                return (a[1] == b[1]) == (rv['op'] == 'Eq')
            return UNK
        return UNK

    # ---- calls ------------------------------------------------------------------------------------------------------
    def call(self, body, mem, t, depth):
        fn, res = t.get('fn') or '', t.get('res') or ''
        args = [self.operand(body, mem, a) for a in t['args']]

        def deref(v):
            while isinstance(v, tuple) and v[0] == 'ref':
                v = v[1]
            return v
        if re.search(r'cmp::PartialEq::(eq|ne)$', fn) and self.enum in res:
            a, b = deref(args[0]), deref(args[1])
            if is_T(a) and is_T(b):
                return [(a[1] == b[1]) == fn.endswith('eq')]
            return [UNK]
        if re.search(r'cmp::PartialOrd::(lt|le|gt|ge)$', fn) and self.enum in res:
            a, b = deref(args[0]), deref(args[1])
            if is_T(a) and is_T(b) and a[1] != b[1] and a[1] in self.order and b[1] in self.order:
                ia, ib = self.order[a[1]], self.order[b[1]]
                return [{'lt': ia < ib, 'le': ia <= ib, 'gt': ia > ib, 'ge': ia >= ib}[fn.rsplit('::', 1)[-1]]]
            return [UNK]
        if fn.endswith('bool>::then_some') or fn.endswith('bool::then_some'):
            return [('opt', args[0])] if isinstance(args[0], bool) else [UNK]
        if fn.endswith('bool>::then') or fn.endswith('bool::then'):
            return [('opt', args[0])] if isinstance(args[0], bool) else [UNK]
        if re.search(r'clone::Clone::clone$', fn):
            return [deref(args[0])]
        if re.search(r'Option::<T>::(ok_or|ok_or_else)$', fn):
            if isinstance(args[0], tuple) and args[0][0] == 'opt' and isinstance(args[0][1], bool):
                return [('res', 'Ok' if args[0][1] else 'Err')]
            return [('res', 'Ok'), ('res', 'Err')]
        if fn.endswith('ops::Try::branch'):
            if isinstance(args[0], tuple) and args[0][0] == 'res':
                return [('cf', 'Continue' if args[0][1] == 'Ok' else 'Break')]
            if isinstance(args[0], tuple) and args[0][0] == 'opt' and isinstance(args[0][1], bool):
                return [('cf', 'Continue' if args[0][1] else 'Break')]
            return [('cf', 'Continue'), ('cf', 'Break')]
        if fn.endswith('ops::FromResidual::from_residual'):
            return [('res', 'Err')]
        tgt = res if res in self.prog.bodies else (fn if fn in self.prog.bodies else None)
        if tgt and depth < 3 and not self.prog.bodies[tgt].rec.get('derived'):
            outs = self.run(self.prog.bodies[tgt], args, depth + 1, marks=True)
            return [('#marked', v) if m else v for v, m in outs] or [UNK]
        return [UNK]

    # ---- the walk ---------------------------------------------------------------------------------------------------
    def run(self, body, args, depth=0, marks=False):
        """all abstract return values of `body` applied to `args` (list, one per MIR argument local _1.._n);
        with marks=True: pairs (value, path-was-marked)"""
        outs, steps = [], [0]
        start = {i + 1: a for i, a in enumerate(args)}
        start['#v'] = {}
        stack = [(0, start)]
        while stack:
            bb, mem = stack.pop()
            while True:
                steps[0] += 1
                if steps[0] > self.max_steps:
                    raise Abort(f'step bound in {body.name}')
                seen = mem['#v']
                seen[bb] = seen.get(bb, 0) + 1
                if seen[bb] > 2:
                    break                           # a loop: this path adds nothing new
                bl = body.blocks[bb]
                for st in bl['stmts']:
                    if st['s'] == 'assign':
                        val = self.rvalue(body, mem, st['rv'])
                        if not st['lhs']['p']:
                            mem[st['lhs']['l']] = val
                        # writes through projections are ignored (the written aggregate becomes imprecise)
                        elif st['lhs']['l'] in mem:
                            mem[st['lhs']['l']] = UNK
                t = bl['term']
                k = t['k']
                if k == 'return':
                    outs.append((mem.get(0, UNK), bool(mem.get('#m'))) if marks else mem.get(0, UNK))
                    break
                if k in ('goto', 'drop'):
                    bb = t['t']
                    continue
                if k == 'assert':
                    bb = t['t']
                    continue
                if k == 'call':
                    if t.get('t') is None:
                        break                       # diverges
                    rets = self.call(body, mem, t, depth)
                    rets = list(dict.fromkeys(rets)) if all(_hashable(r) for r in rets) else rets

                    def unmark(m_, r):
                        if isinstance(r, tuple) and r and r[0] == '#marked':
                            m_['#m'] = True
                            return r[1]
                        return r
                    for extra in rets[1:]:
                        m2 = dict(mem)
                        m2['#v'] = dict(mem['#v'])
                        extra = unmark(m2, extra)
                        if not t['dest']['p']:
                            m2[t['dest']['l']] = extra
                        stack.append((t['t'], m2))
                    r0 = unmark(mem, rets[0])
                    if not t['dest']['p']:
                        mem[t['dest']['l']] = r0
                    bb = t['t']
                    continue
                if k == 'switch':
                    d = self.operand(body, mem, t['discr'])
                    nxt = None
                    if isinstance(d, bool):
                        nxt = next((tgt for v, tgt in t['targets'] if (v != '0') == d), t['otherwise'])
                    elif isinstance(d, tuple) and d[0] == 'disc':
                        names = t.get('variants', {})
                        nxt = next((tgt for v, tgt in t['targets'] if names.get(str(v)) == d[1]), t['otherwise'])
                    if nxt is None:
                        succ = list(dict.fromkeys([tgt for _, tgt in t['targets']] + [t['otherwise']]))
                        for s in succ[1:]:
                            m2 = dict(mem)
                            m2['#v'] = dict(mem['#v'])
                            stack.append((s, m2))
                        nxt = succ[0]
                    bb = nxt
                    continue
                break                               # resume / unreachable / yield: not a return
        return outs


def _hashable(x):
    try:
        hash(x)
        return True
    except TypeError:
        return False


def variant_order(prog, enum):
    """declaration order of the variants of `enum`, from the widest switch on it"""
    best = {}
    for b in prog.bodies.values():
        for bl in b.blocks:
            t = bl['term']
            if t['k'] == 'switch' and t.get('adt') == enum and len(t.get('variants', {})) > len(best):
                best = t['variants']
    return {name: int(v) for v, name in best.items()}
