"""Queries over the MIR facts dumped by rl-facts: CFG, dominance, call sites, call graph,
function groups (a fn plus its nested closures / coroutine bodies), def-use helpers.

Everything here reads the facts of the *type-checked program*; nothing is executed.
"""
import re
from collections import defaultdict, deque


class Call:
    __slots__ = ('body', 'bb', 't')

    def __init__(self, body, bb, t):
        self.body, self.bb, self.t = body, bb, t

    @property
    def fn(self):
        return self.t.get('fn')

    @property
    def res(self):
        return self.t.get('res')

    @property
    def name(self):
        """resolved callee if the compiler could resolve it, else the declared callee"""
        return self.t.get('res') or self.t.get('fn')

    @property
    def names(self):
        out = [n for n in (self.t.get('fn'), self.t.get('res')) if n]
        # `a::b::<impl X>::m` is also addressable as `X::m`
        out += [norm_impl(n) for n in list(out) if '<impl ' in n]
        return out

    @property
    def args(self):
        return self.t.get('args', [])

    @property
    def dest(self):
        return self.t.get('dest')

    @property
    def target(self):
        return self.t.get('t')

    @property
    def loc(self):
        return self.t.get('rspan')

    @property
    def expanded(self):
        return self.t.get('exp', False)

    def matches(self, pat):
        return any(pat.search(n) for n in self.names)

    def __repr__(self):
        return f'<call {self.name} @{self.body.name} bb{self.bb} {self.loc}>'


def norm_impl(n):
    return re.sub(r'<impl (?:[^<>]|<[^<>]*>)*?([A-Za-z_0-9:]+(?:<[^<>]*>)?)>::', r'\1::', n)


def P(pattern):
    """compile a callee pattern; plain strings are matched as path suffixes"""
    if hasattr(pattern, 'search'):
        return pattern
    return re.compile(pattern)


def suffix(*names, nested=False):
    """pattern matching any of the given def-path suffixes (`Type::method`), on fn or resolved name;
    nested=True also matches bodies nested in it (`..::{closure#0}`)"""
    alts = '|'.join(re.escape(n) for n in names)
    return re.compile(r'(?:^|::|<|\s)(?:' + alts + (r')(?:$|>$|::\{)' if nested else r')(?:$|>$)'))


class Body:
    def __init__(self, rec, prog):
        self.rec = rec
        self.prog = prog
        self.name = rec['fn']
        self.blocks = rec['blocks']
        self.root = rec.get('root', rec['fn'])
        self.parent = rec.get('parent')
        self.loc = rec.get('loc')
        self.kind = rec.get('kind')
        self._dom = None
        self._calls = None
        self._succ = None
        self._pred = None

    # ---- CFG -------------------------------------------------------------------------------
    def succ(self, bb, unwind=False):
        t = self.blocks[bb]['term']
        k = t['k']
        out = []
        if k == 'goto':
            out = [t['t']]
        elif k == 'switch':
            out = [b for _, b in t['targets']] + [t['otherwise']]
        elif k in ('call', 'drop', 'assert'):
            if t.get('t') is not None:
                out = [t['t']]
        elif k == 'yield':
            out = [t['t']]
            if unwind and t.get('drop') is not None:
                out.append(t['drop'])
        if unwind and t.get('unwind') is not None:
            out.append(t['unwind'])
        return out

    @property
    def succs(self):
        if self._succ is None:
            self._succ = [self.succ(i) for i in range(len(self.blocks))]
        return self._succ

    @property
    def preds(self):
        if self._pred is None:
            p = [[] for _ in self.blocks]
            for i, ss in enumerate(self.succs):
                for s in ss:
                    p[s].append(i)
            self._pred = p
        return self._pred

    def reachable_from(self, starts, avoid=frozenset()):
        """blocks reachable from any of `starts` along normal edges without entering `avoid`"""
        seen = set()
        dq = deque(s for s in starts if s not in avoid)
        seen.update(dq)
        while dq:
            b = dq.popleft()
            for s in self.succs[b]:
                if s not in seen and s not in avoid:
                    seen.add(s)
                    dq.append(s)
        return seen

    def reaches(self, a, b, avoid=frozenset()):
        return b in self.reachable_from([a], avoid)

    def live_blocks(self):
        return self.reachable_from([0])

    def dominates(self, a, b):
        """every path entry -> b passes a  (a == b counts)"""
        if a == b:
            return True
        live = self.reachable_from([0], avoid={a})
        return b not in live

    def dominated_by_any(self, As, b):
        """every path entry -> b passes some block of As"""
        if b in As:
            return True
        return b not in self.reachable_from([0], avoid=set(As))

    def ret_locals(self):
        """locals whose whole value becomes the return value: `_0` and everything moved into it as a whole (`_0 = move _7`; in a body
        with an inlined helper, the helper's own return place)"""
        if getattr(self, '_retl', None) is None:
            out = {0}
            changed = True
            while changed:
                changed = False
                for _, st in self.stmts():
                    rv = st.get('rv')
                    if st['s'] == 'assign' and st['lhs']['l'] in out and not st['lhs']['p'] and rv and rv.get('rv') == 'use' \
                            and rv['op']['k'] != 'const' and not rv['op']['pl']['p'] and rv['op']['pl']['l'] not in out:
                        out.add(rv['op']['pl']['l'])
                        changed = True
            self._retl = out
        return self._retl

    def self_aliases(self, base=1):
        """locals that stand for the receiver as a whole: `_1`, its plain copies and reborrows (`&mut *_1`); in a body with inlined
        helpers these are the `self` of the helpers"""
        cache = self.__dict__.setdefault('_selfal', {})
        if base not in cache:
            out = {base}
            changed = True
            while changed:
                changed = False
                for _, st in self.stmts():
                    if st['s'] != 'assign' or st['lhs']['p'] or st['lhs']['l'] in out:
                        continue
                    rv = st['rv']
                    src = None
                    if rv.get('rv') == 'use' and rv['op']['k'] != 'const' and not rv['op']['pl']['p']:
                        src = rv['op']['pl']['l']
                    elif rv.get('rv') == 'ref' and rv['pl']['p'] == ['*']:
                        src = rv['pl']['l']
                    if src in out:
                        out.add(st['lhs']['l'])
                        changed = True
            cache[base] = out
        return cache[base]

    def return_blocks(self):
        return [i for i, bl in enumerate(self.blocks) if bl['term']['k'] == 'return']

    def error_exit_blocks(self):
        """blocks that are on a `?`/`return Err` path: call FromResidual::from_residual, or build Result::Err"""
        out = set()
        for i, bl in enumerate(self.blocks):
            t = bl['term']
            if t['k'] == 'call' and t.get('fn', '').endswith('FromResidual::from_residual'):
                out.add(i)
            for st in bl['stmts']:
                rv = st.get('rv')
                if rv and rv.get('rv') == 'agg' and rv.get('kind') == 'adt' and rv.get('adt') == 'std::result::Result' \
                        and rv.get('variant') == 'Err' and st['lhs']['l'] == 0 and not st['lhs']['p']:
                    out.add(i)   # `return Err(..)`: the Err is built directly in the return place
        return out

    def panic_blocks(self):
        out = set()
        for c in self.calls:
            if c.target is None and re.search(r'(core|std)::panicking::|::unwrap_failed|::expect_failed|begin_panic', c.fn or ''):
                out.add(c.bb)
        return out

    def diverges(self, bb, _depth=0):
        """all paths from bb end in a panic/unreachable (never reach return / yield)"""
        seen = set()
        dq = deque([bb])
        while dq:
            b = dq.popleft()
            if b in seen:
                continue
            seen.add(b)
            t = self.blocks[b]['term']
            if t['k'] in ('return', 'yield', 'coroutine_drop'):
                return False
            ss = self.succs[b]
            if not ss and t['k'] not in ('call', 'unreachable', 'resume', 'terminate', 'assert'):
                return False
            dq.extend(ss)
        return True

    # ---- call sites ------------------------------------------------------------------------
    @property
    def calls(self):
        if self._calls is None:
            self._calls = [Call(self, i, bl['term']) for i, bl in enumerate(self.blocks)
                           if bl['term']['k'] == 'call' and not bl['cleanup']]
        return self._calls

    def calls_to(self, pat):
        pat = P(pat)
        return [c for c in self.calls if c.matches(pat)]

    def closure_sites(self):
        """(bb, child body name) for every closure/coroutine aggregate built in this body"""
        out = []
        for i, bl in enumerate(self.blocks):
            if bl['cleanup']:
                continue
            for st in bl['stmts']:
                rv = st.get('rv')
                if rv and rv.get('rv') == 'agg' and rv.get('kind') in ('closure', 'coroutine', 'coroutine_closure'):
                    out.append((i, rv['def']))
        return out

    def stmts(self):
        for i, bl in enumerate(self.blocks):
            if bl['cleanup']:
                continue
            for st in bl['stmts']:
                yield i, st

    def aggregates(self, adt=None, variant=None):
        for i, st in self.stmts():
            rv = st.get('rv')
            if rv and rv.get('rv') == 'agg' and rv.get('kind') == 'adt':
                if adt is not None and rv['adt'] != adt:
                    continue
                if variant is not None and rv['variant'] != variant:
                    continue
                yield i, st

    def local_ty(self, l):
        return self.rec['locals'][l]

    def var_name(self, l):
        for v in self.rec['vars']:
            if v['pl']['l'] == l and not v['pl']['p']:
                return v['name']
        return None

    def __repr__(self):
        return f'<body {self.name}>'


def pl_fields(pl):
    """field names ('Adt::field') along a place's projection"""
    return [p[2:] for p in pl['p'] if p.startswith('f:')]


def operand_places(x):
    """all places mentioned by an rvalue / operand / terminator json"""
    out = []

    def walk(o):
        if isinstance(o, dict):
            if 'l' in o and 'p' in o and isinstance(o['p'], list):
                out.append(o)
                return
            for v in o.values():
                walk(v)
        elif isinstance(o, list):
            for v in o:
                walk(v)
    walk(x)
    return out


class Prog:
    def __init__(self, crates, crate='risinglight', test=False, kind='Rlib', recs=None, label=None):
        self.crates = crates
        if recs is None:
            recs = []
            for c in crates:
                if c['crate'] == crate and c['test'] == test and kind in c['types']:
                    recs = c['recs']
        self.recs = recs
        self.label = label or f'{crate}({kind}{",test" if test else ""})'
        self.extra = []
        self.bodies = {}
        for r in recs:
            if r['t'] == 'body':
                # `_` consts (derive expansions) share names: keep the first, they are not functions
                self.bodies.setdefault(r['fn'], Body(r, self))
        self.adts = {r['adt']: r for r in recs if r['t'] == 'adt'}
        self.impls = [r for r in recs if r['t'] == 'impl']
        self.consts = {r['name']: r for r in recs if r['t'] == 'const'}
        self.lints = {r['lint']: r['level'] for r in recs if r['t'] == 'lint'}
        self.children = defaultdict(list)
        for b in self.bodies.values():
            if b.root != b.name:
                self.children[b.root].append(b)
        # trait method -> impl methods (class hierarchy for unresolved trait calls)
        self.trait_impls = defaultdict(list)
        for b in self.bodies.values():
            tr = b.rec.get('impl_trait')
            if tr:
                meth = b.name.rsplit('::', 1)[-1]
                self.trait_impls[f'{tr}::{meth}'].append(b.name)
        self._callers = None

    # ---- lookup ----------------------------------------------------------------------------
    def body(self, name, raw=False):
        """the body a rule is anchored in - by default with the private helpers only it calls spliced in (`inlined`, lib/inline.py): a
        rule that is local to one function must not notice that a maintainer cut the function in two. raw=True: exactly as compiled."""
        b = self.bodies.get(name)
        if b is None or raw:
            return b
        return self.inlined(b)

    def find(self, pat):
        pat = P(pat)
        return [b for n, b in self.bodies.items() if pat.search(n)]

    def group(self, root, raw=False):
        """a function and all bodies nested in it (closures, async/stream coroutine bodies) - like `body`, seen with the private helpers
        spliced in: each member is the inlined member, and the closures of the helpers spliced into it belong to the group as well.
        raw=True: exactly as compiled."""
        if isinstance(root, Body):
            root = root.root
        out = []
        if root in self.bodies:
            out.append(self.bodies[root])
        out.extend(self.children.get(root, []))
        if raw:
            return out
        cache = self.__dict__.setdefault('_grp', {})
        if root not in cache:
            res, helpers = [], []
            for m in out:
                im = self.inlined(m)
                res.append(im)
                helpers += getattr(im, 'inlined_from', [])
            for r in dict.fromkeys(helpers):
                for ch in self.children.get(r, []):
                    if not (ch.name == r + '::{closure#0}' and ch.rec.get('coroutine')):     # (that one is the spliced body itself)
                        res.append(self.inlined(ch))
            cache[root] = res
        return list(cache[root])

    def group_calls(self, root, pat=None):
        out = []
        for b in self.group(root):
            out.extend(b.calls if pat is None else b.calls_to(pat))
        return out

    def roots(self):
        return [b for b in self.bodies.values() if b.root == b.name]

    # ---- call graph ------------------------------------------------------------------------
    def callee_bodies(self, call):
        """names of local bodies a call may enter (resolved, or all impls of the trait method)"""
        out = []
        r = call.res
        if r and r in self.bodies:
            out.append(r)
        elif call.fn in self.bodies:
            out.append(call.fn)
        elif call.fn and not r and call.fn in self.trait_impls:
            out.extend(self.trait_impls[call.fn])
        elif call.fn and r is None and call.t.get('trait'):
            out.extend(self.trait_impls.get(call.fn, []))
        return out

    def group_callees(self, root):
        """local function groups called from a group (roots)"""
        out = set()
        for c in self.group_calls(root):
            for n in self.callee_bodies(c):
                out.add(self.bodies[n].root)
        for g in self.group(root):          # helpers spliced into the group are callees all the same
            out |= set(getattr(g, 'inlined_from', []))
        return out

    def reach(self, root, depth=8):
        """groups reachable from `root` within `depth` call edges (including root)"""
        seen = {root: 0}
        dq = deque([root])
        while dq:
            r = dq.popleft()
            if seen[r] >= depth:
                continue
            for n in self.group_callees(r):
                if n not in seen:
                    seen[n] = seen[r] + 1
                    dq.append(n)
        return seen

    def group_reaches_call(self, root, pat, depth=4):
        """does the group (or anything it calls locally within depth) call something matching pat?"""
        pat = P(pat)
        for r in self.reach(root, depth):
            if self.group_calls(r, pat):
                return True
        return False

    @property
    def callers(self):
        """callee name (fn and resolved) -> list of Call"""
        if self._callers is None:
            idx = defaultdict(list)
            for b in self.bodies.values():
                for c in b.calls:
                    for n in set(c.names):
                        idx[n].append(c)
            self._callers = idx
        return self._callers

    def inlined(self, body, **kw):
        """the body with the helpers only it calls spliced in (lib/inline.py); the body itself when there are none"""
        import inline
        if isinstance(body, str):
            body = self.body(body, raw=True)
        if body is None:
            return None
        if 'keep' not in kw:
            kw['keep'] = _anchored_names()
        key = (body.name, tuple(sorted((k, getattr(v, 'pattern', v)) for k, v in kw.items())))
        cache = self.__dict__.setdefault('_inl', {})
        if key not in cache:
            cache[key] = inline.inlined(self, body, **kw)
        return cache[key]

    def owner_root(self, root, depth=3):
        """the function a private helper belongs to: while every call of `root` sits in one other function of the same file, that one
        (functions that the rules name are anchors themselves and are not climbed past)"""
        for _ in range(depth):
            if _anchored_names().search(root):
                break                   # a function the rules name is nobody's helper
            cs = [c for c in self.callers.get(root, []) if c.body.root != root]
            for x in self.extra:
                cs += [c for c in x.callers.get(root, []) if c.body.root != root]
            up = {c.body.root for c in cs}
            if len(up) != 1:
                break
            r2 = next(iter(up))
            a_, b_ = self.bodies.get(root), self.bodies.get(r2)
            if a_ is None or b_ is None or (a_.loc or '?').rsplit(':', 1)[0] != (b_.loc or '??').rsplit(':', 1)[0]:
                break
            root = r2
        return root

    def owned_by(self, root, owners, depth=3):
        """`root` is one of `owners`, or a private helper of them: it has callers in this crate and every one of them is owned
        (a function split off an owner keeps the owner's rights; a caller from anywhere else takes them away)"""
        if root in owners:
            return True
        if depth == 0:
            return False
        cs = [c for c in self.callers.get(root, []) if c.body.root != root]
        for x in self.extra:
            cs += [c for c in x.callers.get(root, []) if c.body.root != root]
        return bool(cs) and all(self.owned_by(c.body.root, owners, depth - 1) for c in cs)

    def calls_matching_all(self, pat):
        """call sites in the library and in every other target of the scope (bin, tests, benches)"""
        out = list(self.calls_matching(pat))
        for p in self.extra:
            out.extend(p.calls_matching(pat))
        return out

    def calls_matching(self, pat):
        pat = P(pat)
        out = []
        seen = set()
        for n, cs in self.callers.items():
            if pat.search(n):
                for c in cs:
                    k = (c.body.name, c.bb)
                    if k not in seen:
                        seen.add(k)
                        out.append(c)
        return out

    # ---- sites in a body that (transitively) perform something ------------------------------
    def sites(self, body, pat, depth=0, via_closures=True):
        """blocks of `body` at which something matching `pat` happens: a direct call, a call to a
        local function whose group reaches `pat` within `depth`, or the construction of a closure
        whose own body (group) does."""
        pat = P(pat)
        out = []
        for c in body.calls:
            if c.matches(pat):
                out.append(c.bb)
            elif depth > 0:
                for n in self.callee_bodies(c):
                    if self.group_reaches_call(self.bodies[n].root, pat, depth - 1):
                        out.append(c.bb)
                        break
        if via_closures:
            for bb, child in body.closure_sites():
                cb = self.bodies.get(child)
                if cb is not None and (cb.calls_to(pat) or self.sites(cb, pat, depth, True)):
                    out.append(bb)
        return sorted(set(out))


_ANCHORED = {}


class _Anchored:
    """functions a rule names are anchors and are never dissolved into their caller. A function is named when the rule files contain
    its last two path segments as a path (`Manifest::replay`, `ops::safen_dividend`) or its last segment as a bare string
    (`E + 'value_is'`); for `<T as Trait>::m` forms, when `m` occurs in any path. (`IndexFooter::decode` is not `BlockMeta::decode`.)"""
    pattern = 'anchored-names'

    def __init__(self):
        import glob
        import os
        self.pairs, self.bare, self.last = set(), set(), set()
        here = os.path.dirname(os.path.abspath(__file__))
        for f in glob.glob(os.path.join(here, '..', 'rules', '*.py')):
            with open(f) as fh:
                txt = re.sub(r'<[^<>\n]*>', '', fh.read())       # `Builder::<S>::build` is written with its generics
            for a, b in re.findall(r'([A-Za-z_][A-Za-z0-9_]*)::([A-Za-z_][A-Za-z0-9_]*)', txt):
                self.pairs.add((a, b))
                self.last.add(b)
            # `A::B::c`: overlapping pairs
            for m in re.finditer(r'(?=([A-Za-z_][A-Za-z0-9_]*)::([A-Za-z_][A-Za-z0-9_]*))', txt):
                self.pairs.add((m.group(1), m.group(2)))
                self.last.add(m.group(2))
            for alt in re.findall(r'::\(\??:?([A-Za-z0-9_|]+)\)', txt):
                self.last |= set(alt.split('|'))
            # names given as bare strings and glued to a module path later (`E + 'value_is'`, `for fn in ('is_less_than', ..)`): snake_case
            # identifiers only - a quoted `decode` or `new` is more often a word than a function
            self.bare |= {w for w in re.findall(r'''['"]([a-z][a-z0-9_]*_[a-z0-9_]*)['"]''', txt)}

    def search(self, name):
        n = name
        while True:
            n2 = re.sub(r'<[^<>]*>', '', n)
            if n2 == n:
                break
            n = n2
        segs = [x for x in n.split('::') if x]
        if not segs:
            return False
        m = segs[-1]
        if m in self.bare:
            return True
        if name.startswith('<') or len(segs) < 2:
            return m in self.last
        return (segs[-2], m) in self.pairs


def _anchored_names():
    if 'pat' not in _ANCHORED:
        _ANCHORED['pat'] = _Anchored()
    return _ANCHORED['pat']


def load(scope='lib', crate='risinglight', test=False):
    import facts
    fdir, key, info = facts.ensure_facts(scope)
    crates = facts.load_records(fdir)
    prog = Prog(crates, crate=crate, test=test)
    for c in crates:
        is_lib = c['crate'] == crate and c['test'] == test and 'Rlib' in c['types']
        if not is_lib and not c['crate'].startswith('risinglight_proto'):
            prog.extra.append(Prog(crates, recs=c['recs'], label=f"{c['crate']}({c['types']}{',test' if c['test'] else ''})"))
    prog.key = key
    prog.info = info
    prog.all_crates = crates
    return prog


def load_fixture():
    import facts
    fdir = facts.fixture_facts()
    crates = facts.load_records(fdir)
    return Prog(crates, crate='verif_fixture', test=False, kind='Rlib')
