"""Queries over the MIR facts dumped by rl-facts: CFG, dominance, call sites, call graph,
function groups (a fn plus its nested closures / coroutine bodies), def-use helpers.

Everything here reads the facts of the *type-checked program*; nothing is executed.
"""
import re
from collections import defaultdict, deque


class Call:
    __slots__ = ('body', 'bb', 't')

    def __init__(self, body, bb, t):
        self.body, self.bb, self.t = body, bb, t

    @property
    def fn(self):
        return self.t.get('fn')

    @property
    def res(self):
        return self.t.get('res')

    @property
    def name(self):
        """resolved callee if the compiler could resolve it, else the declared callee"""
        return self.t.get('res') or self.t.get('fn')

    @property
    def names(self):
        out = [n for n in (self.t.get('fn'), self.t.get('res')) if n]
        # `a::b::<impl X>::m` is also addressable as `X::m`
        out += [norm_impl(n) for n in list(out) if '<impl ' in n]
        return out

    @property
    def args(self):
        return self.t.get('args', [])

    @property
    def dest(self):
        return self.t.get('dest')

    @property
    def target(self):
        return self.t.get('t')

    @property
    def loc(self):
        return self.t.get('rspan')

    @property
    def expanded(self):
        return self.t.get('exp', False)

    def matches(self, pat):
        return any(pat.search(n) for n in self.names)

    def __repr__(self):
        return f'<call {self.name} @{self.body.name} bb{self.bb} {self.loc}>'


def norm_impl(n):
    return re.sub(r'<impl (?:[^<>]|<[^<>]*>)*?([A-Za-z_0-9:]+(?:<[^<>]*>)?)>::', r'\1::', n)


def P(pattern):
    """compile a callee pattern; plain strings are matched as path suffixes"""
    if hasattr(pattern, 'search'):
        return pattern
    return re.compile(pattern)


def suffix(*names, nested=False):
    """pattern matching any of the given def-path suffixes (`Type::method`), on fn or resolved name;
    nested=True also matches bodies nested in it (`..::{closure#0}`)"""
    alts = '|'.join(re.escape(n) for n in names)
    return re.compile(r'(?:^|::|<|\s)(?:' + alts + (r')(?:$|>$|::\{)' if nested else r')(?:$|>$)'))


class Body:
    def __init__(self, rec, prog):
        self.rec = rec
        self.prog = prog
        self.name = rec['fn']
        self.blocks = rec['blocks']
        self.root = rec.get('root', rec['fn'])
        self.parent = rec.get('parent')
        self.loc = rec.get('loc')
        self.kind = rec.get('kind')
        self._dom = None
        self._calls = None
        self._succ = None
        self._pred = None

    # ---- CFG -------------------------------------------------------------------------------
    def succ(self, bb, unwind=False):
        t = self.blocks[bb]['term']
        k = t['k']
        out = []
        if k == 'goto':
            out = [t['t']]
        elif k == 'switch':
            out = [b for _, b in t['targets']] + [t['otherwise']]
        elif k in ('call', 'drop', 'assert'):
            if t.get('t') is not None:
                out = [t['t']]
        elif k == 'yield':
            out = [t['t']]
            if unwind and t.get('drop') is not None:
                out.append(t['drop'])
        if unwind and t.get('unwind') is not None:
            out.append(t['unwind'])
        return out

    @property
    def succs(self):
        if self._succ is None:
            self._succ = [self.succ(i) for i in range(len(self.blocks))]
        return self._succ

    @property
    def preds(self):
        if self._pred is None:
            p = [[] for _ in self.blocks]
            for i, ss in enumerate(self.succs):
                for s in ss:
                    p[s].append(i)
            self._pred = p
        return self._pred

    def reachable_from(self, starts, avoid=frozenset()):
        """blocks reachable from any of `starts` along normal edges without entering `avoid`"""
        seen = set()
        dq = deque(s for s in starts if s not in avoid)
        seen.update(dq)
        while dq:
            b = dq.popleft()
            for s in self.succs[b]:
                if s not in seen and s not in avoid:
                    seen.add(s)
                    dq.append(s)
        return seen

    def reaches(self, a, b, avoid=frozenset()):
        return b in self.reachable_from([a], avoid)

    def live_blocks(self):
        return self.reachable_from([0])

    def dominates(self, a, b):
        """every path entry -> b passes a  (a == b counts)"""
        if a == b:
            return True
        live = self.reachable_from([0], avoid={a})
        return b not in live

    def dominated_by_any(self, As, b):
        """every path entry -> b passes some block of As"""
        if b in As:
            return True
        return b not in self.reachable_from([0], avoid=set(As))

    def return_blocks(self):
        return [i for i, bl in enumerate(self.blocks) if bl['term']['k'] == 'return']

    def error_exit_blocks(self):
        """blocks that are on a `?`/`return Err` path: call FromResidual::from_residual, or build Result::Err"""
        out = set()
        for i, bl in enumerate(self.blocks):
            t = bl['term']
            if t['k'] == 'call' and t.get('fn', '').endswith('FromResidual::from_residual'):
                out.add(i)
            for st in bl['stmts']:
                rv = st.get('rv')
                if rv and rv.get('rv') == 'agg' and rv.get('kind') == 'adt' and rv.get('adt') == 'std::result::Result' \
                        and rv.get('variant') == 'Err' and st['lhs']['l'] == 0 and not st['lhs']['p']:
                    out.add(i)   # `return Err(..)`: the Err is built directly in the return place
        return out

    def panic_blocks(self):
        out = set()
        for c in self.calls:
            if c.target is None and re.search(r'(core|std)::panicking::|::unwrap_failed|::expect_failed|begin_panic', c.fn or ''):
                out.add(c.bb)
        return out

    def diverges(self, bb, _depth=0):
        """all paths from bb end in a panic/unreachable (never reach return / yield)"""
        seen = set()
        dq = deque([bb])
        while dq:
            b = dq.popleft()
            if b in seen:
                continue
            seen.add(b)
            t = self.blocks[b]['term']
            if t['k'] in ('return', 'yield', 'coroutine_drop'):
                return False
            ss = self.succs[b]
            if not ss and t['k'] not in ('call', 'unreachable', 'resume', 'terminate', 'assert'):
                return False
            dq.extend(ss)
        return True

    # ---- call sites ------------------------------------------------------------------------
    @property
    def calls(self):
        if self._calls is None:
            self._calls = [Call(self, i, bl['term']) for i, bl in enumerate(self.blocks)
                           if bl['term']['k'] == 'call' and not bl['cleanup']]
        return self._calls

    def calls_to(self, pat):
        pat = P(pat)
        return [c for c in self.calls if c.matches(pat)]

    def closure_sites(self):
        """(bb, child body name) for every closure/coroutine aggregate built in this body"""
        out = []
        for i, bl in enumerate(self.blocks):
            if bl['cleanup']:
                continue
            for st in bl['stmts']:
                rv = st.get('rv')
                if rv and rv.get('rv') == 'agg' and rv.get('kind') in ('closure', 'coroutine', 'coroutine_closure'):
                    out.append((i, rv['def']))
        return out

    def stmts(self):
        for i, bl in enumerate(self.blocks):
            if bl['cleanup']:
                continue
            for st in bl['stmts']:
                yield i, st

    def aggregates(self, adt=None, variant=None):
        for i, st in self.stmts():
            rv = st.get('rv')
            if rv and rv.get('rv') == 'agg' and rv.get('kind') == 'adt':
                if adt is not None and rv['adt'] != adt:
                    continue
                if variant is not None and rv['variant'] != variant:
                    continue
                yield i, st

    def local_ty(self, l):
        return self.rec['locals'][l]

    def var_name(self, l):
        for v in self.rec['vars']:
            if v['pl']['l'] == l and not v['pl']['p']:
                return v['name']
        return None

    def __repr__(self):
        return f'<body {self.name}>'


def pl_fields(pl):
    """field names ('Adt::field') along a place's projection"""
    return [p[2:] for p in pl['p'] if p.startswith('f:')]


def operand_places(x):
    """all places mentioned by an rvalue / operand / terminator json"""
    out = []

    def walk(o):
        if isinstance(o, dict):
            if 'l' in o and 'p' in o and isinstance(o['p'], list):
                out.append(o)
                return
            for v in o.values():
                walk(v)
        elif isinstance(o, list):
            for v in o:
                walk(v)
    walk(x)
    return out


class Prog:
    def __init__(self, crates, crate='risinglight', test=False, kind='Rlib', recs=None, label=None):
        self.crates = crates
        if recs is None:
            recs = []
            for c in crates:
                if c['crate'] == crate and c['test'] == test and kind in c['types']:
                    recs = c['recs']
        self.recs = recs
        self.label = label or f'{crate}({kind}{",test" if test else ""})'
        self.extra = []
        self.bodies = {}
        for r in recs:
            if r['t'] == 'body':
                # `_` consts (derive expansions) share names: keep the first, they are not functions
                self.bodies.setdefault(r['fn'], Body(r, self))
        self.adts = {r['adt']: r for r in recs if r['t'] == 'adt'}
        self.impls = [r for r in recs if r['t'] == 'impl']
        self.consts = {r['name']: r for r in recs if r['t'] == 'const'}
        self.lints = {r['lint']: r['level'] for r in recs if r['t'] == 'lint'}
        self.children = defaultdict(list)
        for b in self.bodies.values():
            if b.root != b.name:
                self.children[b.root].append(b)
        # trait method -> impl methods (class hierarchy for unresolved trait calls)
        self.trait_impls = defaultdict(list)
        for b in self.bodies.values():
            tr = b.rec.get('impl_trait')
            if tr:
                meth = b.name.rsplit('::', 1)[-1]
                self.trait_impls[f'{tr}::{meth}'].append(b.name)
        self._callers = None

    # ---- lookup ----------------------------------------------------------------------------
    def body(self, name):
        return self.bodies.get(name)

    def find(self, pat):
        pat = P(pat)
        return [b for n, b in self.bodies.items() if pat.search(n)]

    def group(self, root):
        """a function and all bodies nested in it (closures, async/stream coroutine bodies)"""
        if isinstance(root, Body):
            root = root.root
        out = []
        if root in self.bodies:
            out.append(self.bodies[root])
        out.extend(self.children.get(root, []))
        return out

    def group_calls(self, root, pat=None):
        out = []
        for b in self.group(root):
            out.extend(b.calls if pat is None else b.calls_to(pat))
        return out

    def roots(self):
        return [b for b in self.bodies.values() if b.root == b.name]

    # ---- call graph ------------------------------------------------------------------------
    def callee_bodies(self, call):
        """names of local bodies a call may enter (resolved, or all impls of the trait method)"""
        out = []
        r = call.res
        if r and r in self.bodies:
            out.append(r)
        elif call.fn in self.bodies:
            out.append(call.fn)
        elif call.fn and not r and call.fn in self.trait_impls:
            out.extend(self.trait_impls[call.fn])
        elif call.fn and r is None and call.t.get('trait'):
            out.extend(self.trait_impls.get(call.fn, []))
        return out

    def group_callees(self, root):
        """local function groups called from a group (roots)"""
        out = set()
        for c in self.group_calls(root):
            for n in self.callee_bodies(c):
                out.add(self.bodies[n].root)
        return out

    def reach(self, root, depth=8):
        """groups reachable from `root` within `depth` call edges (including root)"""
        seen = {root: 0}
        dq = deque([root])
        while dq:
            r = dq.popleft()
            if seen[r] >= depth:
                continue
            for n in self.group_callees(r):
                if n not in seen:
                    seen[n] = seen[r] + 1
                    dq.append(n)
        return seen

    def group_reaches_call(self, root, pat, depth=4):
        """does the group (or anything it calls locally within depth) call something matching pat?"""
        pat = P(pat)
        for r in self.reach(root, depth):
            if self.group_calls(r, pat):
                return True
        return False

    @property
    def callers(self):
        """callee name (fn and resolved) -> list of Call"""
        if self._callers is None:
            idx = defaultdict(list)
            for b in self.bodies.values():
                for c in b.calls:
                    for n in set(c.names):
                        idx[n].append(c)
            self._callers = idx
        return self._callers

    def calls_matching_all(self, pat):
        """call sites in the library and in every other target of the scope (bin, tests, benches)"""
        out = list(self.calls_matching(pat))
        for p in self.extra:
            out.extend(p.calls_matching(pat))
        return out

    def calls_matching(self, pat):
        pat = P(pat)
        out = []
        seen = set()
        for n, cs in self.callers.items():
            if pat.search(n):
                for c in cs:
                    k = (c.body.name, c.bb)
                    if k not in seen:
                        seen.add(k)
                        out.append(c)
        return out

    # ---- sites in a body that (transitively) perform something ------------------------------
    def sites(self, body, pat, depth=0, via_closures=True):
        """blocks of `body` at which something matching `pat` happens: a direct call, a call to a
        local function whose group reaches `pat` within `depth`, or the construction of a closure
        whose own body (group) does."""
        pat = P(pat)
        out = []
        for c in body.calls:
            if c.matches(pat):
                out.append(c.bb)
            elif depth > 0:
                for n in self.callee_bodies(c):
                    if self.group_reaches_call(self.bodies[n].root, pat, depth - 1):
                        out.append(c.bb)
                        break
        if via_closures:
            for bb, child in body.closure_sites():
                cb = self.bodies.get(child)
                if cb is not None and (cb.calls_to(pat) or self.sites(cb, pat, depth, True)):
                    out.append(bb)
        return sorted(set(out))


def load(scope='lib', crate='risinglight', test=False):
    import facts
    fdir, key, info = facts.ensure_facts(scope)
    crates = facts.load_records(fdir)
    prog = Prog(crates, crate=crate, test=test)
    for c in crates:
        is_lib = c['crate'] == crate and c['test'] == test and 'Rlib' in c['types']
        if not is_lib and not c['crate'].startswith('risinglight_proto'):
            prog.extra.append(Prog(crates, recs=c['recs'], label=f"{c['crate']}({c['types']}{',test' if c['test'] else ''})"))
    prog.key = key
    prog.info = info
    prog.all_crates = crates
    return prog


def load_fixture():
    import facts
    fdir = facts.fixture_facts()
    crates = facts.load_records(fdir)
    return Prog(crates, crate='verif_fixture', test=False, kind='Rlib')
