"""Inlining of private helpers into the function a rule is anchored in.

Most path rules are local to one function (`compact_table`, `bootstrap`, `commit_changes` ..): they ask for dominance, for the
origin of a value, for the region of a match arm.  A maintainer who moves a few statements of such a function into a helper that
only this function calls has changed nothing, and the rule must see nothing: `inlined(prog, body)` returns the body with every
such helper spliced in at its call site, on the facts of the type-checked program (no source text is involved):

  * a helper is inlined when it belongs to this crate, is defined in the same source file, is not compiler-derived, and every
    call of it in the whole build sits in the function being analysed or in a helper already inlined into it (`owned`); anything
    with a caller elsewhere keeps its own body and stays a call - so on a tree without such helpers the inlined body IS the body;
  * a synchronous helper: the call terminator becomes `param_i = arg_i; goto entry'`, each `return` of the copy becomes
    `dest = _0'; goto <target of the call>`; locals and blocks of the copy are renumbered behind the caller's;
  * an async helper that is awaited once: the call that builds its future stays (it only packs the arguments), the arguments are
    also copied into fresh locals P_i; the poll of that future becomes `goto entry'` of the coroutine body, whose captured fields
    `_1.i` are rewritten to P_i; a `return` of the copy becomes `dest = Poll::Ready(_0'); goto <target of the poll>`, and the
    `match poll { Ready => .., Pending => yield }` that follows is cut down to its Ready arm (the copy has its own yields);
  * nested: helpers of helpers, `depth` levels; never a function into itself.

The result is a `mir.Body` with the caller's name, root and location, so rule instances keep their keys; `inlined_from` lists
what was spliced in, `group` the nested bodies (closures) of the caller and of everything inlined."""
import copy
import re
from mir import Body

_BLOCK_KEYS = ('t', 'unwind', 'drop', 'otherwise', 'imag')


def _shift(o, dl, db, remap=None, dp=0):
    """deep copy of a fact fragment with locals +dl, blocks +db and promoted constants +dp; remap(place) may rewrite a (copied,
    unshifted) place first"""
    if isinstance(o, dict):
        if dp and o.get('k') == 'const' and isinstance(o.get('v'), str) and 'promoted[' in o['v']:
            o = dict(o)
            o['v'] = re.sub(r'promoted\[(\d+)\]', lambda m: f'promoted[{int(m.group(1)) + dp}]', o['v'])
        if 'l' in o and 'p' in o and isinstance(o['l'], int):
            pl = {'l': o['l'], 'p': list(o['p'])}
            done = remap(pl) if remap else False
            if not done:
                pl['l'] += dl
            for k, v in o.items():
                if k not in ('l', 'p'):
                    pl[k] = _shift(v, dl, db, remap, dp)
            return pl
        out = {}
        for k, v in o.items():
            if k in _BLOCK_KEYS and isinstance(v, int) and not isinstance(v, bool) and 'k' in o:
                out[k] = v + db
            elif k == 'targets' and 'k' in o:
                out[k] = [[a, b + db] for a, b in v]
            else:
                out[k] = _shift(v, dl, db, remap, dp)
        return out
    if isinstance(o, list):
        return [_shift(v, dl, db, remap, dp) for v in o]
    return o


def _use(l, op):
    return {'s': 'assign', 'ln': None, 'lhs': {'l': l, 'p': []}, 'rv': {'rv': 'use', 'op': op}}


def _copy_of(op):
    if op['k'] == 'const':
        return copy.deepcopy(op)
    o = copy.deepcopy(op)
    o['k'] = 'copy'
    return o


def _callee_root(prog, t):
    for n in (t.get('res'), t.get('fn')):
        if n and n in prog.bodies and prog.bodies[n].root == n:
            return n
    return None


def _async_body(prog, root):
    """the coroutine body of `async fn root`, if root only packs its arguments into it"""
    rb = prog.bodies[root]
    cn = root + '::{closure#0}'
    cb = prog.bodies.get(cn)
    if cb is None or not cb.rec.get('coroutine'):
        return None, None
    packed = None
    for _, st in rb.stmts():
        rv = st.get('rv')
        if rv and rv.get('rv') == 'agg' and rv.get('def') == cn and st['lhs']['l'] == 0 and not st['lhs']['p']:
            packed = rv['ops']
    if packed is None or any(b['term']['k'] == 'call' for b in rb.blocks if not b['cleanup']):
        return None, None
    return cb, packed


def _same_file(a, b):
    return (a.loc or '?').rsplit(':', 1)[0] == (b.loc or '??').rsplit(':', 1)[0]


def _owned(prog, root, owners):
    cs = [c for c in prog.callers.get(root, [])]
    for x in prog.extra:
        cs += x.callers.get(root, [])
    cs = [c for c in cs if c.body.root != root]
    return bool(cs) and all(c.body.root in owners for c in cs)


def inlined(prog, body, depth=2, keep=None, limit=16):
    """`body` with the helpers only it calls spliced in (see module doc). keep: regex of callee names never to inline."""
    rec = copy.deepcopy(body.rec)
    blocks = rec['blocks']
    origin = [()] * len(blocks)            # per block: chain of helper roots it was copied from
    owners = {body.root}
    done = []
    keep = re.compile(keep) if isinstance(keep, str) else keep
    progress = True
    while progress and len(done) < limit:
        progress = False
        for i in range(len(blocks)):
            bl = blocks[i]
            t = bl['term']
            if t['k'] != 'call' or bl['cleanup'] or t.get('t') is None or len(origin[i]) >= depth:
                continue
            # ---- the poll of the future of an async helper --------------------------------------------------------
            if (t.get('fn') or '').endswith('Future::poll') and (t.get('res') or '').endswith('::{closure#0}'):
                r = t['res'][:-len('::{closure#0}')]
                if r not in prog.bodies or r in origin[i] or r == body.root or (keep and keep.search(r)) \
                        or prog.bodies[r].rec.get('derived') or not _owned(prog, r, owners) or not _same_file(prog.bodies[r], body):
                    continue
                cb, packed = _async_body(prog, r)
                if cb is None:
                    continue
                ctors = [j for j, b2 in enumerate(blocks) if b2['term']['k'] == 'call' and not b2['cleanup']
                         and _callee_root(prog, b2['term']) == r]
                if len(ctors) > 1:
                    # several awaits of the helper: this poll belongs to the call whose future it pins
                    from tmpl import origin_locals
                    tmp = Body(rec, prog)
                    a0 = t['args'][0] if t.get('args') else None
                    org = origin_locals(tmp, a0['pl']['l'], depth=8) if a0 and a0['k'] != 'const' else set()
                    ctors = [j for j in ctors if not blocks[j]['term']['dest']['p'] and blocks[j]['term']['dest']['l'] in org]
                if len(ctors) != 1:
                    continue
                ct = blocks[ctors[0]]['term']
                rb = prog.bodies[r]
                nloc = len(rec['locals'])
                # P_k: one fresh local per argument of the helper; the captured field i of the coroutine is argument packed[i]
                argc = rb.rec.get('argc', len(ct['args']))
                P = list(range(nloc, nloc + argc))
                rec['locals'] += [rb.rec['locals'][k + 1] if k + 1 < len(rb.rec['locals']) else '?' for k in range(argc)]
                for k in range(min(argc, len(ct['args']))):
                    blocks[ctors[0]]['stmts'].append(_use(P[k], _copy_of(ct['args'][k])))
                field_to_local = {}
                for fi, o in enumerate(packed):
                    if o['k'] != 'const' and not o['pl']['p'] and 1 <= o['pl']['l'] <= argc:
                        field_to_local[fi] = P[o['pl']['l'] - 1]
                dl, db = len(rec['locals']), len(blocks)

                def remap(pl, field_to_local=field_to_local):
                    if pl['l'] == 1:
                        ps = pl['p']
                        k = 0
                        while k < len(ps) and ps[k] == '*':
                            k += 1
                        if k < len(ps) and ps[k].startswith('f:'):
                            f = ps[k][2:].rsplit('::', 1)[-1]
                            if f.isdigit() and int(f) in field_to_local:
                                pl['l'] = field_to_local[int(f)]
                                pl['p'] = ps[k + 1:]
                                return True
                    return False
                _splice(rec, origin, i, cb, dl, db, remap, origin[i] + (r,), ready=True)
                owners.add(r)
                done.append(r)
                progress = True
                break
            # ---- a synchronous helper ---------------------------------------------------------------------------------
            r = _callee_root(prog, t)
            if r is None or r in origin[i] or r == body.root or (keep and keep.search(r)):
                continue
            cb = prog.bodies[r]
            if cb.rec.get('derived') or cb.rec.get('coroutine') or not _owned(prog, r, owners) or not _same_file(cb, body):
                continue
            if _async_body(prog, r)[0] is not None:
                continue                    # the call only builds the future; its poll is handled above
            argc = cb.rec.get('argc', len(t['args']))
            if argc != len(t['args']):
                continue                    # "rust-call" ABI and the like
            dl, db = len(rec['locals']), len(blocks)
            for k, a in enumerate(t['args']):
                bl['stmts'].append(_use(dl + k + 1, copy.deepcopy(a)))
            _splice(rec, origin, i, cb, dl, db, None, origin[i] + (r,), ready=False)
            owners.add(r)
            done.append(r)
            progress = True
            break
    if not done:
        return body
    nb = Body(rec, prog)
    nb.inlined_from = done
    return nb


def _retarget(term, m):
    """normal-edge successors of a terminator through the block map m (unwind edges stay)"""
    for k in ('t', 'otherwise', 'imag'):
        if isinstance(term.get(k), int) and not isinstance(term.get(k), bool) and term[k] in m:
            term[k] = m[term[k]]
    if 'targets' in term:
        term['targets'] = [[a, m.get(b_, b_)] for a, b_ in term['targets']]


def _builds(bl, variant):
    return any(st['s'] == 'assign' and st['lhs']['l'] == 0 and not st['lhs']['p'] and st['rv'].get('rv') == 'agg'
               and st['rv'].get('adt') == 'std::result::Result' and st['rv'].get('variant') == variant for st in bl['stmts'])


def _result_chain(blocks, start, dest_local):
    """the straight line from `start` to the `match Try::branch(dest) { Continue.., Break.. }` of a `?`: (chain blocks, switch block)"""
    cur, chain, tracked, cfs = start, [], {dest_local}, set()
    for _ in range(14):
        bl = blocks[cur]
        if bl['cleanup']:
            return None
        for st in bl['stmts']:
            if st['s'] == 'assign' and not st['lhs']['p'] and st['rv'].get('rv') == 'use' and st['rv']['op']['k'] != 'const' \
                    and st['rv']['op']['pl']['l'] in tracked:
                tracked.add(st['lhs']['l'])
        t = bl['term']
        if t['k'] == 'switch':
            if t.get('adt') == 'std::ops::ControlFlow' and t.get('on') and t['on'].get('l') in cfs:
                return chain, cur
            return None
        chain.append(cur)
        if t['k'] == 'call':
            uses = [a for a in t['args'] if a['k'] != 'const' and a['pl']['l'] in tracked]
            if (t.get('fn') or '').endswith('ops::Try::branch') and uses and not t['dest']['p']:
                cfs.add(t['dest']['l'])
            elif uses or t.get('t') is None:
                return None
            cur = t['t']
        elif t['k'] in ('goto', 'drop') and isinstance(t.get('t'), int):
            cur = t['t']
        else:
            return None
    return None


def _splice(rec, origin, i, cb, dl, db, remap, chain, ready):
    blocks = rec['blocks']
    t = blocks[i]['term']
    dest, target = t['dest'], t['t']
    rec['locals'] += list(cb.rec['locals'])
    for v in cb.rec.get('vars', []):
        rec['vars'].append(_shift(v, dl, db, remap))
    # the helper's promoted constants (`&Enum::Variant`, literals) go behind the caller's; each is a little body of its own
    if rec.get('promoted') is None:
        rec['promoted'] = []
    dp = len(rec['promoted'])
    rec['promoted'] += copy.deepcopy(cb.rec.get('promoted') or [])
    if ready:
        # `match poll(..) { Ready(v) => v, Pending => yield }` after the poll: only Ready is left
        tb = blocks[target]
        tt = tb['term']
        if tt['k'] == 'switch' and tt.get('adt') == 'std::task::Poll' and tt.get('on') and tt['on'].get('l') == dest['l']:
            names = tt.get('variants', {})
            rd = [tgt for v, tgt in tt['targets'] if names.get(str(v)) == 'Ready']
            if rd:
                tb['term'] = {'k': 'goto', 't': rd[0]}

    # ---- `helper(..)?`: keep the outcome of the helper and the arm of the `?` together ------------------------------------------
    # The error exits of the helper (`?` inside it, `return Err(..)`) share their tail (drops, the return) with the good paths; spliced
    # in as they are, a path could fail inside the helper and go on in the caller as if it had succeeded. So the tail behind the error
    # exits is duplicated (it is a straight, loop-free run of drops), and so is the caller's straight line up to the switch of its own
    # `?`: the copy reached from an error exit continues in the Break arm only, and - when every other definition of the helper's
    # result is a literal `Ok(..)` - the original continues in the Continue arm only.
    n = len(cb.blocks)
    errs = {e for e in cb.error_exit_blocks() if not cb.blocks[e]['cleanup']}
    tail = set()
    if errs:
        tail = cb.reachable_from([x for e in errs for x in cb.succs[e]])
        if tail & errs or any(x in cb.reachable_from(cb.succs[x]) for x in tail) or any(_builds(cb.blocks[x], 'Ok') for x in tail):
            tail = set()
    rc = _result_chain(blocks, target, dest['l']) if tail else None
    tail_ix = {x: db + n + k for k, x in enumerate(sorted(tail))} if rc else {}
    all_ok = False
    if rc:
        all_ok = True
        for x, bl in enumerate(cb.blocks):
            if bl['cleanup'] or x in errs:
                continue
            for st in bl['stmts']:
                if st['s'] == 'assign' and st['lhs']['l'] == 0 and not st['lhs']['p'] and not _builds({'stmts': [st]}, 'Ok'):
                    all_ok = False
            tt = bl['term']
            if tt['k'] == 'call' and tt['dest']['l'] == 0 and not tt['dest']['p']:
                all_ok = False

    def returned(nbk, to):
        ret = {'k': 'copy', 'pl': {'l': dl, 'p': []}}
        if ready:
            rv = {'rv': 'agg', 'kind': 'adt', 'adt': 'std::task::Poll', 'variant': 'Ready', 'ops': [ret], 'fields': []}
        else:
            rv = {'rv': 'use', 'op': ret}
        nbk['stmts'].append({'s': 'assign', 'ln': nbk.get('ln'), 'lhs': copy.deepcopy(dest), 'rv': rv})
        nbk['term'] = {'k': 'goto', 't': to}

    # where the copies of the caller's `?` line will sit: first the good one (if any), then the bad one
    first_new = db + n + len(tail_ix)
    ok_entry = err_entry = target
    if rc:
        line, sw = rc
        if all_ok:
            ok_entry = first_new
            err_entry = first_new + len(line) + 1
        else:
            err_entry = first_new
    for x, bl in enumerate(cb.blocks):
        nbk = _shift(bl, dl, db, remap, dp)
        if nbk['term']['k'] == 'return':
            returned(nbk, ok_entry)
        elif x in errs and tail_ix:
            _retarget(nbk['term'], {db + y: z for y, z in tail_ix.items()})
        blocks.append(nbk)
        origin.append(chain)
    for x in sorted(tail_ix):
        nbk = _shift(cb.blocks[x], dl, db, remap, dp)
        if nbk['term']['k'] == 'return':
            returned(nbk, err_entry)
        else:
            _retarget(nbk['term'], {db + y: z for y, z in tail_ix.items()})
        blocks.append(nbk)
        origin.append(chain)
    if rc:
        line, sw = rc
        st = blocks[sw]['term']
        names = st.get('variants', {})
        arm = {names.get(str(v)): tgt for v, tgt in st['targets']}
        for want in (['Continue'] if all_ok else []) + ['Break']:
            base = len(blocks)
            for k, x in enumerate(line):
                nbk = copy.deepcopy(blocks[x])
                _retarget(nbk['term'], {(line[k + 1] if k + 1 < len(line) else sw): base + k + 1})
                blocks.append(nbk)
                origin.append(origin[x])
            last = copy.deepcopy(blocks[sw])
            last['term'] = {'k': 'goto', 't': arm[want]} if want in arm else last['term']
            blocks.append(last)
            origin.append(origin[sw])
    blocks[i]['term'] = {'k': 'goto', 't': db, 'inlined': t.get('res') or t.get('fn'), 'rspan': t.get('rspan')}


def group(prog, body):
    """nested bodies of the function and of everything inlined into it"""
    out = [b for b in prog.group(body.root) if b.name != body.name]
    for r in getattr(body, 'inlined_from', []):
        out += [b for b in prog.group(r)]
    return [body] + out
