"""Check protocol shared by all properties: obligations, floors, violations keyed by resolved
names, known findings, evidence files."""
import hashlib
import json
import os
import sys
import time

VERIF = os.path.dirname(os.path.dirname(os.path.abspath(__file__)))
sys.path.insert(0, os.path.join(VERIF, 'lib'))


class Ctx:
    def __init__(self, pid, tier, seed):
        self.pid, self.tier, self.seed = pid, tier, seed
        self.t0 = time.time()
        self.obligations = []      # {rule, instance, ok, detail, sites}
        self.violations = []       # {rule, key, what, detail, sites}
        self.samples = []
        self.floors = {}
        self.notes = []
        self.unclassified = []
        self.trusted = []
        self.assumptions = []
        self.explanation = ''
        self.rule_text = {}
        self.extra = {}
        self.evaluations = 0
        self.nontrivial = set()
        self._prog = {}
        self.functions_analysed = set()

    # ---- engines ---------------------------------------------------------------------------
    def prog(self, scope=None):
        import mir
        scope = scope or 'lib'
        if scope not in self._prog:
            p = mir.load(scope)
            self._prog[scope] = p
            stolen = [r['fn'] for r in p.recs if r['t'] == 'stolen']
            if stolen:
                self.violation('internal', 'facts-incomplete', f'{len(stolen)} bodies could not be read by rl-facts '
                               f'(e.g. {stolen[:3]}); fail closed')
        return self._prog[scope]

    @property
    def thorough(self):
        return self.tier == 'thorough'

    # ---- recording -------------------------------------------------------------------------
    def rule(self, rid, text):
        self.rule_text[rid] = text

    def ob(self, rule, instance, ok, detail='', sites=(), what=None, nontrivial=True):
        """one obligation = one rule instance examined. A failed obligation is a violation whose
        identity is rule + instance (resolved names only, never line numbers)."""
        self.evaluations += 1
        if nontrivial:
            self.nontrivial.add((rule, instance))
        self.obligations.append({'rule': rule, 'instance': instance, 'ok': bool(ok), 'detail': detail,
                                 'sites': list(sites)})
        if not ok:
            self.violation(rule, instance, what or detail, detail, sites)
        return ok

    def violation(self, rule, instance, what, detail='', sites=()):
        self.violations.append({'rule': rule, 'key': f'{rule}·{instance}', 'what': what, 'detail': detail,
                                'sites': list(sites)})

    def floor(self, rule, count, floor, what='rule instances'):
        """a rule must match at least the number of instances confirmed by reading the code"""
        self.floors[rule] = {'count': count, 'floor': floor, 'what': what}
        if count < floor:
            self.violation(rule, f'floor:{what}', f'{rule}: only {count} {what} matched, floor is {floor} '
                           f'(anchor lost or mechanism removed - the rule would pass vacuously)')

    def anchor(self, rule, name, found):
        """fail closed when a named anchor (function, type, field) no longer resolves"""
        if not found:
            self.violation(rule, f'anchor-lost:{name}', f'{rule}: anchor `{name}` not found in the type-checked '
                           f'program; the mechanism was renamed or redesigned and the rule must be re-confirmed')
        return bool(found)

    def sample(self, s):
        if len(self.samples) < 12:
            self.samples.append(s)

    def note(self, s):
        self.notes.append(s)


def load_known():
    p = os.path.join(VERIF, 'known_findings.json')
    if not os.path.exists(p):
        return {'findings': [], 'fixed': []}
    return json.load(open(p))


def finish(ctx):
    """print outcome lines, write evidence, return exit code"""
    known = load_known()
    kmap = {f['key']: f for f in known.get('findings', []) if f['property'] == ctx.pid}
    vdir = os.path.join(VERIF, 'evidence', 'violations')
    os.makedirs(vdir, exist_ok=True)
    # group violations by key (one line per key)
    bykey = {}
    for v in ctx.violations:
        bykey.setdefault(v['key'], v)
    new, seen_known = [], []
    for key, v in bykey.items():
        if key in kmap:
            seen_known.append(key)
            print(f'KNOWN-FINDING: property={ctx.pid} {kmap[key]["what_fails"]} [{key}]')
        else:
            new.append(v)
    for v in new:
        h = hashlib.sha1(v['key'].encode()).hexdigest()[:10]
        path = os.path.join(vdir, f'{ctx.pid}-{h}.json')
        json.dump({'property': ctx.pid, 'tier': ctx.tier, **v, 'rule_text': ctx.rule_text.get(v['rule'], ''),
                   'facts_key': ctx.extra.get('facts_key')}, open(path, 'w'), indent=1)
        print(f'VIOLATION property={ctx.pid} replay={path}')
        print(f'  rule {v["rule"]} instance {v["key"]}: {v["what"]}')
        for s in v['sites'][:6]:
            print(f'    at {s}')
    stale = [k for k in kmap if k not in seen_known]
    for k in stale:
        print(f'note: known finding not observed on this tree: {k}')
    discharged = sum(1 for o in ctx.obligations if o['ok'])
    cov = {
        'explanation': ctx.explanation,
        'evaluations': ctx.evaluations,
        'distinct_nontrivial': len(ctx.nontrivial),
        'rule': 'one evaluation = one rule instance (call site, path, match arm, rewrite-rule instantiation) examined '
                'on the facts of this run; non-trivial = the rule premise applied to that instance (both anchors '
                'present / instantiation well-formed); distinct by (rule, instance key)',
        'samples': ctx.samples or [o for o in ctx.obligations[:8]],
        'obligations': len(ctx.obligations),
        'discharged': discharged,
        'rules': ctx.rule_text,
        'floors': ctx.floors,
        'unclassified': ctx.unclassified,
        'trusted_base': ctx.trusted,
        'functions_analysed': len(ctx.functions_analysed),
        'known_findings_observed': seen_known,
        'known_findings_not_observed': stale,
        'new_violations': [v['key'] for v in new],
        'notes': ctx.notes,
        'exhaustive': ctx.extra.get('exhaustive', True),
    }
    cov.update({k: v for k, v in ctx.extra.items() if k not in cov})
    ev = {
        'property_id': ctx.pid, 'tier': ctx.tier, 'seed': ctx.seed, 'level': 'other',
        'coverage': cov,
        'assumptions': ctx.assumptions,
        'wall_s': round(time.time() - ctx.t0, 2),
        'violations': len(new),
    }
    os.makedirs(os.path.join(VERIF, 'evidence'), exist_ok=True)
    json.dump(ev, open(os.path.join(VERIF, 'evidence', f'{ctx.pid}.json'), 'w'), indent=1, default=str)
    print(f'{ctx.pid} {ctx.tier}: {len(ctx.obligations)} obligations, {discharged} discharged, '
          f'{len(seen_known)} known findings, {len(new)} new violations, {ev["wall_s"]}s')
    return 1 if new else 0
